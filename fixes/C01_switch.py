#!/usr/bin/env python3
"""C01_switch.py <mux2-wide-select|reg-wide-enable|equalconstant-oversized> [<commit>] [--verif DIR]

Run ONCE, right after fixes/C01-<id>.diff has been committed in /repo.  C01's emitter models are matched SYNTACTICALLY against the emitted
text, so the model must change together with the emitter.  The switch rewrites (exact text replacement; refuses if a block is not found,
e.g. when run twice):
  mux2-wide-select         Model/Inline.v inl_mux2 (condition `sel & 1`); Proofs/C01/InlineSound.v inl_mux2_sound for EVERY select width;
                           Properties/C01.v  C01_inline_mux2_sound_partial -> C01_inline_mux2_sound, C01_mux2_wide_select_refuted removed;
                           Model/C01Prim.v  prim_guard of PMux2 dropped (composition covers wide selects)
  reg-wide-enable          Model/Inline.v body_reg_proc (`e != 0`); Proofs/C01/RegSound.v ne_zero, body_reg_sound without the 1-bit premise,
                           reg_history with an enable width; Properties/C01.v C01_reg_sound_partial -> C01_reg_sound, C01_reg_wide_enable_refuted
                           removed; Model/C01Prim.v enable_ok := true (Proofs/C01/ComposeEdge.v compiles against both forms)
  equalconstant-oversized  py/props/c01.py and py/props/c01_compose.py pass the MASKED constant to inl_equalconst / PEqualConst (the Coq theorem
                           C01_inline_equalconst_masked_sound is already in Properties/C01.v: it is true of the model on both trees)
  all                      known_findings/C01.json status "known" -> "fixed" (+ commit); one line under Findings in docs/C01.md
The three switches are independent and can be applied in any order.  Afterwards: ./mk Properties/C01.vo Properties/C01Compose.vo ; ./check C01 quick"""
import sys, os, json
args = list(sys.argv[1:]); verif = '/verif'
if '--verif' in args:
    i = args.index('--verif'); verif = args[i + 1]; del args[i:i + 2]
fid = args[0]; commit = args[1] if len(args) > 1 else None
DATA = {'equalconstant-oversized': [('py/props/c01.py',
                              "t = 'inl_equalconst %s %s %s' % (n(ch.r), n(ch.a), zlit(ch.v))",
                              "t = 'inl_equalconst %s %s %s' % (n(ch.r), n(ch.a), zlit(ch.v & ((1 << ch.a.getWidth()) - 1)))   # the repaired emitter prints "
                              'the masked constant'),
                             ('py/props/c01_compose.py',
                              "return 'PEqualConst %s %s %s' % (n(ch.r), n(ch.a), zlit(ch.v))",
                              "return 'PEqualConst %s %s %s' % (n(ch.r), n(ch.a), zlit(ch.v & ((1 << ch.a.getWidth()) - 1)))   # the repaired emitter prints "
                              'the masked constant'),
                             ('coq/Properties/C01.v',
                              '(* guard: 0 <= K < 2^31 (an oversized K compared untruncated is the known finding equalconstant-oversized on the simulator '
                              'side) *)',
                              '(* guard: 0 <= K < 2^31 on the PRINTED constant; the repaired emitter prints K mod 2^w: see C01_inline_equalconst_masked_sound '
                              '*)')],
 'mux2-wide-select': [('coq/Model/Inline.v',
                       'Definition inl_mux2 (r sel s0 s1 : nid) := [(whole r, RCond (rid sel) (rid s1) (rid s0))].',
                       'Definition inl_mux2 (r sel s0 s1 : nid) := [(whole r, RCond (RBin BAnd (rid sel) (RNum 1)) (rid s1) (rid s0))].'),
                      ('coq/Proofs/C01/InlineSound.v',
                       '(* ---- assign r = (sel)? sel1 : sel0;    the simulator tests bit 0 of sel, Verilog tests sel != 0:\n'
                       '        equal for a 1-bit select (guard); refuted for a wider one (inl_mux2_refuted) *)\n'
                       'Theorem inl_mux2_sound r sel s0 s1 : okn sel -> snd sel = 1 -> okn s0 -> okn s1 -> 0 < snd r ->\n'
                       '  forall l e, inl_mux2 r sel s0 s1 = [(l, e)] ->\n'
                       '  assign_value env l e = Mux2_propagate (snd r) (val sel) (val s0) (val s1).\n'
                       'Proof.\n'
                       '  intros Hs Hs1 H0 H1 Hr l e H; inversion H; subst; clear H. unfold assign_value, Mux2_propagate. ctx.\n'
                       '  set (w := Z.max (snd r) (Z.max (snd s1) (snd s0))).\n'
                       '  assert (Hw : snd r <= w /\\ snd s1 <= w /\\ snd s0 <= w) by lia.\n'
                       '  cbn [reval]. fold (rid s0) (rid s1) (rid sel).\n'
                       '  change (reval env (rsize (rid sel)) (rsigned (rid sel)) (rid sel)) with (reval env (snd sel) false (rid sel)).\n'
                       '  rewrite !reval_rid by (auto; lia).\n'
                       '  destruct Hs as [_ Hv]. rewrite Hs1 in Hv. change (2 ^ 1) with 2 in Hv.\n'
                       '  assert (Hc : val sel = 0 \\/ val sel = 1) by lia.\n'
                       '  cbv zeta. rewrite !put_trunc. unfold py_truth.\n'
                       '  destruct Hc as [-> | ->]; cbn [Z.land Z.eqb negb Pos.land]; apply vtrunc_trunc; lia.\n'
                       'Qed.\n'
                       '\n',
                       '(* ---- assign r = (sel & 1)? sel1 : sel0;    bit 0 of the select decides, as in Mux2.propagate: EVERY select width *)\n'
                       'Lemma and_one_cond sel : okn sel -> rself env (RBin BAnd (rid sel) (RNum 1)) = Z.land (val sel) 1.\n'
                       'Proof.\n'
                       '  intros [Hw Hv]. unfold rself. cbn [rsize rsigned arith_op shift_op reval rid andb bop extend].\n'
                       '  set (cw := Z.max (snd sel) 32). assert (Hc : snd sel <= cw /\\ 32 <= cw) by lia.\n'
                       "  assert (Hv' : 0 <= getv env (fst sel) < 2 ^ cw) by (eapply small_in_wider; [|exact Hv]; lia).\n"
                       '  assert (H1 : 0 <= 1 < 2 ^ cw).\n'
                       '  { split; [lia|]. apply Z.lt_le_trans with (2 ^ 32); [lia|]. apply pow2_le; lia. }\n'
                       '  rewrite (vtrunc_small cw (getv env (fst sel))) by lia.\n'
                       '  rewrite (vtrunc_small 32 1) by lia. rewrite (vtrunc_small cw 1) by lia.\n'
                       '  apply vtrunc_small; [lia|].\n'
                       '  assert (Hb : 0 <= Z.land (getv env (fst sel)) 1 <= 1).\n'
                       '  { pose proof (Z.land_ones (getv env (fst sel)) 1 ltac:(lia)) as E. change (Z.ones 1) with 1 in E. change (2 ^ 1) with 2 in E.\n'
                       '    rewrite E. lia. }\n'
                       '  lia.\n'
                       'Qed.\n'
                       '\n'
                       'Lemma reval_cond w sg c a b : reval env w sg (RCond c a b) = if rself env c =? 0 then reval env w sg b else reval env w sg a.\n'
                       'Proof. reflexivity. Qed.\n'
                       '\n'
                       'Theorem inl_mux2_sound r sel s0 s1 : okn sel -> okn s0 -> okn s1 -> 0 < snd r ->\n'
                       '  forall l e, inl_mux2 r sel s0 s1 = [(l, e)] ->\n'
                       '  assign_value env l e = Mux2_propagate (snd r) (val sel) (val s0) (val s1).\n'
                       'Proof.\n'
                       '  intros Hs H0 H1 Hr l e H; inversion H; subst; clear H. unfold assign_value, Mux2_propagate.\n'
                       '  cbn [lwidth whole rsize rsigned fst snd]. cbn [rid rsize rsigned andb].\n'
                       '  set (w := Z.max (snd r) (Z.max (snd s1) (snd s0))).\n'
                       '  assert (Hw : snd r <= w /\\ snd s1 <= w /\\ snd s0 <= w) by lia.\n'
                       '  rewrite reval_cond, (and_one_cond sel Hs).\n'
                       '  rewrite !reval_rid by (auto; lia).\n'
                       '  cbv zeta. rewrite !put_trunc. unfold py_truth.\n'
                       '  destruct (Z.land (val sel) 1 =? 0); cbn [negb]; apply vtrunc_trunc; lia.\n'
                       'Qed.\n'
                       '\n'),
                      ('coq/Properties/C01.v',
                       '(* guard: 1-bit select (wider selects: C01_mux2_wide_select_refuted) *)\n'
                       'Theorem C01_inline_mux2_sound_partial : forall env r sel s0 s1, okn env sel -> snd sel = 1 -> okn env s0 -> okn env s1 -> 0 < snd r '
                       '->\n'
                       '  forall l e, inl_mux2 r sel s0 s1 = [(l, e)] ->\n'
                       '  assign_value env l e = Mux2_propagate (snd r) (val env sel) (val env s0) (val env s1).\n'
                       'Proof. exact inl_mux2_sound. Qed.\n',
                       '(* EVERY select width: the emitted condition is `sel & 1`, the bit Mux2.propagate tests (finding mux2-wide-select repaired) *)\n'
                       'Theorem C01_inline_mux2_sound : forall env r sel s0 s1, okn env sel -> okn env s0 -> okn env s1 -> 0 < snd r ->\n'
                       '  forall l e, inl_mux2 r sel s0 s1 = [(l, e)] ->\n'
                       '  assign_value env l e = Mux2_propagate (snd r) (val env sel) (val env s0) (val env s1).\n'
                       'Proof. exact inl_mux2_sound. Qed.\n'),
                      ('coq/Properties/C01.v',
                       '(* select = 2 on a 2-bit select: Verilog takes sel1 (sel != 0), the simulator takes sel0 (bit 0 is 0) *)\n'
                       'Theorem C01_mux2_wide_select_refuted : exists env r sel s0 s1, okn env sel /\\ okn env s0 /\\ okn env s1 /\\\n'
                       '  match inl_mux2 r sel s0 s1 with [(l, e)] => assign_value env l e <> Mux2_propagate (snd r) (val env sel) (val env s0) (val env s1) | '
                       '_ => False end.\n'
                       'Proof.\n'
                       '  exists [2; 5; 9; 0], (3%nat, 4), (0%nat, 2), (1%nat, 4), (2%nat, 4). unfold okn. cbn [fst snd getv nth].\n'
                       '  repeat split; try lia. vm_compute. discriminate.\n'
                       'Qed.\n',
                       ''),
                      ('coq/Properties/C01.v', 'Print Assumptions C01_inline_mux2_sound_partial.\n', 'Print Assumptions C01_inline_mux2_sound.\n'),
                      ('coq/Properties/C01.v', 'Print Assumptions C01_mux2_wide_select_refuted.\n', ''),
                      ('coq/Model/C01Prim.v', '  | PMux2 _ sel _ _ => snd sel =? 1\n', ''),
                      ('docs/C01.md',
                       '`C01_inline_mux2_sound_partial` (1-bit select);',
                       '`C01_inline_mux2_sound` (EVERY select width: the repaired emitter tests `sel & 1`);'),
                      ('docs/C01.md', 'Refutations: `C01_mux2_wide_select_refuted`, ', 'Refutations: ')],
 'reg-wide-enable': [('coq/Model/Inline.v',
                      "  let en := match e with Some e' => RIf (RBin BEq (rid e') (RNum 1)) load RSkip | None => load end in",
                      "  let en := match e with Some e' => RIf (RBin BNe (rid e') (RNum 0)) load RSkip | None => load end in"),
                     ('coq/Model/Inline.v', '[if (e == 1)] rq <= d;', '[if (e != 0)] rq <= d;'),
                     ('coq/Proofs/C01/RegSound.v',
                      'Theorem body_reg_sound rq d e r rv st :\n'
                      '  (fst rq < length env)%nat -> okn env rq -> okn env d -> opt_ok e -> opt_ok r ->\n'
                      "  (match e with Some e' => snd e' = 1 | None => True end) ->\n"
                      '  - 2 ^ 31 < rv < 2 ^ 31 ->\n'
                      "  let '(env1, q) := exec (body_reg_proc rq d e r rv) (env, []) in\n"
                      "  let '(st', qsim) := Reg_clock (snd rq) (is_some e) (is_some r) rv st (val d) (opt_val e) (opt_val r) in\n"
                      '  env1 = env /\\\n'
                      '  getv (apply_nbas env1 q) (fst rq) = (if (b2z (opt_val r =? 1) =? 1) && is_some r then qsim\n'
                      '                                        else if negb (is_some e) || negb (opt_val e =? 0) then qsim\n'
                      '                                        else val rq) /\\\n'
                      "  (* and the simulator's q output in the hold case re-prepares the unchanged stored value *)\n"
                      "  qsim = trunc (snd rq) (Reg_s_value st').\n"
                      'Proof.\n'
                      '  intros Hi Hq Hd He Hr He1 Hrv.\n'
                      '  assert (Hload : forall l, l = whole rq ->\n'
                      '            getv (apply_nbas env [((fst rq, 0, snd rq), assign_value env l (rid d))]) (fst rq) = trunc (snd rq) (val d)).\n'
                      '  { intros l ->. cbn [apply_nbas fold_left fst snd]. destruct Hq as [Hwq Hvq]. rewrite write_whole by auto.\n'
                      '    unfold assign_value. cbn [lwidth whole rid rsize rsigned]. fold (rid d).\n'
                      '    rewrite reval_rid by (auto; lia). rewrite !vtrunc_vtrunc_le by lia. apply vtrunc_trunc; lia. }\n'
                      '  assert (Hrst : getv (apply_nbas env [((fst rq, 0, snd rq), assign_value env (whole rq) (pynum rv))]) (fst rq) = trunc (snd rq) rv).\n'
                      '  { cbn [apply_nbas fold_left fst snd]. destruct Hq as [Hwq Hvq]. rewrite write_whole by auto.\n'
                      '    destruct (inl_constant_sound env (fst rq, snd rq) rv ltac:(cbn; lia) Hrv _ _ eq_refl) as [_ Hc].\n'
                      '    cbn [inl_constant snd fst] in Hc.\n'
                      "    (* the literal's value does not depend on the shape of the l-value, only on its width *)\n"
                      '    unfold assign_value in *. cbn [lwidth whole fst snd] in *.\n'
                      '    destruct (1 <? snd rq) eqn:E; cbn [lwidth whole fst snd] in Hc.\n'
                      '    - replace (snd rq - 1 - 0 + 1) with (snd rq) in Hc by lia. rewrite Hc.\n'
                      '      rewrite vtrunc_small by (try lia; unfold Constant_propagate; rewrite put_trunc; apply trunc_range; lia). reflexivity.\n'
                      '    - rewrite Hc. rewrite vtrunc_small by (try lia; unfold Constant_propagate; rewrite put_trunc; apply trunc_range; lia). reflexivity. '
                      '}\n'
                      '  unfold body_reg_proc, Reg_clock. cbv zeta.\n'
                      "  destruct r as [r'|]; destruct e as [e'|]; cbn [is_some opt_val negb orb andb exec fst snd ltarget whole] in *.\n"
                      "  - rewrite eq_one by exact Hr. destruct (Z.eqb_spec (val r') 1) as [H1|H1]; cbn [b2z Z.eqb exec fst snd ltarget whole].\n"
                      '    + split; [reflexivity|]. rewrite app_nil_l. unfold py_truth; cbn [Z.eqb negb]. rewrite Wire_prepare_is_trunc.\n'
                      '      split; [exact Hrst | reflexivity].\n'
                      '    + rewrite eq_one by exact He. destruct He as [_ Hve]. rewrite He1 in Hve. change (2 ^ 1) with 2 in Hve.\n'
                      "      assert (Hc : val e' = 0 \\/ val e' = 1) by lia. unfold py_truth. rewrite Wire_prepare_is_trunc.\n"
                      '      destruct Hc as [-> | ->]; cbn [Z.eqb b2z negb exec fst snd ltarget whole apply_nbas fold_left app].\n'
                      '      * split; [reflexivity|]. split; reflexivity.\n'
                      '      * split; [reflexivity|]. split; [apply Hload; reflexivity | reflexivity].\n'
                      "  - rewrite eq_one by exact Hr. destruct (Z.eqb_spec (val r') 1) as [H1|H1]; cbn [b2z Z.eqb exec fst snd ltarget whole].\n"
                      '    + split; [reflexivity|]. rewrite app_nil_l. unfold py_truth; cbn [Z.eqb negb]. rewrite Wire_prepare_is_trunc.\n'
                      '      split; [exact Hrst | reflexivity].\n'
                      '    + split; [reflexivity|]. rewrite app_nil_l. unfold py_truth; cbn [Z.eqb negb]. rewrite Wire_prepare_is_trunc.\n'
                      '      split; [apply Hload; reflexivity | reflexivity].\n'
                      '  - rewrite eq_one by exact He. destruct He as [_ Hve]. rewrite He1 in Hve. change (2 ^ 1) with 2 in Hve.\n'
                      "    assert (Hc : val e' = 0 \\/ val e' = 1) by lia. unfold py_truth. rewrite Wire_prepare_is_trunc.\n"
                      '    destruct Hc as [-> | ->]; cbn [Z.eqb b2z negb exec fst snd ltarget whole apply_nbas fold_left app].\n'
                      '    * split; [reflexivity|]. split; reflexivity.\n'
                      '    * split; [reflexivity|]. split; [apply Hload; reflexivity | reflexivity].\n'
                      '  - split; [reflexivity|]. rewrite app_nil_l. unfold py_truth; cbn [Z.eqb negb]. rewrite Wire_prepare_is_trunc.\n'
                      '    split; [apply Hload; reflexivity | reflexivity].\n'
                      'Qed.\n'
                      'End Reg.\n'
                      '\n'
                      '(* ---------------- whole histories: a 4-net environment [rq; d; e; r] driven by arbitrary input sequences *)\n'
                      'Definition opt_nid (present : bool) (i : nat) (w : Z) : option nid := if present then Some (i, w) else None.\n'
                      '\n'
                      'Definition vreg_next (w wd wr : Z) (has_e has_r : bool) (rv : Z) (rqv : Z) (inp : Z * Z * Z) : Z :=\n'
                      "  let '(d, e, r) := inp in\n"
                      '  let env := [rqv; d; e; r] in\n'
                      "  let '(env1, q) := exec (body_reg_proc (0%nat, w) (1%nat, wd) (opt_nid has_e 2 1) (opt_nid has_r 3 wr) rv) (env, []) in\n"
                      '  getv (apply_nbas env1 q) 0.\n'
                      '\n'
                      'Fixpoint vreg_traj w wd wr has_e has_r rv (rqv : Z) (ins : list (Z * Z * Z)) : list Z :=\n'
                      '  match ins with [] => [] | i :: t => let n := vreg_next w wd wr has_e has_r rv rqv i in n :: vreg_traj w wd wr has_e has_r rv n t '
                      'end.\n'
                      '\n'
                      'Fixpoint sreg_traj w (has_e has_r : bool) rv (st : Reg_state) (ins : list (Z * Z * Z)) : list Z :=\n'
                      '  match ins with\n'
                      '  | [] => []\n'
                      "  | (d, e, r) :: t => let '(st', q) := Reg_clock w has_e has_r rv st d (if has_e then e else 0) (if has_r then r else 0) in\n"
                      "                      q :: sreg_traj w has_e has_r rv st' t\n"
                      '  end.\n'
                      '\n'
                      'Definition in_ok (wd wr : Z) (i : Z * Z * Z) : Prop :=\n'
                      "  let '(d, e, r) := i in 0 <= d < 2 ^ wd /\\ 0 <= e < 2 /\\ 0 <= r < 2 ^ wr.\n"
                      '\n'
                      'Theorem reg_history w wd wr has_e has_r rv ins st rqv :\n'
                      '  0 < w -> 0 < wd -> 0 < wr -> - 2 ^ 31 < rv < 2 ^ 31 -> Forall (in_ok wd wr) ins ->\n'
                      '  rqv = trunc w (Reg_s_value st) ->\n'
                      '  vreg_traj w wd wr has_e has_r rv rqv ins = sreg_traj w has_e has_r rv st ins.\n'
                      'Proof.\n'
                      '  intros Hw Hwd Hwr Hrv Hins. revert st rqv. induction Hins as [|[[d e] r] ins Hi Hins IH]; intros st rqv Hinv; [reflexivity|].\n'
                      '  cbn [vreg_traj sreg_traj]. destruct Hi as (Hd & He & Hr).\n'
                      '  assert (Hrq : 0 <= rqv < 2 ^ w) by (subst rqv; apply trunc_range; lia).\n'
                      '  pose proof (body_reg_sound [rqv; d; e; r] (0%nat, w) (1%nat, wd) (opt_nid has_e 2 1) (opt_nid has_r 3 wr) rv st) as B.\n'
                      '  cbn [fst snd length] in B.\n'
                      '  assert (Hoe : opt_ok [rqv; d; e; r] (opt_nid has_e 2 1)).\n'
                      '  { destruct has_e; cbn; auto. unfold okn; cbn. change (2 ^ 1) with 2. lia. }\n'
                      '  assert (Hor : opt_ok [rqv; d; e; r] (opt_nid has_r 3 wr)).\n'
                      '  { destruct has_r; cbn; auto. unfold okn; cbn. lia. }\n'
                      '  specialize (B ltac:(lia) ltac:(unfold okn; cbn; lia) ltac:(unfold okn; cbn; lia) Hoe Hor\n'
                      '                ltac:(destruct has_e; cbn; auto) Hrv).\n'
                      '  unfold vreg_next.\n'
                      '  destruct (exec _ _) as [env1 q] eqn:Ex.\n'
                      '  replace (is_some (opt_nid has_e 2 1)) with has_e in B by (destruct has_e; reflexivity).\n'
                      '  replace (is_some (opt_nid has_r 3 wr)) with has_r in B by (destruct has_r; reflexivity).\n'
                      '  replace (opt_val [rqv; d; e; r] (opt_nid has_e 2 1)) with (if has_e then e else 0) in B by (destruct has_e; reflexivity).\n'
                      '  replace (opt_val [rqv; d; e; r] (opt_nid has_r 3 wr)) with (if has_r then r else 0) in B by (destruct has_r; reflexivity).\n'
                      '  change (getv [rqv; d; e; r] 1) with d in B. change (getv [rqv; d; e; r] 0) with rqv in B.\n'
                      "  destruct (Reg_clock w has_e has_r rv st d _ _) as [st' qsim] eqn:Ec.\n"
                      '  destruct B as (_ & Hnew & Hq).\n'
                      '  assert (Hstep : getv (apply_nbas env1 q) 0 = qsim).\n'
                      '  { rewrite Hnew.\n'
                      '    destruct ((b2z ((if has_r then r else 0) =? 1) =? 1) && has_r) eqn:E1; [reflexivity|].\n'
                      '    destruct (negb has_e || negb ((if has_e then e else 0) =? 0)) eqn:E2; [reflexivity|].\n'
                      '    (* hold: the simulator re-prepares the stored value, which is what rq already shows *)\n'
                      '    rewrite Hq, Hinv. f_equal.\n'
                      '    destruct has_e; cbn [negb orb] in E2; [|discriminate].\n'
                      '    assert (He0 : e = 0) by (destruct (Z.eqb_spec e 0); [assumption | discriminate]). subst e.\n'
                      '    unfold Reg_clock in Ec. cbv zeta in Ec. unfold py_truth in Ec. cbn [negb Z.eqb] in Ec.\n'
                      '    destruct has_r; cbn [negb andb] in *.\n'
                      '    - assert (Hr1 : (r =? 1) = false) by (destruct (r =? 1); [discriminate | reflexivity]).\n'
                      '      rewrite Hr1 in Ec. cbn [Z.eqb negb] in Ec. inversion Ec; reflexivity.\n'
                      '    - cbn [Z.eqb negb] in Ec. inversion Ec; reflexivity. }\n'
                      '  rewrite Hstep. f_equal. apply IH. exact Hq.\n'
                      'Qed.\n',
                      '(* comparison of an unsigned net with the literal 0 *)\n'
                      'Lemma ne_zero n : okn env n -> rself env (RBin BNe (rid n) (RNum 0)) = b2z (negb (val n =? 0)).\n'
                      'Proof.\n'
                      '  intros [Hw Hv]. unfold rself. cbn [rsize rsigned arith_op shift_op reval rid andb].\n'
                      '  set (cw := Z.max (snd n) 32). assert (Hc : snd n <= cw /\\ 32 <= cw) by lia.\n'
                      '  cbn [extend].\n'
                      "  assert (Hv' : 0 <= getv env (fst n) < 2 ^ cw) by (eapply small_in_wider; [|exact Hv]; lia).\n"
                      '  assert (H0 : 0 <= 0 < 2 ^ cw) by (split; [lia | apply pow2_pos; lia]).\n'
                      '  rewrite (vtrunc_small cw (getv env (fst n))) by lia.\n'
                      '  rewrite (vtrunc_small 32 0) by lia. rewrite (vtrunc_small cw 0) by lia.\n'
                      '  apply vtrunc_small; [lia|]. destruct (val n =? 0); cbn; lia.\n'
                      'Qed.\n'
                      '\n'
                      'Theorem body_reg_sound rq d e r rv st :\n'
                      '  (fst rq < length env)%nat -> okn env rq -> okn env d -> opt_ok e -> opt_ok r ->\n'
                      '  - 2 ^ 31 < rv < 2 ^ 31 ->\n'
                      "  let '(env1, q) := exec (body_reg_proc rq d e r rv) (env, []) in\n"
                      "  let '(st', qsim) := Reg_clock (snd rq) (is_some e) (is_some r) rv st (val d) (opt_val e) (opt_val r) in\n"
                      '  env1 = env /\\\n'
                      '  getv (apply_nbas env1 q) (fst rq) = (if (b2z (opt_val r =? 1) =? 1) && is_some r then qsim\n'
                      '                                        else if negb (is_some e) || negb (opt_val e =? 0) then qsim\n'
                      '                                        else val rq) /\\\n'
                      "  (* and the simulator's q output in the hold case re-prepares the unchanged stored value *)\n"
                      "  qsim = trunc (snd rq) (Reg_s_value st').\n"
                      'Proof.\n'
                      '  intros Hi Hq Hd He Hr Hrv.\n'
                      '  assert (Hload : forall l, l = whole rq ->\n'
                      '            getv (apply_nbas env [((fst rq, 0, snd rq), assign_value env l (rid d))]) (fst rq) = trunc (snd rq) (val d)).\n'
                      '  { intros l ->. cbn [apply_nbas fold_left fst snd]. destruct Hq as [Hwq Hvq]. rewrite write_whole by auto.\n'
                      '    unfold assign_value. cbn [lwidth whole rid rsize rsigned]. fold (rid d).\n'
                      '    rewrite reval_rid by (auto; lia). rewrite !vtrunc_vtrunc_le by lia. apply vtrunc_trunc; lia. }\n'
                      '  assert (Hrst : getv (apply_nbas env [((fst rq, 0, snd rq), assign_value env (whole rq) (pynum rv))]) (fst rq) = trunc (snd rq) rv).\n'
                      '  { cbn [apply_nbas fold_left fst snd]. destruct Hq as [Hwq Hvq]. rewrite write_whole by auto.\n'
                      '    destruct (inl_constant_sound env (fst rq, snd rq) rv ltac:(cbn; lia) Hrv _ _ eq_refl) as [_ Hc].\n'
                      '    cbn [inl_constant snd fst] in Hc.\n'
                      "    (* the literal's value does not depend on the shape of the l-value, only on its width *)\n"
                      '    unfold assign_value in *. cbn [lwidth whole fst snd] in *.\n'
                      '    destruct (1 <? snd rq) eqn:E; cbn [lwidth whole fst snd] in Hc.\n'
                      '    - replace (snd rq - 1 - 0 + 1) with (snd rq) in Hc by lia. rewrite Hc.\n'
                      '      rewrite vtrunc_small by (try lia; unfold Constant_propagate; rewrite put_trunc; apply trunc_range; lia). reflexivity.\n'
                      '    - rewrite Hc. rewrite vtrunc_small by (try lia; unfold Constant_propagate; rewrite put_trunc; apply trunc_range; lia). reflexivity. '
                      '}\n'
                      '  unfold body_reg_proc, Reg_clock. cbv zeta.\n'
                      "  destruct r as [r'|]; destruct e as [e'|]; cbn [is_some opt_val negb orb andb exec fst snd ltarget whole] in *.\n"
                      "  - rewrite eq_one by exact Hr. destruct (Z.eqb_spec (val r') 1) as [H1|H1]; cbn [b2z Z.eqb exec fst snd ltarget whole].\n"
                      '    + split; [reflexivity|]. rewrite app_nil_l. unfold py_truth; cbn [Z.eqb negb]. rewrite Wire_prepare_is_trunc.\n'
                      '      split; [exact Hrst | reflexivity].\n'
                      '    + rewrite ne_zero by exact He. unfold py_truth. rewrite Wire_prepare_is_trunc.\n'
                      "      destruct (Z.eqb_spec (val e') 0) as [E0|Hne]; cbn [Z.eqb b2z negb exec fst snd ltarget whole apply_nbas fold_left app].\n"
                      '      * split; [reflexivity|]. split; reflexivity.\n'
                      '      * split; [reflexivity|]. split; [apply Hload; reflexivity | reflexivity].\n'
                      "  - rewrite eq_one by exact Hr. destruct (Z.eqb_spec (val r') 1) as [H1|H1]; cbn [b2z Z.eqb exec fst snd ltarget whole].\n"
                      '    + split; [reflexivity|]. rewrite app_nil_l. unfold py_truth; cbn [Z.eqb negb]. rewrite Wire_prepare_is_trunc.\n'
                      '      split; [exact Hrst | reflexivity].\n'
                      '    + split; [reflexivity|]. rewrite app_nil_l. unfold py_truth; cbn [Z.eqb negb]. rewrite Wire_prepare_is_trunc.\n'
                      '      split; [apply Hload; reflexivity | reflexivity].\n'
                      '  - rewrite ne_zero by exact He. unfold py_truth. rewrite Wire_prepare_is_trunc.\n'
                      "    destruct (Z.eqb_spec (val e') 0) as [E0|Hne]; cbn [Z.eqb b2z negb exec fst snd ltarget whole apply_nbas fold_left app].\n"
                      '    * split; [reflexivity|]. split; reflexivity.\n'
                      '    * split; [reflexivity|]. split; [apply Hload; reflexivity | reflexivity].\n'
                      '  - split; [reflexivity|]. rewrite app_nil_l. unfold py_truth; cbn [Z.eqb negb]. rewrite Wire_prepare_is_trunc.\n'
                      '    split; [apply Hload; reflexivity | reflexivity].\n'
                      'Qed.\n'
                      'End Reg.\n'
                      '\n'
                      '(* ---------------- whole histories: a 4-net environment [rq; d; e; r] driven by arbitrary input sequences *)\n'
                      'Definition opt_nid (present : bool) (i : nat) (w : Z) : option nid := if present then Some (i, w) else None.\n'
                      '\n'
                      'Definition vreg_next (w wd we wr : Z) (has_e has_r : bool) (rv : Z) (rqv : Z) (inp : Z * Z * Z) : Z :=\n'
                      "  let '(d, e, r) := inp in\n"
                      '  let env := [rqv; d; e; r] in\n'
                      "  let '(env1, q) := exec (body_reg_proc (0%nat, w) (1%nat, wd) (opt_nid has_e 2 we) (opt_nid has_r 3 wr) rv) (env, []) in\n"
                      '  getv (apply_nbas env1 q) 0.\n'
                      '\n'
                      'Fixpoint vreg_traj w wd we wr has_e has_r rv (rqv : Z) (ins : list (Z * Z * Z)) : list Z :=\n'
                      '  match ins with [] => [] | i :: t => let n := vreg_next w wd we wr has_e has_r rv rqv i in n :: vreg_traj w wd we wr has_e has_r rv n '
                      't end.\n'
                      '\n'
                      'Fixpoint sreg_traj w (has_e has_r : bool) rv (st : Reg_state) (ins : list (Z * Z * Z)) : list Z :=\n'
                      '  match ins with\n'
                      '  | [] => []\n'
                      "  | (d, e, r) :: t => let '(st', q) := Reg_clock w has_e has_r rv st d (if has_e then e else 0) (if has_r then r else 0) in\n"
                      "                      q :: sreg_traj w has_e has_r rv st' t\n"
                      '  end.\n'
                      '\n'
                      'Definition in_ok (wd we wr : Z) (i : Z * Z * Z) : Prop :=\n'
                      "  let '(d, e, r) := i in 0 <= d < 2 ^ wd /\\ 0 <= e < 2 ^ we /\\ 0 <= r < 2 ^ wr.\n"
                      '\n'
                      'Theorem reg_history w wd we wr has_e has_r rv ins st rqv :\n'
                      '  0 < w -> 0 < wd -> 0 < we -> 0 < wr -> - 2 ^ 31 < rv < 2 ^ 31 -> Forall (in_ok wd we wr) ins ->\n'
                      '  rqv = trunc w (Reg_s_value st) ->\n'
                      '  vreg_traj w wd we wr has_e has_r rv rqv ins = sreg_traj w has_e has_r rv st ins.\n'
                      'Proof.\n'
                      '  intros Hw Hwd Hwe Hwr Hrv Hins. revert st rqv. induction Hins as [|[[d e] r] ins Hi Hins IH]; intros st rqv Hinv; [reflexivity|].\n'
                      '  cbn [vreg_traj sreg_traj]. destruct Hi as (Hd & He & Hr).\n'
                      '  assert (Hrq : 0 <= rqv < 2 ^ w) by (subst rqv; apply trunc_range; lia).\n'
                      '  pose proof (body_reg_sound [rqv; d; e; r] (0%nat, w) (1%nat, wd) (opt_nid has_e 2 we) (opt_nid has_r 3 wr) rv st) as B.\n'
                      '  cbn [fst snd length] in B.\n'
                      '  assert (Hoe : opt_ok [rqv; d; e; r] (opt_nid has_e 2 we)).\n'
                      '  { destruct has_e; cbn; auto. unfold okn; cbn. lia. }\n'
                      '  assert (Hor : opt_ok [rqv; d; e; r] (opt_nid has_r 3 wr)).\n'
                      '  { destruct has_r; cbn; auto. unfold okn; cbn. lia. }\n'
                      '  specialize (B ltac:(lia) ltac:(unfold okn; cbn; lia) ltac:(unfold okn; cbn; lia) Hoe Hor Hrv).\n'
                      '  unfold vreg_next.\n'
                      '  destruct (exec _ _) as [env1 q] eqn:Ex.\n'
                      '  replace (is_some (opt_nid has_e 2 we)) with has_e in B by (destruct has_e; reflexivity).\n'
                      '  replace (is_some (opt_nid has_r 3 wr)) with has_r in B by (destruct has_r; reflexivity).\n'
                      '  replace (opt_val [rqv; d; e; r] (opt_nid has_e 2 we)) with (if has_e then e else 0) in B by (destruct has_e; reflexivity).\n'
                      '  replace (opt_val [rqv; d; e; r] (opt_nid has_r 3 wr)) with (if has_r then r else 0) in B by (destruct has_r; reflexivity).\n'
                      '  change (getv [rqv; d; e; r] 1) with d in B. change (getv [rqv; d; e; r] 0) with rqv in B.\n'
                      "  destruct (Reg_clock w has_e has_r rv st d _ _) as [st' qsim] eqn:Ec.\n"
                      '  destruct B as (_ & Hnew & Hq).\n'
                      '  assert (Hstep : getv (apply_nbas env1 q) 0 = qsim).\n'
                      '  { rewrite Hnew.\n'
                      '    destruct ((b2z ((if has_r then r else 0) =? 1) =? 1) && has_r) eqn:E1; [reflexivity|].\n'
                      '    destruct (negb has_e || negb ((if has_e then e else 0) =? 0)) eqn:E2; [reflexivity|].\n'
                      '    (* hold: the simulator re-prepares the stored value, which is what rq already shows *)\n'
                      '    rewrite Hq, Hinv. f_equal.\n'
                      '    destruct has_e; cbn [negb orb] in E2; [|discriminate].\n'
                      '    assert (He0 : e = 0) by (destruct (Z.eqb_spec e 0); [assumption | discriminate]). subst e.\n'
                      '    unfold Reg_clock in Ec. cbv zeta in Ec. unfold py_truth in Ec. cbn [negb Z.eqb] in Ec.\n'
                      '    destruct has_r; cbn [negb andb] in *.\n'
                      '    - assert (Hr1 : (r =? 1) = false) by (destruct (r =? 1); [discriminate | reflexivity]).\n'
                      '      rewrite Hr1 in Ec. cbn [Z.eqb negb] in Ec. inversion Ec; reflexivity.\n'
                      '    - cbn [Z.eqb negb] in Ec. inversion Ec; reflexivity. }\n'
                      '  rewrite Hstep. f_equal. apply IH. exact Hq.\n'
                      'Qed.\n'),
                     ('coq/Properties/C01.v',
                      '(* BodyReg vs Reg.clock over EVERY input history (d any width, 1-bit enable, any-width reset, |reset_value| < 2^31):\n'
                      '   the value of rq after each edge equals the value Reg.clock prepares for q, provided rq starts equal to the stored\n'
                      '   value truncated (which `reg rq = reset_value` establishes in Verilog; see C01_reg_powerup_refuted for the simulator side) *)\n'
                      'Theorem C01_reg_sound_partial : forall w wd wr has_e has_r rv ins st rqv,\n'
                      '  0 < w -> 0 < wd -> 0 < wr -> - 2 ^ 31 < rv < 2 ^ 31 -> Forall (in_ok wd wr) ins ->\n'
                      '  rqv = trunc w (Reg_s_value st) ->\n'
                      '  vreg_traj w wd wr has_e has_r rv rqv ins = sreg_traj w has_e has_r rv st ins.\n'
                      'Proof. exact reg_history. Qed.\n'
                      '\n',
                      '(* BodyReg vs Reg.clock over EVERY input history (data, enable and reset of ANY width, |reset_value| < 2^31; the repaired BodyReg\n'
                      '   loads when e != 0, as Reg.clock does): the value of rq after each edge equals the value Reg.clock prepares for q, provided rq\n'
                      '   starts equal to the stored value truncated (which `reg rq = reset_value` establishes in Verilog) *)\n'
                      'Theorem C01_reg_sound : forall w wd we wr has_e has_r rv ins st rqv,\n'
                      '  0 < w -> 0 < wd -> 0 < we -> 0 < wr -> - 2 ^ 31 < rv < 2 ^ 31 -> Forall (in_ok wd we wr) ins ->\n'
                      '  rqv = trunc w (Reg_s_value st) ->\n'
                      '  vreg_traj w wd we wr has_e has_r rv rqv ins = sreg_traj w has_e has_r rv st ins.\n'
                      'Proof. exact reg_history. Qed.\n'
                      '\n'),
                     ('coq/Properties/C01.v',
                      '(* enable = 2 on a 2-bit enable: BodyReg holds (e == 1 is false), Reg.clock loads (e != 0) *)\n'
                      'Theorem C01_reg_wide_enable_refuted : exists st,\n'
                      '  let env := [trunc 4 (Reg_s_value st); 9; 2; 0] in\n'
                      "  let '(env1, q) := exec (body_reg_proc (0%nat, 4) (1%nat, 4) (Some (2%nat, 2)) None 0) (env, []) in\n"
                      '  getv (apply_nbas env1 q) 0 <> snd (Reg_clock 4 true false 0 st 9 2 0).\n'
                      'Proof. exists {| Reg_s_value := 0 |}. vm_compute. discriminate. Qed.\n',
                      ''),
                     ('coq/Properties/C01.v', 'Print Assumptions C01_reg_sound_partial.\n', 'Print Assumptions C01_reg_sound.\n'),
                     ('coq/Properties/C01.v', 'Print Assumptions C01_reg_wide_enable_refuted.\n', ''),
                     ('coq/Model/C01Prim.v',
                      '(* BodyReg tests `e == 1`, Reg.clock loads when e != 0: equal for a 1-bit enable only (finding reg-wide-enable) *)\n'
                      'Definition enable_ok (g : reginst) : bool := match rg_e g with Some e => snd e =? 1 | None => true end.\n',
                      '(* BodyReg loads when e != 0, as Reg.clock does (finding reg-wide-enable repaired): enables of any width *)\n'
                      'Definition enable_ok (g : reginst) : bool := true.\n'),
                     ('docs/C01.md',
                      "`C01_reg_sound_partial` — over EVERY input history `BodyReg`'s process (1-bit enable, any-width reset and data)",
                      "`C01_reg_sound` — over EVERY input history `BodyReg`'s process (enable, reset and data of ANY width; the repaired body loads when `e != "
                      '0`)'),
                     ('docs/C01.md', '`C01_reg_wide_enable_refuted`, ', '')]}
DOC = {'equalconstant-oversized': '`equalconstant-oversized`: repaired in /repo ({commit}): InlineEqualConstant prints `v & (2^w - 1)`; '
                            '`C01_inline_equalconst_masked_sound` (every integer K, operands up to 31 bits).',
 'mux2-wide-select': '`mux2-wide-select`: repaired in /repo ({commit}): InlineMux2 emits `(sel & 1)? sel1 : sel0`; `C01_inline_mux2_sound` holds for every '
                     'select width.',
 'reg-wide-enable': '`reg-wide-enable`: repaired in /repo ({commit}): BodyReg emits `if (e != 0)`; `C01_reg_sound` holds for enables of every width.'}
assert fid in DATA, fid
todo = []
for rel, old, new in DATA[fid]:
    s = open(os.path.join(verif, rel)).read()
    if s.count(old) != 1:
        sys.exit('%s: block not found exactly once in %s (already switched, or the file was edited): %r' % (fid, rel, old[:80]))
    todo.append((rel, old, new))
for rel, old, new in todo:                      # all blocks were found: now write
    p = os.path.join(verif, rel); s = open(p).read(); open(p, 'w').write(s.replace(old, new))
p = os.path.join(verif, 'known_findings/C01.json'); kf = json.load(open(p))
for e in kf['findings']:
    if e['id'] == fid:
        e['status'] = 'fixed'
        if commit: e['commit'] = commit
json.dump(kf, open(p, 'w'), indent=1); open(p, 'a').write('\n')
p = os.path.join(verif, 'docs/C01.md'); s = open(p).read()
open(p, 'w').write(s.rstrip('\n') + '\n' + DOC[fid].format(commit=commit or 'commit pending') + '\n')
print('C01 switched to the repaired behaviour of %s (%d blocks in %d files)' % (fid, len(todo), len({t[0] for t in todo})))
