#!/usr/bin/env python3
"""C04_switch.py passlimit [<commit>] [--verif DIR]

Run ONCE, right after fixes/C04-passlimit.diff has been committed in /repo.  The C04 check itself needs no switch (it
reads the pass-limit expression from /repo's simulation.py on every run and the model takes the limit as a parameter;
it is correct before and after the commit).  This script only retires what described the old constant:
  * Properties/C04.v         the regions (* <C04-passlimit> *) (C04_limit_refuted, C04_limit_1000_refuted) and their
                             Print Assumptions are removed; the positive statements C04_pass_count_chain,
                             C04_more_passes_never_hurt, C04_scaled_limit_no_worse, C04_scaled_limit_accepts_chain stay
  * known_findings/C04.json  C04-passlimit: status "known" -> "fixed" (+ commit); a fixed entry suppresses nothing: an
                             acyclic netlist refused by the limit is then a VIOLATION
  * docs/C04.md              one line under Findings
The script refuses to run twice."""
import sys, os, re, json

args = list(sys.argv[1:]); verif = '/verif'
if '--verif' in args:
    i = args.index('--verif'); verif = args[i + 1]; del args[i:i + 2]
assert args and args[0] == 'passlimit', __doc__
commit = args[1] if len(args) > 1 else None

p = os.path.join(verif, 'coq/Properties/C04.v'); s = open(p).read()
if '(* <C04-passlimit> *)' not in s: sys.exit('Properties/C04.v: region C04-passlimit not found (already switched?)')
s = re.sub(r'\(\* <C04-passlimit> \*\)\n.*?\(\* </C04-passlimit> \*\)\n',
           '(* C04-passlimit: repaired in /repo%s (the limit scales with the number of leaves); the refutation of every CONSTANT limit\n'
           '   (limit_refuted_thm in Proofs/C04/Main.v) no longer describes the code and is not a property theorem any more *)\n' % (' ' + commit if commit else ''),
           s, flags=re.S)
s = re.sub(r'\(\* <C04-passlimit-pa> \*\)\n.*?\(\* </C04-passlimit-pa> \*\)\n', '', s, flags=re.S)
open(p, 'w').write(s)

p = os.path.join(verif, 'known_findings/C04.json'); d = json.load(open(p))
for f in d['findings']:
    if f['id'] == 'C04-passlimit':
        f['status'] = 'fixed'
        if commit: f['commit'] = commit
        f['text'] = ('FIXED in /repo%s: the pass limit is max(1000, len(propagatables) + 1). Before: ' % (' ' + commit if commit else '')) + f['text'] + \
                    ' After the fix: everything accepted before is accepted with the same order (C04_scaled_limit_no_worse), the sink-first chain of every ' \
                    'length is accepted (C04_scaled_limit_accepts_chain), every cyclic netlist is still refused (C04_cyclic_rejected, any limit). NOT proved: ' \
                    'that n+1 passes suffice on EVERY acyclic netlist (no counterexample among all DAGs <= 5 leaves x all orders and the random sweeps; an ' \
                    'acyclic netlist refused by the limit is reported as a VIOLATION).'
json.dump(d, open(p, 'w'), indent=1)

p = os.path.join(verif, 'docs/C04.md'); s = open(p).read()
s = s.replace('2. **C04-passlimit**', '2. **C04-passlimit** — **FIXED in /repo%s** (limit = max(1000, n+1); `status: fixed`, suppresses nothing; switched by fixes/C04_switch.py).  Before the fix:' % (' ' + commit if commit else ''), 1)
open(p, 'w').write(s)
print('C04 switched: passlimit', commit or '')
