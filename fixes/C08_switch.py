#!/usr/bin/env python3
"""C08_switch.py <xor2-wide-result|equal-wider-b|priority-encoder-docstring|nor-mid-width> <commit> [--verif DIR]
(nor-mid-width: the models take the REAL width of Nor / Nor2's Mid wire, read per configuration; C08_nor_any_mid / C08_nor2_any_mid cover the repaired width;
 once the entry is "fixed" the catalogue sweeps every mix of widths.)

Run once per finding, right after fixes/C08-<id>.diff has been committed in /repo (commit order: xor2-wide-result BEFORE
equal-wider-b).  NOTHING in the Coq development has to change: Model/StructLogic.v is parametric in the two width formulas
(mid_a | mid_max for Xor2's internal wires, eqw_a | eqw_max for Equal's xor wire), py/props/c08.py PROBES the real blocks on every
run and instantiates the models accordingly, and Properties/C08.v proves the general theorems for any formula plus both
instantiations (C08_xor2_mid_a with its guard and C08_xor2_wide_refuted for the old formula, C08_xor2_mid_max / C08_xor_mid_max /
C08_equal_eqw_max unguarded for the repaired one).  After the commit the probe selects the repaired formulas, the catalogue adds
the formerly excluded configurations (result wider than a, b wider than a) to the sweep, and the witness of the finding no longer
reproduces, so its KNOWN-FINDING line disappears by itself.
This script only does the bookkeeping: known_findings/C08.json status "known" -> "fixed" (+ commit) and one line in docs/C08.md."""
import sys, os, json
args = sys.argv[1:]
verif = '/verif'
if '--verif' in args:
    i = args.index('--verif'); verif = args[i + 1]; del args[i:i + 2]
fid, commit = args[0], (args[1] if len(args) > 1 else None)
ID = {'nor-mid-width': 'C08-nor-mid-width', 'xor2-wide-result': 'C08-xor2-wide-result', 'equal-wider-b': 'C08-equal-wider-b', 'priority-encoder-docstring': 'C08-priority-encoder-docstring'}[fid]
p = os.path.join(verif, 'known_findings', 'C08.json')
d = json.load(open(p))
hit = [f for f in d['findings'] if f['id'] == ID]
if not hit: sys.exit('no finding %s' % ID)
if hit[0]['status'] == 'fixed': sys.exit('%s is already marked fixed' % ID)
hit[0]['status'] = 'fixed'
if commit: hit[0]['commit'] = commit
json.dump(d, open(p, 'w'), indent=1)
doc = os.path.join(verif, 'docs', 'C08.md')
s = open(doc).read()
s += '\n* %s: repaired in /repo (%s); the probe now selects the repaired formula, the formerly excluded configurations are swept, the `_mid_a` / `_eqw_a` theorems and `_refuted` witnesses remain as statements about the OLD formula only.\n' % (ID, commit or 'commit not given')
open(doc, 'w').write(s)
print('%s marked fixed' % ID)
