#!/bin/bash
# fixes/C01_postcheck.sh <ID> [<ID> ...]   (IDs: mux2-wide-select reg-wide-enable equalconstant-oversized)
# Dry run of "commit the repair(s) in /repo + run fixes/C01_switch.py": private copies of /verif and /repo under /tmp, the given
# fixes/C01-<ID>.diff applied to the repo copy, the switch applied to the verif copy, then the quick check.  Expected: exit=0, no
# KNOWN-FINDING line for the given IDs, obligations all discharged.  Nothing in /verif or /repo is touched.
D=$(mktemp -d /tmp/c01post_XXXXXX); trap 'rm -rf "$D"' EXIT
V=$D/verif; R=$D/repo; mkdir -p $V $R
rsync -a --exclude .git --exclude replays --exclude 'coq/Cases/*' /verif/ $V/
rsync -a --exclude .git /repo/ $R/
for id in "$@"; do (cd $R && patch -s -p1 < /verif/fixes/C01-$id.diff) || { echo "patch C01-$id does not apply"; exit 2; }
  python3 /verif/fixes/C01_switch.py $id dryrun --verif $V | tail -1 || exit 2; done
cd $V && VERIF_REPO=$R VERIF_COQ=$V/coq VERIF_OUT=$V ./check C01 quick > $D/run.log 2>&1; rc=$?
echo "== C01 with repairs [$*] exit=$rc"; grep -E "KNOWN-FINDING|VIOLATION|done:|proof obligations broken|composition" $D/run.log | cut -c1-220
python3 - $V <<'PY'
import json,sys
e=json.load(open(sys.argv[1]+'/evidence/C01.json'))
def find(o,k):
    if isinstance(o,dict):
        if k in o: return o[k]
        for v in o.values():
            r=find(v,k)
            if r is not None: return r
    if isinstance(o,list):
        for v in o:
            r=find(v,k)
            if r is not None: return r
print('composition verdicts:', find(e,'composition_theorem_verdicts'))
PY
exit $rc
