#!/usr/bin/env python3
"""C19_switch.py F3 [<commit>] [--verif DIR]

Run once, right after fixes/C19-F3.diff has been committed in /repo.
The C19 check follows the implementation by a probe (py/props/c19.py: platform_builds() builds a tiny design twice with
C10LP and DE0 and compares the two <top>.v files), so nothing has to change for the check to be correct after the commit:
the KNOWN-FINDING line of C19-F3 simply no longer appears.  No Coq file mentions the platform classes (the model's
C19_shared_list_refuted is about the generator API, finding C19-F1, which is NOT repaired).  This script only does the
bookkeeping: known_findings/C19.json status "known" -> "fixed" (+ commit) — a fixed entry suppresses nothing, so the
defect coming back is a VIOLATION — and one line in docs/C19.md.  Refuses to run twice."""
import sys, os, json
args = sys.argv[1:]
verif = '/verif'
if '--verif' in args:
    i = args.index('--verif'); verif = args[i + 1]; del args[i:i + 2]
assert args and args[0] in ('F3', 'C19-F3'), 'usage: C19_switch.py F3 [<commit>]'
commit = args[1] if len(args) > 1 else None
p = os.path.join(verif, 'known_findings', 'C19.json')
k = json.load(open(p))
e = [f for f in k['findings'] if f['id'] == 'C19-F3'][0]
if e['status'] != 'known':
    sys.exit('C19-F3 is already "%s"' % e['status'])
e['status'] = 'fixed'
if commit: e['commit'] = commit
json.dump(k, open(p, 'w'), indent=1)
d = os.path.join(verif, 'docs', 'C19.md')
s = open(d).read()
s = s.replace('* **C19-F3 ', '* **C19-F3 (REPAIRED in /repo%s; the probe stays in the check) ' % (', commit ' + commit if commit else ''), 1)
open(d, 'w').write(s)
print('C19-F3 -> fixed')
