#!/bin/bash
# fixes/C14_postcheck.sh   Dry run of "commit fixes/C14-F1.diff in /repo + run fixes/C14_switch.py F1": private copies of /verif and /repo
# under /tmp, the patch applied to the repo copy, the switch applied to the verif copy, then the quick check.  Expected: exit=0, no
# KNOWN-FINDING line, all obligations discharged.  Nothing in /verif or /repo is touched.
D=$(mktemp -d /tmp/c14post_XXXXXX); trap 'rm -rf "$D"' EXIT
V=$D/verif; R=$D/repo; mkdir -p $V $R
rsync -a --exclude .git --exclude replays --exclude 'coq/Cases/*' /verif/ $V/
rsync -a --exclude .git /repo/ $R/
(cd $R && patch -s -p1 < /verif/fixes/C14-F1.diff) || { echo "patch C14-F1 does not apply"; exit 2; }
if [ "$1" != "noswitch" ]; then python3 /verif/fixes/C14_switch.py F1 dryrun --verif $V | tail -1; fi
cd $V && VERIF_REPO=$R VERIF_COQ=$V/coq VERIF_OUT=$V ./check C14 quick > $D/run.log 2>&1; rc=$?
echo "== C14 with repair C14-F1 ($1) exit=$rc"; grep -E "KNOWN-FINDING|VIOLATION|done:|harness exception" $D/run.log | cut -c1-220
python3 -c "import json; e=json.load(open('$V/evidence/C14.json')); print(e['notes'].get('mult_wiring',{}).get('wiring'), e['notes'].get('theorems'))"
exit $rc
