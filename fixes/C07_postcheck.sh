#!/bin/bash
# fixes/C07_postcheck.sh <ID> [<ID> ...]   (IDs: SAR-WIDE ROT-NARROW ROTC-WIDE)
# Dry run of "commit the repair(s) in /repo + run fixes/C07_switch.py": private copies of /verif and /repo under /tmp, the given
# fixes/C07-<ID>.diff applied to the repo copy, the switch applied to the verif copy, then the quick check.  Expected: exit=0, no
# KNOWN-FINDING line for the given IDs, obligations all discharged.  Nothing in /verif or /repo is touched.
D=$(mktemp -d /tmp/c07post_XXXXXX); trap 'rm -rf "$D"' EXIT
V=$D/verif; R=$D/repo; mkdir -p $V $R
rsync -a --exclude .git --exclude replays --exclude 'coq/Cases/*' /verif/ $V/
rsync -a --exclude .git /repo/ $R/
for id in "$@"; do (cd $R && patch -s -p1 < /verif/fixes/C07-$id.diff) || { echo "patch C07-$id does not apply"; exit 2; }
  python3 /verif/fixes/C07_switch.py $id dryrun --verif $V | tail -1; done
cd $V && VERIF_REPO=$R ./check C07 quick > $D/run.log 2>&1; rc=$?
echo "== C07 with repairs [$*] exit=$rc"; grep -E "KNOWN-FINDING|VIOLATION|done:|proof obligations broken" $D/run.log | cut -c1-220
exit $rc
