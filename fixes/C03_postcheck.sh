#!/bin/bash
# fixes/C03_postcheck.sh <id> [<id> ...]   ids: scalar-bit-select signextend-replication-count shared-module-clock-port msgsequencer-count-width empty-concatenation
# Dry run of "commit the repair(s) in /repo + run fixes/C03_switch.py": private copies of /verif and /repo under /tmp, the repairs applied
# to the repo copy (fixes/C03_apply.py), the switch applied to the verif copy, then the quick check.  Expected: exit=0, no KNOWN-FINDING
# line for the given ids, obligations all discharged.  Nothing in /verif or /repo is touched.
D=$(mktemp -d /tmp/c03post_XXXXXX); trap 'rm -rf "$D"' EXIT
V=$D/verif; R=$D/repo; mkdir -p $V $R
rsync -a --exclude .git --exclude replays --exclude 'coq/Cases/*' /verif/ $V/
rsync -a --exclude .git /repo/ $R/
for id in "$@"; do python3 /verif/fixes/C03_apply.py $R $id || exit 2; python3 /verif/fixes/C03_switch.py $id dryrun --verif $V | tail -1; done
cd $V && VERIF_REPO=$R VERIF_COQ=$V/coq VERIF_OUT=$V ./check C03 quick > $D/run.log 2>&1; rc=$?
echo "== C03 with repairs [$*] exit=$rc"; grep -E "KNOWN-FINDING|VIOLATION|done:" $D/run.log | cut -c1-160
exit $rc
