#!/usr/bin/env python3
"""C14_switch.py F1 [<commit>] [--verif DIR]

Run ONCE, right after fixes/C14-F1.diff has been committed in /repo (FixedPointMult computes the product on
max(wa+wb, low+wr) bits).  The C14 check itself needs no switch: it reads the product width off the real block and uses
the matching instance of the model (Model/Fxp.v: fxmul_w), and both wirings are proved.  This script only retires what
describes the pre-repair code:
  * Properties/C14.v       the regions (* <C14-F1> *) ... (* </C14-F1> *) (guarded C14_mul, C14_mul_low_negative,
                           C14_mul_wide_window_refuted, C14_mul_nonneg_any_window, C14_mul_wide_window_negative_wrong,
                           C14_helper_mult_prerepair) are removed; C14_mul_fixed / C14_mul_fixed_low_negative become
                           C14_mul / C14_mul_low_negative (no guard on the top of the window)
  * known_findings/C14.json  status "known" -> "fixed" (+ commit); a fixed entry suppresses nothing
  * docs/C14.md            one line under the finding
The script refuses to run twice."""
import sys, os, re, json

args = list(sys.argv[1:])
verif = '/verif'
if '--verif' in args:
    i = args.index('--verif'); verif = args[i + 1]; del args[i:i + 2]
fid = args[0]; commit = args[1] if len(args) > 1 else None
assert fid in ('F1', 'C14-F1'), fid
TAG = 'C14-F1'

p = os.path.join(verif, 'coq/Properties/C14.v')
s = open(p).read()
pat = re.compile(r'\(\* <%s> \*\)\n.*?\(\* </%s> \*\)\n' % (TAG, TAG), re.S)
if not pat.search(s):
    sys.exit('Properties/C14.v: no %s region (already switched?)' % TAG)
s = pat.sub('(* %s: repaired in /repo%s; the pre-repair theorems were retired by fixes/C14_switch.py *)\n' % (TAG, ' (%s)' % commit if commit else ''), s)
s = re.sub(r'\bC14_mul_fixed_low_negative\b', 'C14_mul_low_negative', s)
s = re.sub(r'\bC14_mul_fixed\b', 'C14_mul', s)
s = s.replace('(* wiring with pw = max(wa+wb, low+wr)  (fixes/C14-F1.diff):', '(* FixedPointMult as wired in /repo, pw = max(wa+wb, low+wr):')
open(p, 'w').write(s)

p = os.path.join(verif, 'known_findings/C14.json')
k = json.load(open(p))
for f in k['findings']:
    if f['id'] == TAG:
        f['status'] = 'fixed'
        if commit: f['commit'] = commit
json.dump(k, open(p, 'w'), indent=1)

p = os.path.join(verif, 'docs/C14.md')
s = open(p).read()
s = s.replace('## Finding C14-F1 (known_findings/C14.json, status known)',
              '## Finding C14-F1 (known_findings/C14.json, status FIXED%s)\n\nRepaired in /repo by fixes/C14-F1.diff: the operands and the product are `max(wa+wb, low+wr)` bits wide.  `C14_mul` now holds for every format '
              'triple with `0 <= low` (no guard on the top of the window); the pre-repair theorems (`C14_mul_wide_window_refuted`, `..._negative_wrong`, '
              '`..._nonneg_any_window`) were retired.  What follows describes the defect as it was.' % (' in ' + commit if commit else ''))
open(p, 'w').write(s)
print('C14-F1 switched to the repaired code in', verif)
