#!/bin/bash
# fixes/C08_postcheck.sh <id> [<id> ...]   (ids: xor2-wide-result equal-wider-b priority-encoder-docstring)
# Dry run of "commit the repair(s) in /repo + run fixes/C08_switch.py": private copies of /verif and /repo, the diffs applied to the repo copy,
# the switch applied to the verif copy, then the quick check.  Expected: exit=0, no KNOWN-FINDING line for the given ids, 61/61 obligations.
D=$(mktemp -d /tmp/c08post_XXXXXX); trap 'rm -rf "$D"' EXIT
V=$D/verif; R=$D/repo; mkdir -p $V $R
rsync -a --exclude .git --exclude replays --exclude 'coq/Cases/*' /verif/ $V/
rsync -a --exclude .git /repo/ $R/
for id in "$@"; do (cd $R && patch -s -p1 < /verif/fixes/C08-$id.diff) || { echo "patch C08-$id does not apply"; exit 2; }
  python3 /verif/fixes/C08_switch.py $id dryrun --verif $V | tail -1; done
[ -n "$SEED" ] && { (cd $R && patch -s -p1 < /verif/seeded/$SEED/patch.diff) || { echo "seed does not apply"; exit 2; }; }
cd $V && VERIF_REPO=$R VERIF_COQ=$V/coq VERIF_OUT=$D/out ./check C08 quick > $D/run.log 2>&1; rc=$?
echo "== C08 with repairs [$*] ${SEED:+seed $SEED }exit=$rc"; grep -E "KNOWN-FINDING|VIOLATION|done:" $D/run.log | cut -c1-160
python3 -c "import json; print(json.load(open('$D/out/evidence/C08.json'))['notes'].get('probed_width_formulas'))"
[ -n "$SEED" ] && for f in $D/out/replays/*.json; do [ -f "$f" ] && head -c 600 "$f"; done
exit $rc
