#!/usr/bin/env python3
"""apply_fix.py <repo> <fix-id>: textual, CRLF-preserving application of one prepared fix (each becomes one `fix:` commit in /repo)."""
import sys
repo, fid = sys.argv[1], sys.argv[2]
FIX = {
 'fpadd-ediff': ('py4hw/logic/arithmetic_fp.py', [("ediff = self.wire('ediff', 5)", "ediff = self.wire('ediff', 8)")]),
 'fp2int-plost': ('py4hw/logic/arithmetic_fp.py', [("pos_ext_p_lost = g.hw_not_equal_constant(g.hw_range(shifted, 32, 0), 0)", "pos_ext_p_lost = g.hw_not_equal_constant(g.hw_range(shifted, 31, 0), 0)")]),
 'sorter-selfloop': ('py4hw/simulation.py', [("                pos = self.findFirstDependentPosition(leaf)\r\n                \r\n                if (pos >= 0 and pos < i):",
                                              "                pos = self.findFirstDependentPosition(leaf)\r\n                \r\n                if (pos == i):\r\n                    raise Exception('Combinational loop: {} drives one of its own inputs'.format(leaf.getFullPath()))\r\n                \r\n                if (pos >= 0 and pos < i):")]),
 'subborrowin-attr': ('py4hw/logic/arithmetic.py', [("self.r.put(self.a.get() - self.b.get() - self.ci.get())", "self.r.put(self.a.get() - self.b.get() - self.bi.get())")]),
 'reserved-keywords': ('py4hw/rtl_generation.py', [("                    'cell','config',\r\n", "                    'cell','config',\r\n                    'design',\r\n"), ("                    'unsigned','use' ]", "                    'unsigned','use','uwire' ]")]),
 'reg-powerup': ('py4hw/logic/storage.py', [("        self.value = self.reset_value\r\n        \r\n    def clock(self):", "        self.value = self.reset_value\r\n        self.q.put(self.value)  # power-up: q shows the initial value, as the generated `reg rq = reset_value` does\r\n        \r\n    def clock(self):")]),
 'dualport-names': ('py4hw/logic/storage.py', [("        if (self.writea.get()):\r\n            self.data[wadd] = self.writedataa.get()", "        if (self.write_a.get()):\r\n            self.data[wadda] = self.writedata_a.get()"),
                                              ("        if (self.writeb.get()):\r\n            self.data[wadd] = self.writedatab.get()", "        if (self.write_b.get()):\r\n            self.data[waddb] = self.writedata_b.get()")]),
 'sp-negative-zero': ('py4hw/helper.py', [("        s,e,m = FloatingPointHelper.fp_to_parts(v)\n\n        if (m == 0):\n            return 0,0,0\n        else:\n            if (e >= 128):", "        s,e,m = FloatingPointHelper.fp_to_parts(v)\n\n        if (m == 0):\n            v = math.copysign(1, v)\n            s = 0 if v > 0 else 1\n            return s,0,0\n        else:\n            if (e >= 128):")]),
 'dualport-read-before-write': ('py4hw/logic/storage.py', [("        self.readdata_a.prepare(self.data[radda])\r\n        \r\n        if (self.write_a.get()):", "        self.readdata_a.prepare(self.data[radda])\r\n        self.readdata_b.prepare(self.data[raddb])\r\n        \r\n        if (self.write_a.get()):"), ("            self.data[wadda] = self.writedata_a.get()\r\n            \r\n        self.readdata_b.prepare(self.data[raddb])\r\n        \r\n", "            self.data[wadda] = self.writedata_a.get()\r\n            \r\n")]),
 'wire-move-checks-first': ('py4hw/base.py', [
    ("    def rename(self, newname):\r\n        del self.parent._wires[self.name]\r\n", "    def rename(self, newname):\r\n        if (newname in self.parent._wires.keys()):\r\n            raise Exception('a wire named {} already exist'.format(newname))\r\n        del self.parent._wires[self.name]\r\n"),
    ("    def reparent(self, newparent):\r\n        del self.parent._wires[self.name]\r\n", "    def reparent(self, newparent):\r\n        if (self.name in newparent._wires.keys()):\r\n            raise Exception('a wire named {} already exist'.format(self.name))\r\n        del self.parent._wires[self.name]\r\n"),
    ("    def reparentAndRename(self, newparent, newname):\r\n        del self.parent._wires[self.name]\r\n", "    def reparentAndRename(self, newparent, newname):\r\n        if (newname in newparent._wires.keys()):\r\n            raise Exception('a wire named {} already exist'.format(newname))\r\n        del self.parent._wires[self.name]\r\n")]),
 'checkport-inout': ('py4hw/debug.py', [("    if (not(port in parent.inPorts or port in parent.outPorts)):", "    if (not(port in parent.inPorts or port in parent.outPorts or port in parent.inOutPorts)):")]),
 'abs-structure-name': ('py4hw/logic/arithmetic.py', [
    ("        if (self.a.getWidth() == self.r.getWidth()):\n            return f'Abs{self.a.getWidth()}'\n        else:\n            return f'Abs{self.a.getWidth()}_{self.r.getWidth()}'\n",
     "        if (self.a.getWidth() == self.r.getWidth()):\n            s = f'Abs{self.a.getWidth()}'\n        else:\n            s = f'Abs{self.a.getWidth()}_{self.r.getWidth()}'\n        if (len(self.outPorts) > 1):\n            s += '_inv'  # the optional `inverted` output changes the interface\n        return s\n")]),
 'reg-negative-reset-name': ('py4hw/logic/storage.py', [
    ("        if not(self.reset_value == 0): msg += '_v{}'.format(self.reset_value)", "        if not(self.reset_value == 0): msg += '_v{}'.format(self.reset_value).replace('-', 'm')")]),
 'hp-subnormal-exponent': ('py4hw/helper.py', [("            # subnormal numbers\r\n            e = -16\r\n", "            # subnormal numbers\r\n            e = -14\r\n")]),
}
path, reps = FIX[fid]
p = repo + '/' + path
s = open(p, newline='').read()
for old, new in reps:
    if s.count(old) == 0 and '\r\n' in old:       # file with LF line endings
        old, new = old.replace('\r\n', '\n'), new.replace('\r\n', '\n')
    if s.count(old) != 1 and not (fid == 'wire-move-checks-first' and s.count(old) == 2):      # Wire and BidirWire carry the same three methods
        sys.exit('fix %s: pattern occurs %d times in %s' % (fid, s.count(old), path))
    s = s.replace(old, new)
open(p, 'w', newline='').write(s)
print('applied', fid)
