#!/usr/bin/env python3
"""C03_apply.py <repo> <fix-id>: textual, CRLF-preserving application of one proposed C03 repair (the same change as
fixes/C03-<fix-id>.diff; the textual form commutes with the other C03 repairs, `patch` does not for the two that touch
InlineSignExtend).  Each becomes one `fix:` commit in /repo with the message fixes/C03-<fix-id>.msg."""
import sys
repo, fid = sys.argv[1], sys.argv[2]
RTL = 'py4hw/rtl_generation.py'
FIX = {
 # a 1-bit operand is a scalar net: it has no bits to select.  Text for operands wider than 1 bit is unchanged.
 'scalar-bit-select': (RTL, [
    ("def getInstanceName(ins:Logic):\r\n",
     "def getBitSelect(obj:Logic, w:Wire, bit:int):\r\n"
     "    # bit select of the wire as seen from the parent of obj; a 1 bit wire is a scalar net and has no range\r\n"
     "    if (w.getWidth() == 1 and bit == 0):\r\n"
     "        return getParentWireName(obj, w)\r\n"
     "    return \"{}[{}]\".format(getParentWireName(obj, w), bit)\r\n"
     "\r\n"
     "def getInstanceName(ins:Logic):\r\n"),
    ("    return \"assign {} = {{ {{ {} {{ {}[{}] }} }}, {} }};\\n\".format(getParentWireName(obj, obj.r), obj.r.getWidth() - obj.a.getWidth(),  getParentWireName(obj, obj.a), obj.a.getWidth()-1, getParentWireName(obj, obj.a))\r\n",
     "    return \"assign {} = {{ {{ {} {{ {} }} }}, {} }};\\n\".format(getParentWireName(obj, obj.r), obj.r.getWidth() - obj.a.getWidth(),  getBitSelect(obj, obj.a, obj.a.getWidth()-1), getParentWireName(obj, obj.a))\r\n"),
    ("    return \"assign {} = {}[{}:{}];\\n\".format(getParentWireName(obj, obj.r), getParentWireName(obj, obj.a) , obj.high, obj.low)\r\n",
     "    if (obj.a.getWidth() == 1 and obj.high == 0 and obj.low == 0):\r\n"
     "        return \"assign {} = {};\\n\".format(getParentWireName(obj, obj.r), getParentWireName(obj, obj.a))\r\n"
     "    return \"assign {} = {}[{}:{}];\\n\".format(getParentWireName(obj, obj.r), getParentWireName(obj, obj.a) , obj.high, obj.low)\r\n"),
    ("    return \"assign {} = {}[{}];\\n\".format(getParentWireName(obj, obj.r), getParentWireName(obj, obj.a) , obj.bit)\r\n",
     "    return \"assign {} = {};\\n\".format(getParentWireName(obj, obj.r), getBitSelect(obj, obj.a, obj.bit))\r\n"),
 ]),
 # nothing to replicate when the result is not wider than the operand: the value is copied (truncated by the assignment, as Buf/ZeroExtend do)
 'signextend-replication-count': (RTL, [
    ("def InlineSignExtend(obj:Logic):\r\n",
     "def InlineSignExtend(obj:Logic):\r\n"
     "    if (obj.r.getWidth() <= obj.a.getWidth()):\r\n"
     "        # no bit to replicate ({0{..}} and negative counts are illegal): r takes the low bits of a\r\n"
     "        return \"assign {} = {};\\n\".format(getParentWireName(obj, obj.r), getParentWireName(obj, obj.a))\r\n"),
 ]),
 # Reg<w>.. modules are shared by every instance with the same structureName(), whatever its clock domain
 'shared-module-clock-port': (RTL, [
    ("def BodyReg(obj:Logic):\r\n    clkname = getObjectClockDriver(obj).name\r\n",
     "def getClockPortName(obj:Logic):\r\n"
     "    # Name of the implicit clock port of the module of obj.\r\n"
     "    # Reg modules are shared by all the instances with the same structureName(),\r\n"
     "    # whatever their clock domain, so their clock port has a fixed name\r\n"
     "    if (isinstance(obj, Reg)):\r\n"
     "        return 'clk'\r\n"
     "    return getObjectClockDriver(obj).name\r\n"
     "\r\n"
     "def BodyReg(obj:Logic):\r\n    clkname = getClockPortName(obj)\r\n"),
    ("            clkname = getObjectClockDriver(obj).name\r\n            str += \"input {}\".format(clkname)\r\n",
     "            clkname = getClockPortName(obj)\r\n            str += \"input {}\".format(clkname)\r\n"),
    ("            str += link + \".{}({})\".format(clkname, wirename)\r\n",
     "            str += link + \".{}({})\".format(getClockPortName(child), wirename)\r\n"),
 ]),
 'msgsequencer-count-width': ('py4hw/logic/protocol/uart/sequencer.py', [
    ("        wcount = int(math.ceil(math.log2(mlen)))\r\n        ret += f'reg [{wcount-1}:0] count = 0;\\n'\r\n",
     "        wcount = max(1, int(math.ceil(math.log2(mlen))))  # a one character message still needs a 1 bit counter\r\n        ret += f'reg [{wcount-1}:0] count = 0;\\n'\r\n"),
 ]),
 # variables of a transpiled block get the same reserved-word renaming as ports
 'transpiler-keyword-variable': ('py4hw/transpilation/python2verilog_transpilation.py', [
    ("        self._fields = tuple(['name', 'type'])\r\n\r\n    def toVerilog(self):\r\n        return self.name\r\n",
     "        self._fields = tuple(['name', 'type'])\r\n\r\n    def toVerilog(self):\r\n        from py4hw.rtl_generation import getValidVerilogName\r\n        return getValidVerilogName(self.name)\r\n"),
    ("        return '{} {};\\n'.format(self.type, self.name )\r\n",
     "        from py4hw.rtl_generation import getValidVerilogName\r\n        return '{} {};\\n'.format(self.type, getValidVerilogName(self.name))\r\n"),
 ]),
 # the memories' hand-written bodies name the clock like the header does (the block may have its own clock domain)
 'memory-body-hardcoded-clock': ('py4hw/logic/storage.py', [
    ("        s += f'reg [{w-1}:0] rreaddata;\\n'\r\n        s += 'always @(posedge clk) begin\\n'\r\n",
     "        s += f'reg [{w-1}:0] rreaddata;\\n'\r\n        clkname = getObjectClockDriver(self).name  # the name createModuleHeader gives the clock port\r\n        s += f'always @(posedge {clkname}) begin\\n'\r\n"),
    ("        s += f'reg [{w-1}:0] rreaddata_b;\\n'\r\n\r\n        s += 'always @(posedge clk) begin\\n'\r\n",
     "        s += f'reg [{w-1}:0] rreaddata_b;\\n'\r\n\r\n        clkname = getObjectClockDriver(self).name  # the name createModuleHeader gives the clock port\r\n        s += f'always @(posedge {clkname}) begin\\n'\r\n"),
    ("        s += 'end\\n'\r\n\r\n        s += 'always @(posedge clk) begin\\n'\r\n        s += 'if (write_b) \\n'\r\n",
     "        s += 'end\\n'\r\n\r\n        s += f'always @(posedge {clkname}) begin\\n'\r\n        s += 'if (write_b) \\n'\r\n"),
 ]),
 'empty-concatenation': (RTL, [
    ("def InlineConcatenateMSBF(obj:Logic):\r\n    str = '' # \"# MSBF \\n\"\r\n    w = len(obj.ins)\r\n",
     "def InlineConcatenateMSBF(obj:Logic):\r\n    str = '' # \"# MSBF \\n\"\r\n    w = len(obj.ins)\r\n"
     "    if (w == 0):\r\n        # nothing to concatenate ('{}' is not an expression): the result is zero\r\n"
     "        return \"assign {} = 0;\\n\".format(getParentWireName(obj, obj.r))\r\n"),
    ("def InlineConcatenateLSBF(obj:Logic):\r\n    str = '' # \"# LSBF \\n\"\r\n    w = len(obj.ins)\r\n",
     "def InlineConcatenateLSBF(obj:Logic):\r\n    str = '' # \"# LSBF \\n\"\r\n    w = len(obj.ins)\r\n"
     "    if (w == 0):\r\n        # nothing to concatenate ('{}' is not an expression): the result is zero\r\n"
     "        return \"assign {} = 0;\\n\".format(getParentWireName(obj, obj.r))\r\n"),
 ]),
}
path, reps = FIX[fid]
p = repo + '/' + path
s = open(p, newline='').read()
for old, new in reps:
    if s.count(old) == 0 and '\r\n' in old:       # file with LF line endings
        old, new = old.replace('\r\n', '\n'), new.replace('\r\n', '\n')
    if s.count(old) != 1:
        sys.exit('fix %s: pattern occurs %d times in %s: %r' % (fid, s.count(old), path, old[:80]))
    s = s.replace(old, new)
open(p, 'w', newline='').write(s)
print('applied', fid)
