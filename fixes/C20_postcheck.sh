#!/bin/bash
# after:  (1) fixes/C20-F1.diff committed in /repo with fixes/C20-F1.msg   (2) python3 fixes/C20_switch.py F1 <commit>
cd /verif
out=$(./check C20 quick 2>&1); rc=$?
echo "$out" | tail -4
echo "$out" | grep -q "KNOWN-FINDING" && { echo "POSTCHECK FAILED: C20-F1 still reported"; exit 1; }
[ $rc -eq 0 ] || { echo "POSTCHECK FAILED: exit $rc"; exit 1; }
grep -q '"status": "fixed"' known_findings/C20.json || { echo "POSTCHECK FAILED: known_findings/C20.json not switched"; exit 1; }
./seedrun C20_A; ./seedrun C20_B
echo "C20 postcheck ok"
