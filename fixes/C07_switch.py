#!/usr/bin/env python3
"""C07_switch.py <SAR-WIDE|ROT-NARROW|ROTC-WIDE> [<commit>] [--verif DIR]

Run ONCE, right after fixes/C07-<id>.diff has been committed in /repo.  It switches the C07 development to the repaired
behaviour of that finding:
  * Model/StructArith.v      the width formula the constructor now uses (SAR-WIDE: sar_ext, ROT-NARROW: rot_sw);
                             ROTC-WIDE needs no model change (the primitive is regenerated from /repo on every run)
  * Proofs/C07/{Shift,Prims}.v   the `_refuted` witness of the finding is replaced by the UNGUARDED lemmas
  * Properties/C07.v         the `_refuted` theorem is replaced by the unguarded `_full` theorems (+ Print Assumptions)
  * known_findings/C07.json  status "known" -> "fixed" (+ commit); a fixed entry suppresses nothing, its witness stays in the corpus
  * docs/C07.md              one line under Findings
The three switches are independent and can be applied in any order.  Regions are located by the markers
(* <C07-ID> *) ... (* </C07-ID> *); the script refuses to run twice."""
import sys, os, re, json

args = [a for a in sys.argv[1:]]
verif = '/verif'
if '--verif' in args:
    i = args.index('--verif'); verif = args[i + 1]; del args[i:i + 2]
fid = args[0]; commit = args[1] if len(args) > 1 else None
assert fid in ('SAR-WIDE', 'ROT-NARROW', 'ROTC-WIDE'), fid
TAG = 'C07-' + fid


def region(path, tag, new):
    p = os.path.join(verif, path)
    s = open(p).read()
    pat = re.compile(r'\(\* <%s> \*\)\n.*?\(\* </%s> \*\)\n' % (re.escape(tag), re.escape(tag)), re.S)
    m = pat.search(s)
    if not m:
        sys.exit('%s: region %s not found (already switched?)' % (path, tag))
    s = s[:m.start()] + '(* %s: repaired in /repo, switched by fixes/C07_switch.py *)\n' % tag + new + s[m.end():]
    open(p, 'w').write(s)


POST = {
 'SAR-WIDE': {
  'Model/StructArith.v': [('C07-SAR-WIDE', 'Definition sar_ext (wa wb wr : Z) : Z := Z.max wa wr + py_shl 1 wb.\n')],
  'Proofs/C07/Shift.v': [('C07-SAR-WIDE', '''(* the pre-extension is max(wa, wr) + 2^wb bits wide: the sign fill reaches the top of r for every amount *)
Lemma sar_ext_full wa wb wr b : 1 <= wb -> 0 <= b < 2 ^ wb -> wa <= sar_ext wa wb wr /\\ wr + b <= sar_ext wa wb wr.
Proof. intros. unfold sar_ext, py_shl. rewrite Z.shiftl_1_l. lia. Qed.

Lemma ShiftRight_arith_full wa wb wr a b :
  1 <= wa -> 1 <= wb -> 0 <= wr -> 0 <= a < 2 ^ wa -> 0 <= b < 2 ^ wb ->
  m_ShiftRight AArith wa wb wr a b = spec_sar wa wr a b.
Proof. intros. pose proof (sar_ext_full wa wb wr b ltac:(lia) ltac:(lia)). apply ShiftRight_arith_ext; lia. Qed.

Lemma ShiftRight_wire_full wa wb wr v a b :
  1 <= wa -> 1 <= wb -> 0 <= wr -> 0 <= a < 2 ^ wa -> 0 <= b < 2 ^ wb ->
  m_ShiftRight (AWire v) wa wb wr a b = if v mod 2 =? 1 then spec_sar wa wr a b else spec_shr wr a b.
Proof. intros. pose proof (sar_ext_full wa wb wr b ltac:(lia) ltac:(lia)). apply ShiftRight_wire_ext; lia. Qed.
''')],
  'Properties/C07.v': [('C07-SAR-WIDE', '''(* every result width (C07-SAR-WIDE repaired): no guard *)
Theorem C07_shift_right_arithmetic_full : forall wa wb wr a b,
  1 <= wa -> 1 <= wb -> 0 <= wr -> 0 <= a < 2 ^ wa -> 0 <= b < 2 ^ wb ->
  m_ShiftRight AArith wa wb wr a b = spec_sar wa wr a b.
Proof. exact ShiftRight_arith_full. Qed.

Theorem C07_shift_right_arithmetic_wire_full : forall wa wb wr v a b,
  1 <= wa -> 1 <= wb -> 0 <= wr -> 0 <= a < 2 ^ wa -> 0 <= b < 2 ^ wb ->
  m_ShiftRight (AWire v) wa wb wr a b = if v mod 2 =? 1 then spec_sar wa wr a b else spec_shr wr a b.
Proof. exact ShiftRight_wire_full. Qed.
'''), ('C07-SAR-WIDE-pa', 'Print Assumptions C07_shift_right_arithmetic_full.\nPrint Assumptions C07_shift_right_arithmetic_wire_full.\n')],
 },
 'ROT-NARROW': {
  'Model/StructArith.v': [('C07-ROT-NARROW', 'Definition rot_sw (wa wr : Z) : Z := Z.max wa wr.\n')],
  'Proofs/C07/Shift.v': [('C07-ROT-NARROW', '''(* the `shifted` wires are max(wa, wr) bits wide: they always hold the operand *)
Lemma RotateRight_full wa wb wr a b :
  1 <= wa -> 0 <= wr -> 1 <= wb -> 2 ^ (wb - 1) <= wa -> 0 <= a < 2 ^ wa -> 0 <= b < 2 ^ wb ->
  m_RotateRight wa wb wr a b = spec_rotr wa wr a b.
Proof. intros. apply RotateRight_ext; unfold rot_sw; lia. Qed.

Lemma RotateLeft_full wa wb wr a b :
  1 <= wa -> 0 <= wr -> 1 <= wb -> 2 ^ (wb - 1) <= wa -> 0 <= a < 2 ^ wa -> 0 <= b < 2 ^ wb ->
  m_RotateLeft wa wb wr a b = spec_rotl wa wr a b.
Proof. intros. apply RotateLeft_ext; unfold rot_sw; lia. Qed.
''')],
  'Properties/C07.v': [('C07-ROT-NARROW', '''(* every result width, also narrower than the operand (C07-ROT-NARROW repaired) *)
Theorem C07_rotate_right_full : forall wa wb wr a b,
  1 <= wa -> 0 <= wr -> 1 <= wb -> 2 ^ (wb - 1) <= wa -> 0 <= a < 2 ^ wa -> 0 <= b < 2 ^ wb ->
  m_RotateRight wa wb wr a b = spec_rotr wa wr a b.
Proof. exact RotateRight_full. Qed.

Theorem C07_rotate_left_full : forall wa wb wr a b,
  1 <= wa -> 0 <= wr -> 1 <= wb -> 2 ^ (wb - 1) <= wa -> 0 <= a < 2 ^ wa -> 0 <= b < 2 ^ wb ->
  m_RotateLeft wa wb wr a b = spec_rotl wa wr a b.
Proof. exact RotateLeft_full. Qed.
'''), ('C07-ROT-NARROW-pa', 'Print Assumptions C07_rotate_right_full.\nPrint Assumptions C07_rotate_left_full.\n')],
 },
 'ROTC-WIDE': {
  'Proofs/C07/Prims.v': [('C07-ROTC-WIDE-prims', '''(* the OR is masked to the operand width: exact for every result width *)
Lemma RotateLeftConstant_full wa wr n a : 1 <= wa -> 0 <= wr -> 0 <= n <= wa -> 0 <= a < 2 ^ wa ->
  RotateLeftConstant_propagate wa wr n a = spec_rotl wa wr a n.
Proof.
  intros. unfold RotateLeftConstant_propagate, spec_rotl. rot_norm wa n a.
  rewrite rotl_raw by lia. reflexivity.
Qed.

Lemma RotateRightConstant_full wa wr n a : 1 <= wa -> 0 <= wr -> 0 <= n <= wa -> 0 <= a < 2 ^ wa ->
  RotateRightConstant_propagate wa wr n a = spec_rotr wa wr a n.
Proof.
  intros. unfold RotateRightConstant_propagate, spec_rotr. rot_norm wa n a.
  rewrite rotr_raw by lia. reflexivity.
Qed.
''')],
  'Proofs/C07/Shift.v': [('C07-ROTC-WIDE', '')],
  'Properties/C07.v': [('C07-ROTC-WIDE', '''(* every result width, also wider than the operand (C07-ROTC-WIDE repaired) *)
Theorem C07_rotate_left_constant_full : forall wa wr n a, 1 <= wa -> 0 <= wr -> 0 <= n <= wa -> 0 <= a < 2 ^ wa ->
  RotateLeftConstant_propagate wa wr n a = spec_rotl wa wr a n.
Proof. exact RotateLeftConstant_full. Qed.

Theorem C07_rotate_right_constant_full : forall wa wr n a, 1 <= wa -> 0 <= wr -> 0 <= n <= wa -> 0 <= a < 2 ^ wa ->
  RotateRightConstant_propagate wa wr n a = spec_rotr wa wr a n.
Proof. exact RotateRightConstant_full. Qed.
'''), ('C07-ROTC-WIDE-pa', 'Print Assumptions C07_rotate_left_constant_full.\nPrint Assumptions C07_rotate_right_constant_full.\n')],
 },
}

for path, regs in POST[fid].items():
    for tag, new in regs:
        region(os.path.join('coq', path), tag, new)

kp = os.path.join(verif, 'known_findings', 'C07.json')
k = json.load(open(kp))
for f in k['findings']:
    if f['id'] == TAG:
        f['status'] = 'fixed'
        if commit: f['commit'] = commit
        f['fix'] = 'fixes/%s.diff' % TAG
json.dump(k, open(kp, 'w'), indent=1)

dp = os.path.join(verif, 'docs', 'C07.md')
d = open(dp).read()
line = '\n* **%s repaired in /repo%s** (fixes/%s.diff): the guard of the corresponding theorems is gone (`*_full` theorems in Properties/C07.v), the `_refuted` witness was removed, the finding is `fixed` and its witness stays in the sweep corpus as a regression case.\n' % (TAG, ' (' + commit + ')' if commit else '', TAG)
mark = '## Tie, search, detection'
d = d.replace(mark, line.lstrip('\n') + '\n' + mark, 1) if mark in d else d + line
open(dp, 'w').write(d)
print('switched', TAG, '- now run: cd %s && ./mk Properties/C07.vo && ./check C07 quick' % verif)
