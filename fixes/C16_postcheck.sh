#!/bin/bash
# fixes/C16_postcheck.sh : dry run of "commit fixes/C16-F2.diff in /repo + fixes/C16_switch.py F2": private copies of /verif and /repo,
# patch + switch applied, quick check.  Expected: exit=0, no KNOWN-FINDING line for C16-F2 (C16-F1 stays), obligations 24/24.
D=$(mktemp -d /tmp/c16post_XXXXXX); trap 'rm -rf "$D"' EXIT
V=$D/verif; R=$D/repo; mkdir -p $V $R
rsync -a --exclude .git --exclude replays --exclude 'coq/Cases/*' /verif/ $V/
rsync -a --exclude .git /repo/ $R/
(cd $R && patch -s -p1 < /verif/fixes/C16-F2.diff) || { echo "patch C16-F2 does not apply"; exit 2; }
python3 /verif/fixes/C16_switch.py F2 dryrun --verif $V | tail -1
sed -i "s#^VERIF = .*#VERIF = '$V'#" $V/py/common.py
cd $V && VERIF_REPO=$R VERIF_COQ=$V/coq VERIF_OUT=$V PYTHONPATH=$R:$V/py PYTHONHASHSEED=0 MPLBACKEND=Agg /venv/bin/python -W ignore -u $V/py/check.py C16 quick > $D/run.log 2>&1; rc=$?
echo "== C16 with repair F2 exit=$rc"; grep -E "KNOWN-FINDING|VIOLATION|done:" $D/run.log | cut -c1-160
exit $rc
