#!/usr/bin/env python3
"""C18_switch.py F1 <commit> [--verif DIR]

Run ONCE, right after fixes/C18-F1.diff has been committed in /repo.  The C18 check itself needs no switch to stay
correct (it validates whatever the real placer builds: before the commit the self-loop layouts are rejected and reported as
KNOWN-FINDING C18-F1, after it they are accepted and nothing is printed).  This script only records the repair:
  * known_findings/C18.json   status "known" -> "fixed" (+ commit): a fixed entry suppresses nothing, so a recurrence of the
                              lost self-loop net becomes a VIOLATION; the witness recipe stays in the stream (selfloop family)
  * Properties/C18.v          the refutation theorem C18_selfloop_refuted (a statement about the library) becomes the Example
                              C18_selfloop_old_layout_rejected (a statement about one historic layout, still a useful negative
                              example); the positive Example C18_selfloop_repaired_SchemOK is already there
  * docs/C18.md, manifest.d/C18.json   one line each
Refuses to run twice (regions are located by the markers (* <C18-F1> *) ... (* </C18-F1> *))."""
import sys, os, re, json

args = list(sys.argv[1:])
verif = '/verif'
if '--verif' in args:
    i = args.index('--verif'); verif = args[i + 1]; del args[i:i + 2]
if len(args) < 2 or args[0] not in ('F1', 'C18-F1'):
    sys.exit(__doc__)
commit = args[1]


def region(path, tag, new):
    p = os.path.join(verif, path)
    s = open(p).read()
    pat = re.compile(r'\(\* <%s> \*\)\n.*?\(\* </%s> \*\)\n' % (re.escape(tag), re.escape(tag)), re.S)
    m = pat.search(s)
    if not m:
        sys.exit('%s: region %s not found (already switched?)' % (path, tag))
    open(p, 'w').write(s[:m.start()] + new + s[m.end():])


region('coq/Properties/C18.v', 'C18-F1', '''(* C18-F1 (repaired in /repo by %s, switched by fixes/C18_switch.py): the layout py4hw USED TO build for a block that contains
   Reg(d, q, enable=q)  lost the net q -> r.e; kept as a negative example: it is rejected and violates the declarative statement *)
Example C18_selfloop_old_layout_rejected : schem_ok ex_selfloop_c ex_selfloop_l = false /\\ ~ SchemOK ex_selfloop_c ex_selfloop_l.
Proof. exact (conj ex_selfloop_rejected ex_selfloop_not_SchemOK). Qed.
''' % commit)
region('coq/Properties/C18.v', 'C18-F1-pa', '')

p = os.path.join(verif, 'known_findings', 'C18.json')
k = json.load(open(p))
for f in k['findings']:
    if f['id'] == 'C18-F1':
        f['status'] = 'fixed'; f['commit'] = commit
json.dump(k, open(p, 'w'), indent=1)

p = os.path.join(verif, 'docs', 'C18.md')
s = open(p).read()
s = s.replace('## Finding C18-F1 (known_findings/C18.json, status known) — refutation on the unchanged library',
              '## Finding C18-F1 (known_findings/C18.json, status FIXED by /repo commit %s; before it:) — refutation on the library as it was' % commit)
s = s.replace('| `C18_selfloop_refuted` | the layout py4hw really builds for `Reg(d,q,enable=q)` is rejected **and** `¬ SchemOK` (finding C18-F1) |',
              '| Example `C18_selfloop_old_layout_rejected` | the layout py4hw used to build for `Reg(d,q,enable=q)` (before %s) is rejected **and** `¬ SchemOK`; `C18_selfloop_repaired_SchemOK`: the layout built now is `SchemOK` |' % commit)
open(p, 'w').write(s)

p = os.path.join(verif, 'manifest.d', 'C18.json')
s = open(p).read()
s = s.replace('A refutation on the unchanged library (self-loop on a column-1 instance loses its net, C18_selfloop_refuted) is reported as KNOWN-FINDING C18-F1.',
              'Finding C18-F1 (self-loop on a column-1 instance lost its net) was repaired in /repo (%s); its witness blocks stay in the stream and a recurrence is a VIOLATION.' % commit)
open(p, 'w').write(s)
print('C18-F1 switched to fixed (%s); now run: cd %s && ./mk Properties/C18.vo && ./check C18 quick' % (commit, verif))
