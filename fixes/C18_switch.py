#!/usr/bin/env python3
"""C18_switch.py <F1|F2> <commit> [--verif DIR]

Run ONCE per finding, right after fixes/C18-<id>.diff has been committed in /repo.  The C18 check itself needs no switch to stay
correct (it validates whatever the real placer / symbols produce: before the commit the witness layouts are rejected and reported
as KNOWN-FINDING, after it they are accepted and nothing is printed).  This script only records the repair:
  * known_findings/C18.json   status "known" -> "fixed" (+ commit): a fixed entry suppresses nothing, so a recurrence becomes a
                              VIOLATION; the witness recipes stay in the stream (selfloop family / gate family)
  * Properties/C18.v          the refutation theorem (a statement about the library) becomes an Example about one historic layout
                              (still a useful negative example); the positive Example for the repaired layout is already there
  * docs/C18.md, manifest.d/C18.json   one line each
Refuses to run twice per finding (regions are located by the markers (* <C18-Fx> *) ... (* </C18-Fx> *))."""
import sys, os, re, json

args = list(sys.argv[1:])
verif = '/verif'
if '--verif' in args:
    i = args.index('--verif'); verif = args[i + 1]; del args[i:i + 2]
if len(args) < 2 or args[0] not in ('F1', 'C18-F1', 'F2', 'C18-F2'):
    sys.exit(__doc__)
fid = args[0][-2:]
commit = args[1]


def region(path, tag, new):
    p = os.path.join(verif, path)
    s = open(p).read()
    pat = re.compile(r'\(\* <%s> \*\)\n.*?\(\* </%s> \*\)\n' % (re.escape(tag), re.escape(tag)), re.S)
    m = pat.search(s)
    if not m:
        sys.exit('%s: region %s not found (already switched?)' % (path, tag))
    open(p, 'w').write(s[:m.start()] + new + s[m.end():])


def sub(path, old, new):
    p = os.path.join(verif, path)
    s = open(p).read()
    open(p, 'w').write(s.replace(old, new))


if fid == 'F1':
    region('coq/Properties/C18.v', 'C18-F1', '''(* C18-F1 (repaired in /repo by %s, switched by fixes/C18_switch.py): the layout py4hw USED TO build for a block that contains
   Reg(d, q, enable=q)  lost the net q -> r.e; kept as a negative example: it is rejected and violates the declarative statement *)
Example C18_selfloop_old_layout_rejected : schem_ok ex_selfloop_c ex_selfloop_l = false /\\ ~ SchemOK ex_selfloop_c ex_selfloop_l.
Proof. exact (conj ex_selfloop_rejected ex_selfloop_not_SchemOK). Qed.
''' % commit)
    region('coq/Properties/C18.v', 'C18-F1-pa', '')
    sub('docs/C18.md', '## Finding C18-F1 (known_findings/C18.json, status known) — refutation on the unchanged library',
        '## Finding C18-F1 (known_findings/C18.json, status FIXED by /repo commit %s; before it:) — refutation on the library as it was' % commit)
    sub('docs/C18.md', '| `C18_selfloop_refuted` | the layout py4hw really builds for `Reg(d,q,enable=q)` is rejected **and** `¬ SchemOK` (finding C18-F1) |',
        '| Example `C18_selfloop_old_layout_rejected` | the layout py4hw used to build for `Reg(d,q,enable=q)` (before %s) is rejected **and** `¬ SchemOK`; `C18_selfloop_repaired_SchemOK`: the layout built now is `SchemOK` |' % commit)
    sub('manifest.d/C18.json', 'A refutation on the unchanged library (self-loop on a column-1 instance loses its net, C18_selfloop_refuted) is reported as KNOWN-FINDING C18-F1.',
        'Finding C18-F1 (self-loop on a column-1 instance lost its net) was repaired in /repo (%s); its witness blocks stay in the stream and a recurrence is a VIOLATION.' % commit)
else:
    region('coq/Properties/C18.v', 'C18-F2', '''(* C18-F2 (repaired in /repo by %s, switched by fixes/C18_switch.py): the layout py4hw USED TO build for a block that contains an Add
   with carry input drew the adder's input pins b and ci at one point; kept as a negative example *)
Example C18_addci_old_layout_rejected : schem_ok ex_addci_c ex_addci_l = false /\\ ~ SchemOK ex_addci_c ex_addci_l.
Proof. exact (conj ex_addci_rejected ex_addci_not_SchemOK). Qed.
''' % commit)
    region('coq/Properties/C18.v', 'C18-F2-pa', '')
    sub('docs/C18.md', '## Finding C18-F2 (known_findings/C18.json, status known)',
        '## Finding C18-F2 (known_findings/C18.json, status FIXED by /repo commit %s; before it:)' % commit)
    sub('docs/C18.md', '| `C18_addci_refuted` |', '| Example `C18_addci_old_layout_rejected` (was theorem `C18_addci_refuted` before %s) |' % commit)
    sub('manifest.d/C18.json', 'A refutation on the current library (Add with carry input: pins b and ci at one point, C18_addci_refuted) is reported as KNOWN-FINDING C18-F2.',
        'Finding C18-F2 (Add with carry input: pins b and ci at one point) was repaired in /repo (%s); its witness stays in the stream and a recurrence is a VIOLATION.' % commit)

p = os.path.join(verif, 'known_findings', 'C18.json')
k = json.load(open(p))
for f in k['findings']:
    if f['id'] == 'C18-' + fid:
        f['status'] = 'fixed'; f['commit'] = commit
json.dump(k, open(p, 'w'), indent=1)
print('C18-%s switched to fixed (%s); now run: cd %s && ./mk Properties/C18.vo && ./check C18 quick' % (fid, commit, verif))
