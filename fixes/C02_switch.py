#!/usr/bin/env python3
"""C02_switch.py <cmp-rhs|match-nodefault|ifexp|boolop-value|augport|portname|match-guard> [<commit>] [--verif DIR] [--repo DIR]

Run ONCE, right after fixes/C02-<id>.diff has been committed in /repo (run it with /venv/bin/python).  It switches the C02
development to the repaired transpiler for that finding:
  * known_findings/C02.json   status "known" -> "fixed" (+ commit).  A fixed entry suppresses nothing; its witness class stays
                              in py/props/c02_cases.py (now it must validate, or be refused) and the grammar generator starts to
                              use the construct in its 'plain' programs (c02_gen reads the statuses).
  * cmp-rhs, portname         the `_refuted` witness is replaced by the POSITIVE statement about what the repaired transpiler
                              emits for the same class: Spec/C02.v gets the freshly dumped target term (taken from the live
                              repo), Proofs/C02/Refuted.v the lemma `<x>_repaired : tv_block src tgt = true`,
                              Properties/C02.v the theorem C02_repaired_<x> (+ Print Assumptions)
  * boolop-value              the construct is refused now: the refutation (about text that is no longer produced) is removed
  * match-nodefault, ifexp, augport, match-guard   had no Coq witness (unparsable text / refusal): JSON status only
  * docs/C02.md               one line under Findings
The switches are independent.  Regions are located by (* <C02-id> *) ... (* </C02-id> *); the script refuses to run twice."""
import sys, os, re, json

args = list(sys.argv[1:])
verif, repo = '/verif', os.environ.get('VERIF_REPO', '/repo')
for opt in ('--verif', '--repo'):
    if opt in args:
        i = args.index(opt)
        if opt == '--verif': verif = args[i + 1]
        else: repo = args[i + 1]
        del args[i:i + 2]
fid = args[0]; commit = args[1] if len(args) > 1 else None
IDS = ('cmp-rhs', 'match-nodefault', 'ifexp', 'boolop-value', 'augport', 'portname', 'match-guard')
assert fid in IDS, 'unknown id %s (one of %s)' % (fid, ', '.join(IDS))
TAG = 'C02-' + fid
CASE = {'cmp-rhs': ('CmpRhs', (4, 1, 1), 'cmp_rhs'), 'portname': ('PortName', (4, 4, 5), 'portname'), 'boolop-value': ('OrValue', (4, 4, 4), 'boolop_value')}


def region(path, tag, new):
    p = os.path.join(verif, path)
    s = open(p).read()
    pat = re.compile(r'\(\* <%s> \*\)\n.*?\(\* </%s> \*\)\n' % (re.escape(tag), re.escape(tag)), re.S)
    m = pat.search(s)
    if not m: sys.exit('%s: region %s not found (already switched?)' % (path, tag))
    s = s[:m.start()] + '(* %s: repaired in /repo, switched by fixes/C02_switch.py *)\n' % tag + new + s[m.end():]
    open(p, 'w').write(s)


def fresh_terms(cname, widths):
    """source and target terms of the witness class under the CURRENT transpiler of `repo`"""
    os.environ['VERIF_REPO'] = repo
    os.environ.setdefault('MPLBACKEND', 'Agg')
    sys.path[:0] = [repo, os.path.join(verif, 'py')]
    import common, vparse
    from props import c02_lib as L, c02 as C
    hw, top = C.build_case(cname, list(widths))
    p = L.Program(cname, hw, top, 'case'); p.transpile()
    return p, vparse


# ---------------------------------------------------------------- known_findings
kp = os.path.join(verif, 'known_findings', 'C02.json')
kf = json.load(open(kp))
ent = [e for e in kf['findings'] if e['id'] == TAG]
assert len(ent) == 1, TAG
if ent[0]['status'] == 'fixed': sys.exit('%s is already fixed in known_findings/C02.json' % TAG)

# ---------------------------------------------------------------- Coq witnesses
if fid in ('cmp-rhs', 'portname'):
    cname, widths, stem = CASE[fid]
    p, vparse = fresh_terms(cname, widths)
    if p.raised or p.mods is None:
        sys.exit('the transpiler of %s does not produce parsable text for %s (raised=%s, parse=%s): is the repair committed?' % (repo, cname, p.raised, p.parse_error))
    region('coq/Spec/C02.v', TAG, 'Definition src_%s : pyblock :=\n  %s.\nDefinition tgt_%s : design := %s.\n' % (cname, p.dump.term(), cname, vparse.cq_design(p.mods)))
    region('coq/Proofs/C02/Refuted.v', TAG,
           '(* the repaired transpiler\'s output for the former witness class is accepted by the validator (hence correct by C02_block_sound) *)\n'
           'Lemma %s_repaired : match tgt_%s with m :: _ => tv_block src_%s m = true | [] => False end.\nProof. vm_compute. reflexivity. Qed.\n' % (stem, cname, cname))
    region('coq/Properties/C02.v', TAG,
           'Theorem C02_repaired_%s : match tgt_%s with m :: _ => tv_block src_%s m = true | [] => False end.\nProof. exact %s_repaired. Qed.\n' % (stem, cname, cname, stem))
    pp = os.path.join(verif, 'coq/Properties/C02.v'); s = open(pp).read()
    s = s.replace('Print Assumptions C02_refuted_%s.' % stem, 'Print Assumptions C02_repaired_%s.' % stem); open(pp, 'w').write(s)
elif fid == 'boolop-value':
    cname, widths, stem = CASE[fid]
    p, vparse = fresh_terms(cname, widths)
    if not p.raised:
        sys.exit('the transpiler of %s still accepts %s: is the repair committed?' % (repo, cname))
    region('coq/Spec/C02.v', TAG, '(* `x = a or b` as a value is refused by the transpiler now (TranspilationException): there is no target term any more *)\n')
    region('coq/Proofs/C02/Refuted.v', TAG, '')
    region('coq/Properties/C02.v', TAG, '')
    pp = os.path.join(verif, 'coq/Properties/C02.v'); s = open(pp).read()
    s = s.replace('Print Assumptions C02_refuted_boolop_value.\n', ''); open(pp, 'w').write(s)

# ---------------------------------------------------------------- status, docs
ent[0]['status'] = 'fixed'
if commit: ent[0]['commit'] = commit
json.dump(kf, open(kp, 'w'), indent=1)
dp = os.path.join(verif, 'docs', 'C02.md')
if os.path.exists(dp):
    s = open(dp).read()
    line = '* %s: repaired in /repo%s (fixes/C02-%s.diff); the witness class now %s.\n' % (
        TAG, ' by ' + commit if commit else '', fid, 'is refused by the transpiler' if fid in ('boolop-value', 'augport', 'match-guard') else 'validates')
    s = s.replace('## What a run does', line + '\n## What a run does', 1) if '## What a run does' in s else s + '\n' + line
    open(dp, 'w').write(s)
print('switched %s%s' % (TAG, ' (commit %s)' % commit if commit else ''))
