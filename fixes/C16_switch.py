#!/usr/bin/env python3
"""C16_switch.py F2 <commit> [--verif DIR]
Run ONCE after fixes/C16-F2.diff has been committed in /repo.  The Coq side needs no change (the statement of
C16_axi2clk_fsm_back_to_back is selected by a probe of the regenerated FSM and both branches are proved); this only records
the repair: known_findings/C16.json C16-F2 status "known" -> "fixed" (+ commit) — a fixed entry suppresses nothing, so the
check reports a VIOLATION if the stale-counter behaviour ever returns — and one line in docs/C16.md."""
import sys, os, json
args = sys.argv[1:]
verif = '/verif'
if '--verif' in args:
    i = args.index('--verif'); verif = args[i + 1]; del args[i:i + 2]
assert args and args[0] == 'F2', 'usage: C16_switch.py F2 <commit>'
commit = args[1] if len(args) > 1 else None
p = os.path.join(verif, 'known_findings', 'C16.json')
d = json.load(open(p))
for f in d['findings']:
    if f['id'] == 'C16-F2':
        if f['status'] == 'fixed': sys.exit('C16-F2 already switched')
        f['status'] = 'fixed'
        if commit: f['commit'] = commit
json.dump(d, open(p, 'w'), indent=1)
q = os.path.join(verif, 'docs', 'C16.md')
s = open(q).read()
s = s.replace('* **C16-F2** (extension).', '* **C16-F2** (extension; REPAIRED in /repo%s: `Axi2ClkFSM` clears `clk_count` in every idle cycle; `C16_axi2clk_fsm_back_to_back` now states the exact pulse train from any counter value).' % (' at ' + commit if commit else ''), 1)
open(q, 'w').write(s)
print('C16-F2 switched to fixed')
