#!/bin/bash
# fixes/C02_postcheck.sh <ID> [<ID> ...]   (IDs: cmp-rhs match-nodefault ifexp boolop-value augport portname)
# Dry run of "commit the repair(s) in /repo + run fixes/C02_switch.py": private copies of /verif and /repo under /tmp, the given
# fixes/C02-<ID>.diff applied to the repo copy, the switch applied to the verif copy, then the quick check.  Expected: exit=0, no
# KNOWN-FINDING line for the given IDs, obligations all discharged.  Nothing in /verif or /repo is touched.
D=$(mktemp -d /tmp/c02post_XXXXXX); trap 'rm -rf "$D"' EXIT
V=$D/verif; R=$D/repo; mkdir -p $V $R
rsync -a --exclude .git --exclude replays --exclude 'coq/Cases/*' /verif/ $V/
rsync -a --exclude .git /repo/ $R/
for id in "$@"; do (cd $R && patch -s -p1 < /verif/fixes/C02-$id.diff) || { echo "patch C02-$id does not apply"; exit 2; }; done
for id in "$@"; do PYTHONDONTWRITEBYTECODE=1 /venv/bin/python -W ignore /verif/fixes/C02_switch.py $id dryrun --verif $V --repo $R 2>&1 | grep -v conda | tail -1; done
cd $V && VERIF_REPO=$R VERIF_COQ=$V/coq VERIF_OUT=$V ./check C02 quick > $D/run.log 2>&1; rc=$?
echo "== C02 with repairs [$*] exit=$rc"; grep -E "KNOWN-FINDING|VIOLATION|done:|harness exception" $D/run.log | cut -c1-140
exit $rc
