#!/bin/bash
# fixes/commit_fix.sh <Cxx-id> : apply fixes/<Cxx-id>.diff to /repo, run the unedited suite, commit with fixes/<Cxx-id>.msg (one `fix:` commit); prints the hash
set -e
id=$1; cd /repo
[ -z "$(git status --porcelain --untracked-files=no)" ] || { echo "/repo not clean"; exit 2; }
if [ -n "$2" ]; then python3 /verif/fixes/$2 /repo ${id#*-}; else git apply --whitespace=nowarn /verif/fixes/$id.diff || patch -p1 --binary < /verif/fixes/$id.diff; fi
run() { PYTHONPATH=/repo /venv/bin/python -W ignore -m pytest -q -p no:cacheprovider --timeout=900 test 2>&1 | tail -4; }
out=$(run); echo "$out" | tail -1
if echo "$out" | grep -q failed; then
  bad=$(echo "$out" | grep '^FAILED' | grep -v 'Test_FPAdder_SP::test_random\|Test_FPtoInt_SP::test_random' || true)
  [ -z "$bad" ] || { echo "suite fails: $bad"; git checkout -- .; exit 1; }
  out=$(run); echo "retry: $(echo "$out" | tail -1)"
fi
git commit -qa -F /verif/fixes/$id.msg
h=$(git rev-parse --short HEAD); echo "$id $h"
echo "$h $id" >> /tmp/fix_hashes.txt
