#!/bin/bash
# fixes/C20_dryrun.sh : dry run of "commit fixes/C20-F1.diff in /repo + run fixes/C20_switch.py F1": private copies of /verif and /repo
# under /tmp, then the quick check.  Expected: exit=0, no KNOWN-FINDING line, 14/14 obligations.  Nothing in /verif or /repo is touched.
D=$(mktemp -d /tmp/c20post_XXXXXX); trap 'rm -rf "$D"' EXIT
V=$D/verif; R=$D/repo; mkdir -p $V $R
rsync -a --exclude .git --exclude replays --exclude 'coq/Cases/*' /verif/ $V/
rsync -a --exclude .git /repo/ $R/
(cd $R && patch -s -p1 < /verif/fixes/C20-F1.diff) || { echo "patch C20-F1 does not apply"; exit 2; }
python3 /verif/fixes/C20_switch.py F1 dryrun --verif $V | tail -1
cd $V && VERIF_REPO=$R VERIF_OUT=$D/out ./check C20 quick > $D/run.log 2>&1; rc=$?
echo "== C20 with repair F1 exit=$rc"; grep -E "KNOWN-FINDING|VIOLATION|done:" $D/run.log | cut -c1-220
exit $rc
