#!/usr/bin/env python3
"""C20_switch.py F1 [<commit>] [--verif DIR]

Run ONCE, right after fixes/C20-F1.diff has been committed in /repo (CMDResponse answers "=!" for size 0).
The proofs of Proofs/C20/Resp.v are generic in the probe `resp_fixed` of the regenerated encoder (Model/Cmd.v) and hold for
both versions; this script only switches what is STATED:
  * Proofs/C20/Cmds.v      region <C20-F1>: resp_stream_k / resp_prefix_k get the guard 0 <= k (via resp_min_size = 0),
                           resp_size0_refuted is replaced by the positive computation resp_size0_ok
  * Properties/C20.v       region <C20-F1>: resp_stream / resp_prefix with 0 <= k, resp_size0_refuted -> resp_size0
  * known_findings/C20.json  status "known" -> "fixed" (+ commit); a fixed entry suppresses nothing
  * docs/C20.md            one line under Findings
The check needs no other change: its size-0 probe then answers "=!", prints no KNOWN-FINDING and adds size 0 to the sweeps.
Regions are located by the markers (* <C20-F1> *) ... (* </C20-F1> *); the script refuses to run twice."""
import sys, os, re, json

args = list(sys.argv[1:])
verif = '/verif'
if '--verif' in args:
    i = args.index('--verif'); verif = args[i + 1]; del args[i:i + 2]
fid = args[0]; commit = args[1] if len(args) > 1 else None
assert fid == 'F1', fid
TAG = 'C20-F1'


def region(path, new):
    p = os.path.join(verif, path)
    s = open(p).read()
    pat = re.compile(r'\(\* <%s> \*\)\n.*?\(\* </%s> \*\)\n' % (TAG, TAG), re.S)
    m = pat.search(s)
    if not m:
        sys.exit('%s: region %s not found (already switched?)' % (path, TAG))
    s = s[:m.start()] + '(* %s: repaired in /repo, switched by fixes/C20_switch.py *)\n' % TAG + new + s[m.end():]
    open(p, 'w').write(s)


STREAM = '''forall wvalid wv, 1 <= wvalid -> 7 <= wv -> forall c0 value k st r0 env,
  rs_idle c0 -> 0 <= k -> on st = true -> (Z.to_nat (2 * k + 4) <= ready_count env)%nat ->
  let first := {| i_vin := value; i_size := k; i_start := st; i_ready := r0 |} in
  exists pre post, env = pre ++ post /\\
    rs_xfers wvalid wv c0 (first :: pre) = response value (Z.to_nat k) /\\
    rs_idle (rs_iter wvalid wv c0 (first :: pre))'''
PREFIX = '''forall wvalid wv, 1 <= wvalid -> 7 <= wv -> forall c0 value k st r0 env,
  rs_idle c0 -> 0 <= k -> on st = true -> Forall (fun i => i_start i = 0) env ->
  let first := {| i_vin := value; i_size := k; i_start := st; i_ready := r0 |} in
  exists rest, rs_xfers wvalid wv c0 (first :: env) ++ rest = response value (Z.to_nat k)'''
SIZE0 = '''rs_xfers 1 8 rs_reset ({| i_vin := 5; i_size := 0; i_start := 1; i_ready := 1 |} :: map (fun _ => in0 1) (seq 0 8)) = response 5 0 /\\
  response 5 0 = [61; 33]'''

region('coq/Proofs/C20/Cmds.v', '''(* the repaired encoder handles size = 0: the probe evaluates to 0 and the theorems hold for every k >= 0 *)
Lemma resp_min_size_0 : resp_min_size = 0.
Proof. vm_compute. reflexivity. Qed.

Lemma resp_stream_k : %s.
Proof. intros wvalid wv Hv Hw c0 value k st r0 env Hc Hk. apply resp_stream_gen; auto; rewrite resp_min_size_0; lia. Qed.

Lemma resp_prefix_k : %s.
Proof. intros wvalid wv Hv Hw c0 value k st r0 env Hc Hk. apply resp_prefix_gen; auto; rewrite resp_min_size_0; lia. Qed.

(* size = 0: exactly "=!" *)
Lemma resp_size0_ok : %s.
Proof. vm_compute. split; reflexivity. Qed.
''' % (STREAM, PREFIX, SIZE0))

region('coq/Properties/C20.v', '''(* a request (start_resp high in an idle cycle, value on vin, ANY k >= 0 on size), then ANY environment stream (ready
   pacing arbitrary; vin/size/start_resp arbitrary, they are ignored while busy) with at least 2k+4 ready cycles:
   the stream splits at the return to idle, and up to there exactly '=' , the k hex digits MSB first, '!' were
   transferred, one per valid&ready edge.  (C20-F1 repaired: size 0 answers "=!".) *)
Theorem resp_stream : %s.
Proof. exact resp_stream_k. Qed.

(* at every moment (no liveness assumption), as long as no new request arrives, what was transferred is a prefix *)
Theorem resp_prefix : %s.
Proof. exact resp_prefix_k. Qed.

(* size = 0: exactly "=!" (computed on the regenerated definition) *)
Theorem resp_size0 : %s.
Proof. exact resp_size0_ok. Qed.
Print Assumptions resp_size0.
''' % (STREAM, PREFIX, SIZE0))

p = os.path.join(verif, 'known_findings', 'C20.json')
kf = json.load(open(p))
for f in kf['findings']:
    if f['id'] == TAG:
        f['status'] = 'fixed'
        if commit: f['commit'] = commit
json.dump(kf, open(p, 'w'), indent=1)

p = os.path.join(verif, 'docs', 'C20.md')
s = open(p).read()
s = s.replace('## Findings\n', '## Findings\n\n*C20-F1 is FIXED in /repo%s (fixes/C20-F1.diff): size 0 answers "=!"; `resp_stream`/`resp_prefix` now hold for k >= 0, '
              '`resp_size0_refuted` was replaced by `resp_size0`, the sweeps include size 0.  The description below is the pre-repair behaviour.*\n' %
              (' at ' + commit if commit else ''), 1)
open(p, 'w').write(s)
print('C20-F1 switched in', verif)
