#!/usr/bin/env python3
"""C03_switch.py <finding-id> <commit-hash> [--verif DIR]

Run ONCE, right after the repair of that finding (fixes/C03-<id>.diff, or `python3 fixes/C03_apply.py /repo <id>`) has been
committed in /repo.  C03 is translation validation: nothing in the Coq development depends on the defect (the checker and its
soundness theorem are about the text, whatever the generator does), so the switch only records the repair:
  * known_findings/C03.json   status "known" -> "fixed" (+ commit).  A fixed entry suppresses nothing; the witness designs stay
                              in the stream (py/props/c03_designs.py), so a regression is a VIOLATION.
  * docs/C03.md               the finding's table row is marked FIXED and the id is added to the list of fixed entries.
The check is correct before the commit (KNOWN-FINDING line) and after commit + switch (no line, exit 0).  Between commit and
switch it also exits 0 (the clause simply no longer occurs)."""
import sys, os, json
args = sys.argv[1:]
verif = '/verif'
if '--verif' in args:
    i = args.index('--verif'); verif = args[i + 1]; del args[i:i + 2]
fid, commit = args[0], args[1]
p = os.path.join(verif, 'known_findings', 'C03.json')
k = json.load(open(p))
hit = [f for f in k['findings'] if f['id'] == fid]
if not hit: sys.exit('no finding %s' % fid)
if hit[0]['status'] == 'fixed': sys.exit('%s is already fixed' % fid)
hit[0]['status'] = 'fixed'; hit[0]['commit'] = commit
json.dump(k, open(p, 'w'), indent=1)
d = os.path.join(verif, 'docs', 'C03.md')
s = open(d).read()
for pre in ('| %s (' % fid, '| %s |' % fid, '| **new** %s |' % fid):
    if pre in s:
        s = s.replace(pre, pre.replace('| ', '| FIXED (%s) ' % commit, 1), 1); break
s = s.replace('Fixed so far:', 'Fixed so far: `%s` (%s),' % (fid, commit), 1)
open(d, 'w').write(s)
print('C03 %s -> fixed (%s)' % (fid, commit))
