#!/bin/bash
# Offline build of the whole Coq development (hand-written + regenerated from /repo's working tree).
cd "$(dirname "$0")"
export PYTHONPATH=/repo:/verif/py PYTHONHASHSEED=0 MPLBACKEND=Agg PYTHONDONTWRITEBYTECODE=1
/venv/bin/python -W ignore - <<'PY' 2> >(grep -v 'conda.cli.condarc' >&2)
import sys; sys.path.insert(0, '/verif/py')
import common
r = common.regen()
print('py2coq: %d definitions, rejected: %s' % (len(r['sigs']), r['errors']))
common.ensure_makefile()
import json, os
claimed = [c['property_id'] for c in json.load(open('/verif/MANIFEST.json'))['checks']]
import glob
srcs = ['Gen/Prims.vo', 'Gen/Seq.vo', 'Model/Trace.vo'] + sorted('Properties/' + os.path.basename(f)[:-2] + '.vo' for p in claimed for f in glob.glob('/verif/coq/Properties/%s*.v' % p))
extra = '/verif/coq/setup_targets.txt'          # further .vo targets (models imported only by case files)
if os.path.exists(extra): srcs += [l.strip() for l in open(extra) if l.strip() and not l.startswith('#')]
b = common.build(srcs, timeout=3000)
print('coq build ok' if b['ok'] else 'coq build FAILED: %s' % b['msg'])
sys.exit(0 if b['ok'] else 1)
PY
