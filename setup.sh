#!/bin/bash
# Offline build of the whole Coq development (hand-written + regenerated from /repo's working tree).
cd "$(dirname "$0")"
export PYTHONPATH=/repo:/verif/py PYTHONHASHSEED=0 MPLBACKEND=Agg PYTHONDONTWRITEBYTECODE=1
/venv/bin/python -W ignore - <<'PY' 2> >(grep -v 'conda.cli.condarc' >&2)
import sys; sys.path.insert(0, '/verif/py')
import common
r = common.regen()
print('py2coq: %d definitions, rejected: %s' % (len(r['sigs']), r['errors']))
common.ensure_makefile()
srcs = [s[:-2] + '.vo' for s in common.coq_sources()]
b = common.build(srcs, timeout=3000)
print('coq build ok' if b['ok'] else 'coq build FAILED: %s' % b['msg'])
sys.exit(0 if b['ok'] else 1)
PY
