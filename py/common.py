"""Shared machinery of the /verif checks: regeneration of the Coq models from /repo, Coq builds,
evaluation of case files inside Coq, known findings, replay files, evidence."""
import os, sys, json, time, subprocess, hashlib, re, fcntl, glob, random, traceback

VERIF = os.path.dirname(os.path.dirname(os.path.abspath(__file__)))
REPO = os.environ.get('VERIF_REPO', '/repo')
COQ = os.environ.get('VERIF_COQ') or os.path.join(VERIF, 'coq')      # a private copy for mutation runs (./mutcheck)
OUT = os.environ.get('VERIF_OUT') or VERIF                            # where evidence/ and replays/ are written
CASES = os.path.join(COQ, 'Cases')
sys.path.insert(0, os.path.join(VERIF, 'py'))

TRUSTED_BASE = [
    'Coq 8.16.1 kernel and vm_compute (no native_compute); full .vo builds, never -vos',
    'no Axiom/Parameter/Admitted in the development (grep + Print Assumptions on every property theorem)',
    'py/py2coq.py: translator from the Python ast of /repo leaf methods to Gallina (regenerated every run)',
    'py harness that drives the real py4hw objects, writes coq/Cases/*.v and parses coqc output',
    'Base/PyInt.v: Python int operators as Z operators (differentially checked by the correspondence cases)',
]


def sh(cmd, timeout=600, cwd=None, env=None):
    try:
        p = subprocess.run(cmd, shell=isinstance(cmd, str), cwd=cwd, env=env, timeout=timeout,
                           stdout=subprocess.PIPE, stderr=subprocess.STDOUT, text=True)
        return p.returncode, p.stdout
    except subprocess.TimeoutExpired as ex:
        return 124, (ex.stdout or '') + '\nTIMEOUT after %ss' % timeout


class Lock:
    def __init__(self, name='build'):
        self.path = os.path.join(COQ, '.%s.lock' % name)
    def __enter__(self):
        self.f = open(self.path, 'w'); fcntl.flock(self.f, fcntl.LOCK_EX); return self
    def __exit__(self, *a):
        fcntl.flock(self.f, fcntl.LOCK_UN); self.f.close()


# ------------------------------------------------------------------ Coq project
def coq_sources():
    out = []
    for d in ('Base', 'Gen', 'Spec', 'Model', 'Proofs', 'Properties'):
        for p in sorted(glob.glob(os.path.join(COQ, d, '**', '*.v'), recursive=True)):
            out.append(os.path.relpath(p, COQ))
    return out


def ensure_makefile():
    """_CoqProject lists every .v outside Cases/; the Makefile is regenerated when the list changes."""
    text = '-Q . V\n-arg -w -arg -notation-overridden,-deprecated-hint-without-locality,-deprecated-instance-without-locality\n' + '\n'.join(coq_sources()) + '\n'
    cp = os.path.join(COQ, '_CoqProject')
    old = open(cp).read() if os.path.exists(cp) else None
    if old != text or not os.path.exists(os.path.join(COQ, 'Makefile')):
        open(cp, 'w').write(text)
        rc, out = sh('coq_makefile -f _CoqProject -o Makefile', cwd=COQ)
        if rc != 0:
            raise RuntimeError('coq_makefile failed: ' + out)


def regen():
    """py2coq on the current working tree of /repo -> coq/Gen/*.v (write-if-changed)."""
    import py2coq
    with Lock():
        return py2coq.generate(REPO, os.path.join(COQ, 'Gen'))


def build(targets, timeout=1500, jobs=16):
    """make the given .vo targets (full .vo).  returns dict(ok, out, file, line, lemma, msg)."""
    with Lock():
        ensure_makefile()
        rc, out = sh('timeout %d make -j%d %s' % (timeout, jobs, ' '.join(targets)), timeout=timeout + 30, cwd=COQ)
        if rc != 0 and 'No rule to make target' in out:
            # a source listed in the dependency cache vanished (file added/removed since the last coqdep run): rebuild the cache once
            for f in ('.Makefile.d', 'Makefile', 'Makefile.conf'):
                try: os.remove(os.path.join(COQ, f))
                except OSError: pass
            ensure_makefile()
            rc, out = sh('timeout %d make -j%d %s' % (timeout, jobs, ' '.join(targets)), timeout=timeout + 30, cwd=COQ)
    res = {'ok': rc == 0, 'out': out[-6000:], 'file': None, 'line': None, 'lemma': None, 'msg': None}
    if rc != 0:
        m = re.search(r'File "\./([^"]+)", line (\d+), characters', out)
        if m:
            res['file'], res['line'] = m.group(1), int(m.group(2))
            res['lemma'] = enclosing_lemma(os.path.join(COQ, res['file']), res['line'])
            res['msg'] = out[m.start():][:1500]
        else:
            res['msg'] = out[-1500:]
    return res


def enclosing_lemma(path, line):
    try:
        lines = open(path).read().split('\n')
    except OSError:
        return None
    for i in range(min(line, len(lines)) - 1, -1, -1):
        m = re.match(r'\s*(?:Local\s+|Global\s+)?(Lemma|Theorem|Corollary|Example|Definition|Fixpoint|Fact|Remark|Instance)\s+([\w\']+)', lines[i])
        if m:
            return m.group(2)
    return None


def theorems_in(relpath):
    txt = open(os.path.join(COQ, relpath)).read()
    return re.findall(r'^\s*(?:Theorem|Corollary)\s+([\w\']+)', txt, re.M)


def deps_of(targets):
    """transitive .v sources a set of .vo targets depends on (from coq_makefile's .Makefile.d)"""
    dep = {}
    try:
        for line in open(os.path.join(COQ, '.Makefile.d')):
            if '.vo ' in line.split(':')[0] + ' ' and ':' in line:
                lhs, rhs = line.split(':', 1)
                tg = [x for x in lhs.split() if x.endswith('.vo')]
                if tg: dep[tg[0]] = [x for x in rhs.split() if x.endswith('.vo')]
    except OSError:
        return None
    seen, todo = set(), list(targets)
    while todo:
        t = todo.pop()
        if t in seen: continue
        seen.add(t); todo += dep.get(t, [])
    return sorted(x[:-1] for x in seen)


def scan_forbidden(sources=None):
    """no Admitted/admit/Axiom/Parameter/... in the given sources (default: the whole development)."""
    bad = []
    pat = re.compile(r'\b(Admitted|admit|Axiom|Axioms|Parameter|Parameters|Conjecture|Admit Obligations|Unset Guard Checking|bypass_check|Unset Universe Checking|Unset Positivity Checking)\b')
    for rel in (sources if sources is not None else coq_sources()):
        txt = open(os.path.join(COQ, rel)).read()
        txt = re.sub(r'\(\*.*?\*\)', '', txt, flags=re.S)
        for m in pat.finditer(txt):
            bad.append('%s: %s' % (rel, m.group(1)))
    return bad


# ------------------------------------------------------------------ evaluating case files in Coq
def zlit(n):
    n = int(n)
    return '%d' % n if n >= 0 else '(%d)' % n

def zlist(xs):
    return '[' + '; '.join(zlit(x) for x in xs) + ']'

def blit(b):
    return 'true' if b else 'false'


def parse_coq_value(s):
    """parse the printed form of lists / tuples / Z / bool / option / nat terms into Python values."""
    s = re.sub(r'%(Z|nat|N|positive|string)', '', s)
    toks = re.findall(r'\[|\]|\(|\)|;|,|-?\d+|"[^"]*"|[A-Za-z_][\w\.\']*', s)
    pos = [0]
    def peek(): return toks[pos[0]] if pos[0] < len(toks) else None
    def nxt():
        t = toks[pos[0]]; pos[0] += 1; return t
    def atom():
        t = nxt()
        if t == '[':
            out = []
            if peek() == ']': nxt(); return out
            while True:
                out.append(expr())
                t2 = nxt()
                if t2 == ']': return out
                assert t2 == ';', t2
        if t == '(':
            items = [expr()]
            while peek() == ',':
                nxt(); items.append(expr())
            assert nxt() == ')'
            return items[0] if len(items) == 1 else tuple(items)
        if re.fullmatch(r'-?\d+', t): return int(t)
        if t == 'true': return True
        if t == 'false': return False
        if t == 'None': return None
        if t == 'Some': return ('Some', atom())
        if t.startswith('"'): return ('str', t[1:-1])
        if t == 'nil': return []
        return t
    def expr():
        a = atom()
        if isinstance(a, str) and re.fullmatch(r"[A-Za-z_][\w\.']*", a) and peek() not in (';', ',', ')', ']', None):
            args = []
            while peek() not in (';', ',', ')', ']', None):
                args.append(atom())
            return (a, args[0]) if len(args) == 1 else (a, args)
        return a
    v = expr()
    return v


_BUILT = set()


def prelude_deps(prelude):
    """.vo targets named by the `From V Require Import A.B C.D.` lines of a case-file prelude"""
    deps = []
    for line in prelude.split('\n'):
        m = re.match(r'\s*From V Require (?:Import|Export) (.*?)\.\s*$', line)
        if m:
            for mod in m.group(1).split():
                deps.append(mod.replace('.', '/') + '.vo')
    return deps


def coq_eval(tag, prelude, items, timeout=600):
    """items: list of (name, gallina_term).  Writes Cases/<tag>.v that prints each term's vm_compute value
    between markers; returns {name: parsed value} or raises RuntimeError with coqc's output.
    The libraries the prelude imports are (re)built first, so a case file never sees a stale .vo."""
    os.makedirs(CASES, exist_ok=True)
    deps = [d for d in prelude_deps(prelude) if d not in _BUILT]
    if deps:
        r = build(deps, timeout=900)
        if not r['ok']:
            raise RuntimeError('cannot build the libraries needed by case file %s: %s' % (tag, r['msg']))
        _BUILT.update(deps)          # Gen/ is regenerated once per run, so a library built in this run stays current
    path = os.path.join(CASES, tag + '.v')
    body = [prelude, 'Set Printing Width 1000000.', 'Set Printing Depth 1000000.']
    for name, term in items:
        body.append('Definition case_%s := %s.' % (name, term))
        body.append('Goal True. idtac "@@BEGIN %s". Abort.' % name)
        body.append('Eval vm_compute in case_%s.' % name)
        body.append('Goal True. idtac "@@END %s". Abort.' % name)
    open(path, 'w').write('\n'.join(body) + '\n')
    rc, out = sh('ulimit -s unlimited 2>/dev/null; timeout %d coqc -Q . V Cases/%s.v' % (timeout, tag), timeout=timeout + 30, cwd=COQ)
    for ext in ('.vo', '.vok', '.vos', '.glob'):
        try: os.remove(os.path.join(CASES, tag + ext))
        except OSError: pass
    try: os.remove(os.path.join(CASES, '.' + tag + '.aux'))
    except OSError: pass
    if rc != 0:
        raise RuntimeError('coqc failed on Cases/%s.v:\n%s' % (tag, out[-3000:]))
    res = {}
    for name, _ in items:
        m = re.search(r'@@BEGIN %s\n(.*?)@@END %s' % (re.escape(name), re.escape(name)), out, re.S)
        if not m: raise RuntimeError('no output for case %s' % name)
        txt = m.group(1).strip()
        assert txt.startswith('='), txt[:200]
        txt = txt[1:]
        # strip the trailing ": type"
        depth = 0; cut = len(txt)
        for i, ch in enumerate(txt):
            if ch in '([': depth += 1
            elif ch in ')]': depth -= 1
            elif ch == ':' and depth == 0 and txt[i:i+2] != ':=':
                cut = i; break
        res[name] = parse_coq_value(txt[:cut])
    return res


def print_assumptions(relpath):
    """compile output of a Properties file contains Print Assumptions results; re-run coqc to collect them."""
    rc, out = sh('timeout 300 coqc -Q . V %s' % relpath, timeout=330, cwd=COQ)
    return out


# ------------------------------------------------------------------ known findings / replay / evidence
def load_known(prop):
    p = os.path.join(VERIF, 'known_findings', prop + '.json')
    if not os.path.exists(p): return []
    return json.load(open(p))['findings']


class Ctx:
    def __init__(self, prop, tier, seed):
        self.prop, self.tier, self.seed = prop, tier, seed
        self.t0 = time.time()
        self.rng = random.Random(seed)
        self.violations = []        # (replay_path, suffix)
        self.known_hit = []
        self.cov = {'evaluations': 0, 'distinct_nontrivial': 0, 'samples': [], 'rule': '',
                    'obligations': 0, 'discharged': 0, 'checker_cmd': '', 'trusted_base': list(TRUSTED_BASE)}
        self.assumptions = []
        self.level = 'proof'
        self.notes = {}
        self.known = load_known(prop)
        self.gen = None
        self._distinct = set()

    @property
    def quick(self): return self.tier == 'quick'

    def log(self, *a):
        print('[%s %6.1fs]' % (self.prop, time.time() - self.t0), *a, flush=True)

    # ---- model side
    def regen(self, needed=()):
        self.gen = regen()
        missing = [n for n in needed if n not in self.gen['sigs']]
        self.notes['translator'] = {'definitions': len(self.gen['sigs']), 'rejected': self.gen['errors'],
                                    'regenerated_files': self.gen['changed']}
        return missing

    def prove(self, relpaths, timeout=1500):
        """build the property files; record obligations; returns build result"""
        names = []
        for r in relpaths: names += theorems_in(r)
        self.cov['obligations'] = len(names)
        self.cov['checker_cmd'] = 'make -C /verif/coq ' + ' '.join(r[:-2] + '.vo' for r in relpaths) + '  (coqc 8.16.1, full .vo)'
        r = build([p[:-2] + '.vo' for p in relpaths], timeout=timeout)
        srcs = deps_of([p[:-2] + '.vo' for p in relpaths])
        bad = scan_forbidden(srcs)
        self.notes['sources_checked'] = srcs
        if bad:
            self.notes['forbidden'] = bad
            return {'ok': False, 'lemma': None, 'file': None, 'line': None, 'msg': 'forbidden vernacular: ' + '; '.join(bad), 'out': ''}
        self.notes['theorems'] = names
        if r['ok']:
            self.cov['discharged'] = len(names)
            pa = {}
            for rp in relpaths:
                out = print_assumptions(rp)
                closed = out.count('Closed under the global context')
                axioms = re.findall(r'^Axioms:\n((?:.+\n)+)', out, re.M)
                pa[rp] = {'closed_under_global_context': closed, 'axioms': axioms}
            self.notes['print_assumptions'] = pa
        else:
            self.cov['discharged'] = 0
            self.notes['broken_obligation'] = {k: r[k] for k in ('file', 'line', 'lemma', 'msg')}
        return r

    # ---- coverage bookkeeping
    def count(self, key=None, n=1, nontrivial=True):
        self.cov['evaluations'] += n
        if key is not None and nontrivial:
            self._distinct.add(key)

    def sample(self, s, limit=8):
        if len(self.cov['samples']) < limit: self.cov['samples'].append(s)

    # ---- reporting
    def write_replay(self, d):
        os.makedirs(os.path.join(OUT, 'replays'), exist_ok=True)
        d = dict(d); d['property'] = self.prop
        h = hashlib.sha1(json.dumps(d, sort_keys=True, default=str).encode()).hexdigest()[:10]
        p = os.path.join(OUT, 'replays', '%s_%s.json' % (self.prop, h))
        json.dump(d, open(p, 'w'), indent=1, default=str)
        return p

    def violation(self, replay, found_input=True):
        """a discrepancy not attributable to a known finding"""
        replay = dict(replay)
        replay.setdefault('kind', 'failing-input' if found_input else 'broken-obligation')
        p = self.write_replay(replay)
        suffix = '' if found_input else ' no-failing-input-found'
        self.violations.append(p)
        print('VIOLATION property=%s replay=%s%s' % (self.prop, p, suffix), flush=True)

    def known_finding(self, fid, text):
        if fid not in self.known_hit:
            self.known_hit.append(fid)
            print('KNOWN-FINDING: property=%s %s' % (self.prop, text), flush=True)

    def finish(self):
        self.cov['distinct_nontrivial'] = len(self._distinct)
        ev = {'property_id': self.prop, 'tier': self.tier, 'seed': self.seed, 'level': self.level,
              'coverage': self.cov, 'assumptions': self.assumptions, 'wall_s': round(time.time() - self.t0, 2),
              'violations': len(self.violations), 'notes': self.notes, 'known_findings_reported': self.known_hit}
        os.makedirs(os.path.join(OUT, 'evidence'), exist_ok=True)
        json.dump(ev, open(os.path.join(OUT, 'evidence', '%s.json' % self.prop), 'w'), indent=1, default=str)
        self.log('done: %d evaluations, %d distinct, obligations %d/%d, violations %d' % (
            self.cov['evaluations'], self.cov['distinct_nontrivial'], self.cov['discharged'], self.cov['obligations'], len(self.violations)))
        return 1 if self.violations else 0


# ------------------------------------------------------------------ running the real implementation
def quiet_import():
    """import py4hw from REPO silently (constructors and imports print a lot)."""
    import io, contextlib
    if REPO not in sys.path: sys.path.insert(0, REPO)
    os.environ.setdefault('MPLBACKEND', 'Agg')
    buf = io.StringIO()
    with contextlib.redirect_stdout(buf), contextlib.redirect_stderr(buf):
        import py4hw
    return py4hw


class quiet:
    def __enter__(self):
        import io
        self._o, self._e = sys.stdout, sys.stderr
        sys.stdout = io.StringIO(); sys.stderr = io.StringIO()
    def __exit__(self, *a):
        sys.stdout, sys.stderr = self._o, self._e
