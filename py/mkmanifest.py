#!/usr/bin/env python3
"""Assemble /verif/MANIFEST.json from manifest.d/*.json; every property without a fragment goes to not_applicable
with the reason recorded in manifest.d/not_applicable.json (or a default 'not built yet')."""
import json, os, glob
V = os.path.dirname(os.path.dirname(os.path.abspath(__file__)))
props = [json.loads(l)['id'] for l in open(os.path.join(V, 'properties.jsonl'))]
checks = []
enabled = set(open(os.path.join(V, 'manifest.d', 'enabled.txt')).read().split())
for p in props:
    f = os.path.join(V, 'manifest.d', p + '.json')
    if os.path.exists(f) and p in enabled:
        c = json.load(open(f))
        if c.get('property_id') != p or not os.path.exists(os.path.join(V, 'py', 'props', p.lower() + '.py')):
            print('skipping inconsistent/unfinished fragment', f); continue
        checks.append(c)
na_file = os.path.join(V, 'manifest.d', 'not_applicable.json')
reasons = json.load(open(na_file)) if os.path.exists(na_file) else {}
claimed = {c['property_id'] for c in checks}
na = [{'property_id': p, 'reason': reasons.get(p, 'check not built yet in this round (planned in DESIGN.md section 5); not claimed')} for p in props if p not in claimed]
fixes = [l.strip() for l in open(os.path.join(V, 'known_findings', 'fix_commits.txt'))] if os.path.exists(os.path.join(V, 'known_findings', 'fix_commits.txt')) else []
m = {
 'version': 1,
 'setup_cmd': './setup.sh',
 'hooks': {'guard': 'DAVIDCASTELLS_PY4HW_VERIF', 'enable': 'no hook is needed: every observation point is a public attribute; the variable is exported by ./check but nothing in /repo reads it',
           'baseline_off_cmd': 'cd /repo && /venv/bin/python -m pytest -ra -q -p no:cacheprovider --timeout=900 --continue-on-collection-errors',
           'source_commits': fixes, 'add_only': True},
 'engines': [{'name': 'coq-proof', 'path': 'coq/', 'serves_properties': sorted(claimed),
              'kind_free_text': 'Coq 8.16.1 development: Base (Python-int semantics), Gen (regenerated from /repo by py/py2coq.py on every run), Model (hand models), Spec, Proofs, Properties; correspondence by vm_compute case files written by py/ harness'}],
 'checks': checks,
 'not_applicable': na,
 'notes': 'Every check: regenerate coq/Gen from /repo working tree -> make Properties/Cxx.vo -> correspondence (real py4hw vs Coq model/spec evaluated by vm_compute) -> on a broken obligation or tie, search for a failing input. Known findings: known_findings/Cxx.json.'
}
json.dump(m, open(os.path.join(V, 'MANIFEST.json'), 'w'), indent=1)
print('MANIFEST.json: %d checks, %d not_applicable' % (len(checks), len(na)))
