#!/usr/bin/env python3
"""Entry point of every registered check:  check.py Cxx [quick|thorough]   |   check.py --replay <file>"""
import sys, os, json, importlib, traceback
sys.path.insert(0, os.path.dirname(os.path.abspath(__file__)))
import common


def main(argv):
    if len(argv) >= 2 and argv[0] == '--replay':
        rp = json.load(open(argv[1]))
        mod = importlib.import_module('props.' + rp['property'].lower())
        if not hasattr(mod, 'replay'):
            print('replay: property %s has no replayer; the file describes the failure:' % rp['property'])
            print(json.dumps(rp, indent=1)[:4000]); return 0
        return mod.replay(rp)
    prop = argv[0]
    tier = argv[1] if len(argv) > 1 else os.environ.get('VERIF_TIER', 'quick')
    if tier not in ('quick', 'thorough'): tier = 'quick'
    seed = int(os.environ.get('VERIF_SEED', '1') or 1)
    ctx = common.Ctx(prop, tier, seed)
    try:
        mod = importlib.import_module('props.' + prop.lower())
        mod.run(ctx)
    except Exception as ex:            # a harness crash is reported, never swallowed
        tb = traceback.format_exc()
        ctx.log('harness exception:\n' + tb)
        ctx.notes['harness_exception'] = tb[-3000:]
        ctx.violation({'kind': 'broken-obligation', 'what': 'the check itself raised %s: %s' % (type(ex).__name__, ex),
                       'traceback': tb[-3000:]}, found_input=False)
    return ctx.finish()


if __name__ == '__main__':
    sys.exit(main(sys.argv[1:]))
