"""Parser for the Verilog subset py4hw emits  ->  Python AST  ->  (a) Coq term of Model/VSyntax.design
(b) token stream printed back from the AST, which must equal the text's own token stream (round-trip check).
Fail-closed: anything outside the subset raises VParseError."""
import re

class VParseError(Exception):
    pass

TOKEN_RE = re.compile(r"""
    (?P<ws>\s+) | (?P<lc>//[^\n]*) | (?P<bc>/\*.*?\*/) | (?P<attr>\(\*(?!\s*\)).*?\*\)) |
    (?P<sized>\d+\s*'\s*[sS]?[bBdDhHoO]\s*[0-9a-fA-FxXzZ_?]+) |
    (?P<num>\d+) |
    (?P<id>[\$A-Za-z_][A-Za-z0-9_\$]*) |
    (?P<str>"[^"\n]*") |
    (?P<op><<<|>>>|<=|>=|==|!=|&&|\|\||<<|>>|[()\[\]{};:,.\#@=?~!+\-*/%&|^<>])
""", re.X | re.S)

KEYWORDS = {'module', 'endmodule', 'input', 'output', 'inout', 'wire', 'reg', 'integer', 'assign', 'always', 'initial', 'begin', 'end',
            'if', 'else', 'case', 'endcase', 'default', 'posedge', 'negedge', 'parameter'}


def tokenize(text):
    text = re.sub(r'@\s*\(\s*\*\s*\)', '@ *', text)
    toks, pos = [], 0
    while pos < len(text):
        m = TOKEN_RE.match(text, pos)
        if not m:
            raise VParseError('cannot tokenize at %r' % text[pos:pos + 30])
        pos = m.end()
        k = m.lastgroup
        if k in ('ws', 'lc', 'bc', 'attr'): continue
        t = m.group(k)
        if k == 'sized': t = re.sub(r'\s+', '', t)
        toks.append((k, t))
    return toks


BINPREC = [('||',), ('&&',), ('|',), ('^',), ('&',), ('==', '!='), ('<', '<=', '>', '>='), ('<<', '>>'), ('+', '-'), ('*', '/', '%')]
BINNAME = {'+': 'BAdd', '-': 'BSub', '*': 'BMul', '/': 'BDiv', '%': 'BMod', '&': 'BAnd', '|': 'BOr', '^': 'BXor', '<<': 'BShl', '>>': 'BShr',
           '==': 'BEq', '!=': 'BNe', '<': 'BLt', '<=': 'BLe', '>': 'BGt', '>=': 'BGe', '&&': 'BLAnd', '||': 'BLOr'}
UNNAME = {'~': 'UNot', '!': 'ULNot', '-': 'UNeg'}


class Parser:
    def __init__(self, text):
        self.toks = tokenize(text)
        self.i = 0

    def peek(self, k=0):
        return self.toks[self.i + k][1] if self.i + k < len(self.toks) else None
    def kind(self):
        return self.toks[self.i][0] if self.i < len(self.toks) else None
    def next(self):
        t = self.toks[self.i]; self.i += 1; return t[1]
    def expect(self, s):
        t = self.next() if self.i < len(self.toks) else None
        if t != s: raise VParseError('expected %r, got %r at token %d (%s)' % (s, t, self.i, ' '.join(x[1] for x in self.toks[max(0, self.i - 8):self.i + 3])))
    def ident(self):
        if self.kind() != 'id' or self.peek() in KEYWORDS: raise VParseError('identifier expected, got %r' % self.peek())
        return self.next()
    def intlit(self):
        neg = False
        if self.peek() == '-': self.next(); neg = True
        if self.kind() != 'num': raise VParseError('integer expected, got %r' % self.peek())
        v = int(self.next())
        return -v if neg else v

    # ---------------- design
    def design(self):
        mods = []
        while self.i < len(self.toks):
            mods.append(self.module())
        return mods

    def range_opt(self):
        if self.peek() == '[':
            self.next(); hi = self.intlit(); self.expect(':'); lo = self.intlit(); self.expect(']')
            return (hi, lo)
        return None

    def module(self):
        self.expect('module'); name = self.ident()
        params = []
        if self.peek() == '#':
            self.next(); self.expect('(')
            while True:
                self.expect('parameter'); params.append(self.ident())
                if self.peek() == ',': self.next(); continue
                break
            self.expect(')')
        ports = []
        self.expect('(')
        if self.peek() != ')':
            while True:
                d = self.next()
                if d not in ('input', 'output', 'inout'): raise VParseError('port direction expected, got %r' % d)
                isreg = False
                if self.peek() == 'reg': self.next(); isreg = True
                rng = self.range_opt()
                ports.append(('port', d, isreg, rng, self.ident()))
                if self.peek() == ',': self.next(); continue
                break
        self.expect(')'); self.expect(';')
        items = []
        while self.peek() != 'endmodule':
            if self.peek() is None: raise VParseError('endmodule missing')
            items.append(self.item())
        self.expect('endmodule')
        return ('module', name, params, ports, items)

    def item(self):
        t = self.peek()
        if t == 'wire':
            self.next(); rng = self.range_opt(); x = self.ident(); self.expect(';'); return ('wire', rng, x)
        if t == 'reg':
            self.next(); rng = self.range_opt(); x = self.ident()
            if self.peek() == '[':
                self.next(); lo = self.intlit(); self.expect(':'); hi = self.intlit(); self.expect(']'); self.expect(';')
                return ('mem', rng, x, lo, hi)
            init = None
            if self.peek() == '=':
                self.next(); init = self.intlit()
            self.expect(';'); return ('reg', rng, x, init)
        if t == 'integer':
            self.next(); x = self.ident(); self.expect(';'); return ('integer', x)
        if t == 'assign':
            self.next(); l = self.lval(); self.expect('='); e = self.expr(); self.expect(';'); return ('assign', l, e)
        if t == 'always':
            self.next(); self.expect('@')
            if self.peek() == '*':
                self.next(); ev = ('star',)
            else:
                self.expect('(')
                edge = self.next()
                if edge not in ('posedge', 'negedge'): raise VParseError('edge expected')
                ev = (edge, self.ident()); self.expect(')')
            return ('always', ev, self.stmt())
        if t == 'initial':
            self.next(); return ('initial', self.stmt())
        # instance
        m = self.ident()
        params = None
        if self.peek() == '#':
            self.next(); self.expect('('); params = self.conns(); self.expect(')')
        iname = self.ident(); self.expect('('); conns = self.conns(); self.expect(')'); self.expect(';')
        return ('inst', m, params, iname, conns)

    def conns(self):
        out = []
        if self.peek() == ')': return out
        while True:
            self.expect('.'); p = self.ident(); self.expect('('); e = self.expr(); self.expect(')')
            out.append((p, e))
            if self.peek() == ',': self.next(); continue
            return out

    def lval(self):
        x = self.ident()
        if self.peek() == '[':
            self.next()
            # constant part select  [n:m]  or index [expr]
            save = self.i
            try:
                hi = self.intlit()
                if self.peek() == ':':
                    self.next(); lo = self.intlit(); self.expect(']'); return ('lpart', x, hi, lo)
            except VParseError:
                pass
            self.i = save
            e = self.expr(); self.expect(']'); return ('lidx', x, e)
        return ('lid', x)

    def stmt(self):
        t = self.peek()
        if t == 'begin':
            self.next(); body = []
            while self.peek() != 'end':
                if self.peek() is None: raise VParseError('end missing')
                body.append(self.stmt())
            self.next(); return ('block', body)
        if t == 'if':
            self.next(); self.expect('('); c = self.expr(); self.expect(')')
            th = self.stmt(); el = None
            if self.peek() == 'else':
                self.next(); el = self.stmt()
            return ('if', c, th, el)
        if t == 'case':
            self.next(); self.expect('('); e = self.expr(); self.expect(')')
            arms, dflt = [], None
            while self.peek() != 'endcase':
                if self.peek() == 'default':
                    self.next()
                    if self.peek() == ':': self.next()
                    dflt = self.stmt()
                else:
                    k = self.expr(); self.expect(':'); arms.append((k, self.stmt()))
            self.next(); return ('case', e, arms, dflt)
        if t == ';':
            self.next(); return ('null',)
        l = self.lval()
        op = self.next()
        if op not in ('=', '<='): raise VParseError('assignment operator expected, got %r' % op)
        e = self.expr(); self.expect(';')
        return ('blk' if op == '=' else 'nba', l, e)

    # ---------------- expressions
    def expr(self):
        c = self.binary(0)
        if self.peek() == '?':
            self.next(); a = self.expr(); self.expect(':'); b = self.expr()
            return ('cond', c, a, b)
        return c

    def binary(self, lvl):
        if lvl == len(BINPREC): return self.unary()
        a = self.binary(lvl + 1)
        while self.peek() in BINPREC[lvl]:
            op = self.next(); b = self.binary(lvl + 1); a = ('bin', op, a, b)
        return a

    def unary(self):
        if self.peek() in ('~', '!', '-'):
            op = self.next(); return ('un', op, self.unary())
        return self.primary()

    def primary(self):
        k, t = self.kind(), self.peek()
        if k == 'num': self.next(); return ('num', int(t))
        if k == 'sized':
            self.next(); m = re.fullmatch(r"(\d+)'([sS]?)([bBdDhHoO])([0-9a-fA-FxXzZ_?]+)", t)
            if m.group(2): raise VParseError('signed sized literal')
            digits = m.group(4).replace('_', '')
            if re.search(r'[xXzZ?]', digits): raise VParseError('x/z literal %s' % t)
            base = {'b': 2, 'd': 10, 'h': 16, 'o': 8}[m.group(3).lower()]
            return ('sized', int(m.group(1)), int(digits, base), t)
        if t == '(':
            self.next(); e = self.expr(); self.expect(')'); return ('paren', e)
        if t == '{':
            self.next(); e1 = self.expr()
            if self.peek() == '{':
                if e1[0] != 'num': raise VParseError('replication count must be a literal')
                self.next(); inner = [self.expr()]
                while self.peek() == ',': self.next(); inner.append(self.expr())
                self.expect('}'); self.expect('}')
                return ('repl', e1[1], inner)
            items = [e1]
            while self.peek() == ',': self.next(); items.append(self.expr())
            self.expect('}'); return ('concat', items)
        if t == '$signed':
            self.next(); self.expect('('); e = self.expr(); self.expect(')'); return ('signed', e)
        if k == 'id' and t not in KEYWORDS:
            x = self.next()
            if self.peek() == '[':
                self.next(); save = self.i
                try:
                    hi = self.intlit()
                    if self.peek() == ':':
                        self.next(); lo = self.intlit(); self.expect(']'); return ('part', x, hi, lo)
                except VParseError:
                    pass
                self.i = save
                e = self.expr(); self.expect(']'); return ('bit', x, e)
            return ('id', x)
        raise VParseError('unexpected token %r in expression' % t)


# ------------------------------------------------------------------ print back (token stream)
def toks_expr(e):
    k = e[0]
    if k == 'num': return [str(e[1])]
    if k == 'sized': return [e[3]]
    if k == 'id': return [e[1]]
    if k == 'bit': return [e[1], '['] + toks_expr(e[2]) + [']']
    if k == 'part': return [e[1], '['] + toks_int(e[2]) + [':'] + toks_int(e[3]) + [']']
    if k == 'paren': return ['('] + toks_expr(e[1]) + [')']
    if k == 'un': return [e[1]] + toks_expr(e[2])
    if k == 'bin': return toks_expr(e[2]) + [e[1]] + toks_expr(e[3])
    if k == 'cond': return toks_expr(e[1]) + ['?'] + toks_expr(e[2]) + [':'] + toks_expr(e[3])
    if k == 'concat':
        out = ['{']
        for i, x in enumerate(e[1]): out += ([','] if i else []) + toks_expr(x)
        return out + ['}']
    if k == 'repl':
        out = ['{', str(e[1]), '{']
        for i, x in enumerate(e[2]): out += ([','] if i else []) + toks_expr(x)
        return out + ['}', '}']
    if k == 'signed': return ['$signed', '('] + toks_expr(e[1]) + [')']
    raise VParseError('toks_expr %r' % (k,))

def toks_int(n):
    return ['-', str(-n)] if n < 0 else [str(n)]

def toks_lval(l):
    if l[0] == 'lid': return [l[1]]
    if l[0] == 'lpart': return [l[1], '['] + toks_int(l[2]) + [':'] + toks_int(l[3]) + [']']
    return [l[1], '['] + toks_expr(l[2]) + [']']

def toks_stmt(s):
    k = s[0]
    if k == 'block': return ['begin'] + [t for x in s[1] for t in toks_stmt(x)] + ['end']
    if k == 'if':
        out = ['if', '('] + toks_expr(s[1]) + [')'] + toks_stmt(s[2])
        if s[3] is not None: out += ['else'] + toks_stmt(s[3])
        return out
    if k == 'case':
        out = ['case', '('] + toks_expr(s[1]) + [')']
        for kx, st in s[2]: out += toks_expr(kx) + [':'] + toks_stmt(st)
        if s[3] is not None: out += ['default', ':'] + toks_stmt(s[3])
        return out + ['endcase']
    if k == 'null': return [';']
    return toks_lval(s[1]) + ['=' if k == 'blk' else '<='] + toks_expr(s[2]) + [';']

def toks_range(r):
    return [] if r is None else ['['] + toks_int(r[0]) + [':'] + toks_int(r[1]) + [']']

def toks_conns(cs):
    out = []
    for i, (p, e) in enumerate(cs): out += ([','] if i else []) + ['.', p, '('] + toks_expr(e) + [')']
    return out

def toks_design(mods):
    out = []
    for (_, name, params, ports, items) in mods:
        out += ['module', name]
        if params:
            out += ['#', '(']
            for i, p in enumerate(params): out += ([','] if i else []) + ['parameter', p]
            out += [')']
        out += ['(']
        for i, (_, d, isreg, rng, x) in enumerate(ports):
            out += ([','] if i else []) + [d] + (['reg'] if isreg else []) + toks_range(rng) + [x]
        out += [')', ';']
        for it in items:
            k = it[0]
            if k == 'wire': out += ['wire'] + toks_range(it[1]) + [it[2], ';']
            elif k == 'reg': out += ['reg'] + toks_range(it[1]) + [it[2]] + (['='] + toks_int(it[3]) if it[3] is not None else []) + [';']
            elif k == 'mem': out += ['reg'] + toks_range(it[1]) + [it[2], '['] + toks_int(it[3]) + [':'] + toks_int(it[4]) + [']', ';']
            elif k == 'integer': out += ['integer', it[1], ';']
            elif k == 'assign': out += ['assign'] + toks_lval(it[1]) + ['='] + toks_expr(it[2]) + [';']
            elif k == 'always':
                out += ['always', '@'] + (['*'] if it[1][0] == 'star' else ['(', it[1][0], it[1][1], ')']) + toks_stmt(it[2])
            elif k == 'initial': out += ['initial'] + toks_stmt(it[1])
            elif k == 'inst':
                out += [it[1]] + (['#', '('] + toks_conns(it[2]) + [')'] if it[2] is not None else []) + [it[3], '('] + toks_conns(it[4]) + [')', ';']
        out += ['endmodule']
    return out


def parse(text):
    """returns the AST; raises VParseError if the text is outside the subset or does not round-trip."""
    p = Parser(text)
    mods = p.design()
    orig = [t for _, t in p.toks]
    back = toks_design(mods)
    if orig != back:
        for i, (a, b) in enumerate(zip(orig, back)):
            if a != b:
                raise VParseError('print-back differs at token %d: %r vs %r (%s)' % (i, a, b, ' '.join(orig[max(0, i - 6):i + 4])))
        raise VParseError('print-back length differs: %d vs %d' % (len(orig), len(back)))
    return mods


# ------------------------------------------------------------------ Coq emission
def cq_str(s):
    return '"%s"' % s.replace('"', '""')

def cq_z(n):
    return str(n) if n >= 0 else '(%d)' % n

def cq_expr(e):
    k = e[0]
    if k == 'num': return '(ENum %s)' % cq_z(e[1])
    if k == 'sized': return '(ESized %d %d)' % (e[1], e[2])
    if k == 'id': return '(EId %s)' % cq_str(e[1])
    if k == 'bit': return '(EBit %s %s)' % (cq_str(e[1]), cq_expr(e[2]))
    if k == 'part': return '(EPart %s %s %s)' % (cq_str(e[1]), cq_z(e[2]), cq_z(e[3]))
    if k == 'paren': return cq_expr(e[1])
    if k == 'un': return '(EUn %s %s)' % (UNNAME[e[1]], cq_expr(e[2]))
    if k == 'bin': return '(EBin %s %s %s)' % (BINNAME[e[1]], cq_expr(e[2]), cq_expr(e[3]))
    if k == 'cond': return '(ECond %s %s %s)' % (cq_expr(e[1]), cq_expr(e[2]), cq_expr(e[3]))
    if k == 'concat':
        items = e[1]
        t = cq_expr(items[-1])
        for x in reversed(items[:-1]): t = '(EConcat %s %s)' % (cq_expr(x), t)
        return t
    if k == 'repl': return '(ERepl %s %s)' % (cq_z(e[1]), cq_expr(('concat', e[2])))
    if k == 'signed': return '(ESigned %s)' % cq_expr(e[1])
    raise VParseError('cq_expr %r' % (k,))

def cq_lval(l):
    if l[0] == 'lid': return '(LId %s)' % cq_str(l[1])
    if l[0] == 'lpart': return '(LPart %s %s %s)' % (cq_str(l[1]), cq_z(l[2]), cq_z(l[3]))
    return '(LIdx %s %s)' % (cq_str(l[1]), cq_expr(l[2]))

def cq_stmt(s):
    k = s[0]
    if k == 'block':
        t = 'SSkip'
        for x in reversed(s[1]): t = cq_stmt(x) if t == 'SSkip' else '(SSeq %s %s)' % (cq_stmt(x), t)
        return t
    if k == 'if': return '(SIf %s %s %s)' % (cq_expr(s[1]), cq_stmt(s[2]), cq_stmt(s[3]) if s[3] is not None else 'SSkip')
    if k == 'case':
        t = cq_stmt(s[3]) if s[3] is not None else 'SSkip'
        for kx, st in reversed(s[2]):
            t = '(SIf (EBin BEq %s %s) %s %s)' % (cq_expr(s[1]), cq_expr(kx), cq_stmt(st), t)
        return t
    if k == 'null': return 'SSkip'
    return '(%s %s %s)' % ('SBlk' if k == 'blk' else 'SNba', cq_lval(s[1]), cq_expr(s[2]))

def width_of(rng):
    return 1 if rng is None else abs(rng[0] - rng[1]) + 1

def cq_design(mods):
    out = []
    for (_, name, params, ports, items) in mods:
        ps = '; '.join('{| p_dir := %s; p_reg := %s; p_width := %s; p_name := %s |}' % (
            {'input': 'DIn', 'output': 'DOut', 'inout': 'DInOut'}[d], 'true' if isreg else 'false', cq_z(rng_width(rng)), cq_str(x))
            for (_, d, isreg, rng, x) in ports)
        its = []
        for it in items:
            k = it[0]
            if k == 'wire': its.append('IWire %s %s' % (cq_str(it[2]), cq_z(rng_width(it[1]))))
            elif k == 'reg': its.append('IReg %s %s %s' % (cq_str(it[2]), cq_z(rng_width(it[1])), 'None' if it[3] is None else '(Some %s)' % cq_z(it[3])))
            elif k == 'mem': its.append('IMem %s %s %s' % (cq_str(it[2]), cq_z(rng_width(it[1])), cq_z(abs(it[4] - it[3]) + 1)))
            elif k == 'integer': its.append('IInteger %s' % cq_str(it[1]))
            elif k == 'assign': its.append('IAssign %s %s' % (cq_lval(it[1]), cq_expr(it[2])))
            elif k == 'always':
                ev = 'EvStar' if it[1][0] == 'star' else '(%s %s)' % ('EvPos' if it[1][0] == 'posedge' else 'EvNeg', cq_str(it[1][1]))
                its.append('IAlways %s %s' % (ev, cq_stmt(it[2])))
            elif k == 'initial': its.append('IInitial %s' % cq_stmt(it[1]))
            elif k == 'inst':
                pl = '[' + '; '.join('(%s, %s)' % (cq_str(p), cq_expr(e)) for p, e in (it[2] or [])) + ']'
                cl = '[' + '; '.join('(%s, %s)' % (cq_str(p), cq_expr(e)) for p, e in it[4]) + ']'
                its.append('IInst %s %s %s %s' % (cq_str(it[1]), pl, cq_str(it[3]), cl))
        out.append('{| m_name := %s; m_params := [%s]; m_ports := [%s];\n     m_items := [\n      %s] |}' % (
            cq_str(name), '; '.join(cq_str(p) for p in params), ps, ';\n      '.join(its)))
    return '[\n  ' + ';\n  '.join(out) + ']'

def rng_width(rng):
    """[hi:lo] with hi >= lo has width hi-lo+1; a descending-illegal range like [-1:0] is passed through as a
    non-positive width so that the well-formedness checker rejects it (never silently repaired)."""
    if rng is None: return 1
    return rng[0] - rng[1] + 1
