"""C18 helper — regenerates coq/Proofs/C18/Examples.v (the concrete layouts used as Examples in Properties/C18.v) whenever the
record types of Model/Schem.v change.  Not used by the check.

    cd /verif && PYTHONPATH=/repo:/verif/py /venv/bin/python py/props/c18_examples.py            # writes Examples.v

The historic layouts (before the repairs of C18-F1 / C18-F2) are produced from scratch copies of /repo with fixes/C18-F1.diff /
fixes/C18-F2.diff reverse-applied (under /tmp, removed afterwards); each tree runs in its own subprocess."""
import copy, os, subprocess, sys, tempfile, shutil

HERE = os.path.dirname(os.path.abspath(__file__))
VERIF = os.path.dirname(os.path.dirname(HERE))


def fragment(which):
    sys.path.insert(0, os.path.join(VERIF, 'py'))
    import common
    from common import quiet
    from props import c18_dump as D, c18_gen as G
    py4hw = common.quiet_import()
    out = []
    P = out.append

    def dump(obj):
        conn = D.connectivity(obj); s, info = D.run_schematic(obj); return conn, D.dump_layout(s, conn), info

    def comments(name, conn, lay, info):
        P('(* %s : children %s ; swallowed %s *)' % (name, conn['child_names'], info['swallowed']))
        for s in lay['syms']: P('(*   sym %d %s %s for=%s cell=%s *)' % (s['id'], s['kind'], s['name'], s['for'], s['cell']))
        for i, n in enumerate(lay['nets']): P('(*   net %d w%d %s   %s -> %s *)' % (i, n['wire'], n['text'], n['from'], n['to']))

    def show(name, obj, circ=True):
        conn, lay, info = dump(obj); comments(name, conn, lay, info)
        if circ: P('Definition %s_c : circuit :=\n  %s.' % (name, D.circuit_term(conn)))
        P('Definition %s_l : layout :=\n  %s.' % (name, D.layout_term(lay)))
        return conn, lay
    if which == 'preF1':
        conn, lay, info = dump(G.build(('selfloop', ('e', 0)))); comments('ex_selfloop (layout built BEFORE /repo commit ead5329)', conn, lay, info)
        P('Definition ex_selfloop_c : circuit :=\n  %s.' % D.circuit_term(conn))
        P('Definition ex_selfloop_l : layout :=\n  %s.' % D.layout_term(lay))
    elif which == 'preF2':
        conn, lay, info = dump(G.build(('gate', ('Add', 2, 8)))); comments('ex_addci (layout built BEFORE /repo commit c335649)', conn, lay, info)
        P('Definition ex_addci_c : circuit :=\n  %s.' % D.circuit_term(conn))
        P('Definition ex_addci_l : layout :=\n  %s.' % D.layout_term(lay))
    else:
        conn, lay = show('ex_add', G.build(('lib', 'Add', (8, True))))
        i = [k for k, n in enumerate(lay['nets']) if n['text'].endswith('-> add.a')][0]
        l2 = copy.deepcopy(lay); del l2['nets'][i]
        P('(* the same layout with net %d (%s) dropped *)' % (i, lay['nets'][i]['text']))
        P('Definition ex_add_dropped_l : layout :=\n  %s.' % D.layout_term(l2))
        show('ex_counter', G.build(('lib', 'Counter', (4,))))
        conn, lay = show('ex_addco', G.build(('gate', ('Add', 1, 8))))
        l2 = copy.deepcopy(lay)
        rp = [a for a in l2['pins'] if a['pin'] == (('ch', 0), True, 0)][0]; cp = [a for a in l2['pins'] if a['pin'] == (('ch', 0), True, 1)][0]
        old = (cp['x'], cp['y']); cp['x'], cp['y'] = rp['x'], rp['y']
        for n in l2['nets']:
            if n['from'] == old: n['from'] = (rp['x'], rp['y'])
        l2['marks'] = []          # (markers left out: this example is about the coincidence clause alone)
        P('(* the same layout with the pin co of the adder drawn at the point of its pin r (and the net of co starting there) *)')
        P('Definition ex_addco_clash_l : layout :=\n  %s.' % D.layout_term(l2))
        l3 = copy.deepcopy(lay); n = l3['nets'][0]; n['to'] = (n['to'][0], n['to'][1] + 1)
        P('(* the same layout with net 0 ending one pixel below the pin it names *)')
        P('Definition ex_addco_offpin_l : layout :=\n  %s.' % D.layout_term(l3))
        # a box symbol reading ONE wire on two pins: Mux(sel, [a, b, b, c])
        conn, lay = show('ex_dup', G.build(('dup', ('Mux4', 'abbc'))))
        l4 = copy.deepcopy(lay)
        muxk = [k for k, nm in enumerate(conn['child_names']) if nm.startswith('Mux')][0]
        p1 = [a for a in l4['pins'] if a['pin'] == (('ch', muxk), False, 2)][0]; p2 = [a for a in l4['pins'] if a['pin'] == (('ch', muxk), False, 3)][0]
        oldpt = (p1['x'], p1['y']); p1['x'], p1['y'] = p2['x'], p2['y']
        for n in l4['nets']:
            if n['snk'] == (p1['sym'], p1['pin']): n['to'] = (p2['x'], p2['y'])
        P('(* the same layout with the pin in1 of the mux COMPUTED at the point of in2 (both read wire b), as a lookup by wire does: every graph')
        P('   clause and the coincidence clause still hold (same wire) - only the painted marker of in1, at %s, tells *)' % (oldpt,))
        P('Definition ex_dup_bywire_l : layout :=\n  %s.' % D.layout_term(l4))
        conn, lay, info = dump(G.build(('selfloop', ('e', 0)))); comments('ex_selfloop_repaired (layout built by the current insertFeedback)', conn, lay, info)
        P('Definition ex_selfloop_repaired_l : layout :=\n  %s.' % D.layout_term(lay))
        conn, lay, info = dump(G.build(('gate', ('Add', 2, 8)))); comments('ex_addci_repaired (current BinaryOperatorSymbol)', conn, lay, info)
        P('Definition ex_addci_repaired_l : layout :=\n  %s.' % D.layout_term(lay))
    return '\n'.join(out) + '\n'


HEADER = '''(* C18 — concrete layouts dumped from the REAL Schematic(obj) (py/props/c18_dump.py), used as non-vacuity / rejection
   examples in Properties/C18.v.  The comments list the symbols and nets (with the end points of their polylines) of each layout.
   GENERATED by py/props/c18_examples.py (re-run it when the record types of Model/Schem.v change); ex_selfloop_l / ex_addci_l are
   the layouts built before the repairs ead5329 / c335649 (scratch trees with the fix reverse-applied). *)
From Coq Require Import List ZArith Bool Arith.
Import ListNotations.
From V Require Import Model.Schem Spec.C18 Proofs.C18.Sound Proofs.C18.Complete.

'''
acc = lambda n, c, l: 'Lemma %s_accepted : schem_ok %s %s = true.\nProof. vm_compute. reflexivity. Qed.\nLemma %s_SchemOK : SchemOK %s %s.\nProof. apply schem_ok_sound. exact %s_accepted. Qed.\n' % (n, c, l, n, c, l, n)
rej = lambda n, c, l: 'Lemma %s_rejected : schem_ok %s %s = false.\nProof. vm_compute. reflexivity. Qed.\nLemma %s_not_SchemOK : ~ SchemOK %s %s.\nProof. apply schem_ok_false. exact %s_rejected. Qed.\n' % (n, c, l, n, c, l, n)
PROOFS = '\n'.join([
    '(* real layouts: accepted, hence SchemOK *)',
    acc('ex_add', 'ex_add_c', 'ex_add_l'), acc('ex_counter', 'ex_counter_c', 'ex_counter_l'), acc('ex_addco', 'ex_addco_c', 'ex_addco_l'),
    acc('ex_dup', 'ex_dup_c', 'ex_dup_l'),
    acc('ex_selfloop_repaired', 'ex_selfloop_c', 'ex_selfloop_repaired_l'), acc('ex_addci_repaired', 'ex_addci_c', 'ex_addci_repaired_l'),
    '(* corrupted / historic layouts: rejected, hence (completeness) not SchemOK *)',
    rej('ex_add_dropped', 'ex_add_c', 'ex_add_dropped_l'), rej('ex_addco_clash', 'ex_addco_c', 'ex_addco_clash_l'),
    rej('ex_addco_offpin', 'ex_addco_c', 'ex_addco_offpin_l'), rej('ex_dup_bywire', 'ex_dup_c', 'ex_dup_bywire_l'),
    rej('ex_selfloop', 'ex_selfloop_c', 'ex_selfloop_l'), rej('ex_addci', 'ex_addci_c', 'ex_addci_l'),
    '(* the by-wire layout fails ONLY the marker clause *)',
    'Lemma ex_dup_bywire_only_marks :\n  let l := ex_dup_bywire_l in let c := ex_dup_c in\n'
    '  (circ_ok c && chk_ids l && chk_only c l && chk_each c l && chk_geom l && chk_ends c l && chk_wires c l && chk_pinpts c l && chk_geo l = true) /\\ chk_marks l = false.\n'
    'Proof. vm_compute. split; reflexivity. Qed.\n'])


def main():
    repo = os.environ.get('VERIF_REPO', '/repo')
    tmp = tempfile.mkdtemp(prefix='c18ex_')
    frags = {}
    try:
        for which, patches in (('preF1', ['C18-F2.diff', 'C18-F1.diff']), ('preF2', ['C18-F2.diff']), ('cur', [])):
            tree = repo
            if patches:
                tree = os.path.join(tmp, which); shutil.copytree(repo, tree, ignore=shutil.ignore_patterns('.git'))
                for pt in patches if which == 'preF1' else patches:
                    if which == 'preF1' and pt == 'C18-F2.diff': continue          # F1 predates F2 but they touch different files: only F1 is reverted
                    subprocess.run('patch -R -s -p1 < %s' % os.path.join(VERIF, 'fixes', pt), shell=True, cwd=tree, check=True)
            env = dict(os.environ, VERIF_REPO=tree, PYTHONPATH='%s:%s' % (tree, os.path.join(VERIF, 'py')), MPLBACKEND='Agg', PYTHONHASHSEED='0')
            r = subprocess.run([sys.executable, '-W', 'ignore', os.path.abspath(__file__), '--fragment', which], env=env, capture_output=True, text=True)
            if r.returncode != 0: sys.exit('fragment %s failed:\n%s' % (which, r.stderr[-3000:]))
            frags[which] = r.stdout[r.stdout.index('@@FRAG@@') + 9:]
    finally:
        shutil.rmtree(tmp, ignore_errors=True)
    open(os.path.join(VERIF, 'coq', 'Proofs', 'C18', 'Examples.v'), 'w').write(HEADER + frags['preF1'] + '\n' + frags['preF2'] + '\n' + frags['cur'] + '\n' + PROOFS)
    print('wrote coq/Proofs/C18/Examples.v')


if __name__ == '__main__':
    if len(sys.argv) > 2 and sys.argv[1] == '--fragment':
        t = fragment(sys.argv[2]); print('@@FRAG@@'); print(t)
    else:
        main()
