"""C03 — the design stream: every structural library block at a grid of widths / parameters, each wrapped in a `Logic`
with ports (so there is a top module) and emitted as a hierarchy by the REAL generator; random netlists; behavioural
(transpiled) blocks; adversarial naming; reuse of a block class with different optional ports; two clock domains.

A case is  Case(id, cls, params, build)  where build(p) -> the top py4hw object (constructed under common.quiet()).
Constructors that reject a configuration (exception) make the case 'rejected' (not a program)."""
import itertools, random
import common
from common import quiet


class Case:
    def __init__(self, cid, cls, params, build, tags=()):
        self.id, self.cls, self.params, self.build, self.tags = cid, cls, params, build, tuple(tags)
        self.top = None
        self.text = None
        self.error = None       # exception text of constructor / generator
        self.emit = None        # optional (p, top) -> text: how the text is requested (default: a fresh generator, getVerilogForHierarchy)
        self.mode = 'hier'      # 'hier': whole hierarchy (closed design)   'single': getVerilog, one module (children are black boxes)

    def key(self):
        return (self.cls,) + tuple(sorted((k, str(v)) for k, v in self.params.items()))


_XF = []      # one-shot transforms of the next top built by make_top (see variant())


def make_top(p, ins, outs, body, name='top', clsname='Top', hw=None):
    """ins/outs: [(port name, width)].  body(top, I, O) instantiates the blocks inside.  Returns the top object."""
    if _XF:
        ins, outs, body = _XF.pop()(p, list(ins), list(outs), body)
    hw = hw or p.HWSystem()
    iw = [hw.wire('x_' + n, w) for n, w in ins]
    ow = [hw.wire('y_' + n, w) for n, w in outs]

    def init(self, parent, nm):
        p.Logic.__init__(self, parent, nm)
        I = [self.addIn(n, w) for (n, _), w in zip(ins, iw)]
        O = [self.addOut(n, w) for (n, _), w in zip(outs, ow)]
        body(self, I, O)
    T = type(clsname, (p.Logic,), {'__init__': init})
    return T(hw, name)


def make_inner(p, parent, name, ins, outs, body, clsname='Inner', structure=None):
    """a user-defined structural block inside `parent`: ins/outs = [(port name, wire of the parent)]"""
    def init(self, par, nm):
        p.Logic.__init__(self, par, nm)
        I = [self.addIn(n, w) for n, w in ins]
        O = [self.addOut(n, w) for n, w in outs]
        body(self, I, O)
    d = {'__init__': init}
    if structure is not None:
        d['structureName'] = lambda self: structure
    return type(clsname, (p.Logic,), d)(parent, name)


def spec_reserved_words():
    """the IEEE 1364-2005 keyword list of coq/Spec/C03.v (single source: the Coq spec)"""
    import os, re
    txt = open(os.path.join(common.VERIF, 'coq', 'Spec', 'C03.v')).read()
    body = txt[txt.index('Definition reserved'):]
    body = body[:body.index('].')]
    return re.findall(r'"([a-z0-9_]+)"', body)


# ------------------------------------------------------------------------------------------------ library blocks
def _blk(cls, ins, outs, body, **params):
    """one block case: ins/outs as in make_top; body(p, t, I, O)"""
    cid = cls + '(' + ','.join('%s=%s' % kv for kv in sorted(params.items())) + ')'
    return Case(cid, cls, params, lambda p: make_top(p, ins, outs, lambda t, I, O: body(p, t, I, O)))


def library(quick):
    """yield Cases: each library block x width grid"""
    W = [1, 2, 3, 8] if quick else [1, 2, 3, 4, 5, 7, 8, 9, 16, 31, 32, 33, 64]
    WS = [1, 3, 8] if quick else [1, 2, 3, 8, 16, 32]
    out = []
    A = out.append

    # ---- two-operand arithmetic / logic with independent result width
    bin_cls = ['Add', 'Sub', 'Mul', 'SignedMul', 'Div', 'Mod', 'And2', 'Or2', 'Xor2', 'Nand2', 'Nor2', 'SignedSub', 'SignedDiv',
               'Max2', 'Min2', 'SignedMax2', 'SignedMin2']
    for cls in bin_cls:
        grid = [(w, w, w) for w in W] + ([(3, 8, 8), (8, 3, 5), (1, 8, 9)] if quick else [(a, b, r) for a in [1, 3, 8, 32] for b in [1, 3, 8, 32] for r in [1, 3, 8, 32]])
        for (wa, wb, wr) in dict.fromkeys(grid):
            A(_blk(cls, [('a', wa), ('b', wb)], [('r', wr)], lambda p, t, I, O, cls=cls: getattr(p, cls)(t, 'dut', I[0], I[1], O[0]), wa=wa, wb=wb, wr=wr))
    # Add / SignedAdd with carries
    for cls in ['Add', 'SignedAdd']:
        for (wa, wb) in ([(1, 1), (3, 3), (8, 8), (3, 8)] if quick else [(a, b) for a in WS for b in WS]):
            for ci, co in itertools.product([False, True], [False, True]):
                wr = max(wa, wb) + (1 if co else 0)
                ins = [('a', wa), ('b', wb)] + ([('ci', 1)] if ci else [])
                outs = [('r', wr)] + ([('co', 1)] if co else [])
                def body(p, t, I, O, cls=cls, ci=ci, co=co):
                    getattr(p, cls)(t, 'dut', I[0], I[1], O[0], ci=I[2] if ci else None, co=O[1] if co else None)
                A(_blk(cls, ins, outs, body, wa=wa, wb=wb, wr=wr, ci=ci, co=co))
    for w in W:
        A(_blk('AddCarryIn', [('a', w), ('b', w), ('ci', 1)], [('r', w)], lambda p, t, I, O: p.AddCarryIn(t, 'dut', I[0], I[1], O[0], I[2]), w=w))
        A(_blk('SubBorrowIn', [('a', w), ('b', w), ('bi', 1)], [('r', w)], lambda p, t, I, O: p.SubBorrowIn(t, 'dut', I[0], I[1], O[0], I[2]), w=w))
    # ---- one-operand
    for cls in ['Not', 'Buf', 'Neg', 'Abs', 'ZeroExtend', 'SignExtend']:
        grid = [(w, w) for w in W] + [(a, r) for a in WS for r in WS if a != r]
        for (wa, wr) in dict.fromkeys(grid):
            A(_blk(cls, [('a', wa)], [('r', wr)], lambda p, t, I, O, cls=cls: getattr(p, cls)(t, 'dut', I[0], O[0]), wa=wa, wr=wr))
    for w in W:
        A(_blk('Abs', [('a', w)], [('r', w), ('inv', 1)], lambda p, t, I, O: p.Abs(t, 'dut', I[0], O[0], O[1]), w=w, inverted=True))
        A(_blk('Sign', [('a', w)], [('r', 1)], lambda p, t, I, O: p.Sign(t, 'dut', I[0], O[0]), w=w))
        A(_blk('AndBits', [('a', w)], [('r', 1)], lambda p, t, I, O: p.AndBits(t, 'dut', I[0], O[0]), w=w))
        A(_blk('OrBits', [('a', w)], [('r', 1)], lambda p, t, I, O: p.OrBits(t, 'dut', I[0], O[0]), w=w))
        A(_blk('Repeat', [('a', 1)], [('r', w)], lambda p, t, I, O: p.Repeat(t, 'dut', I[0], O[0]), w=w))
        if w <= 9:
            A(_blk('BitsLSBF', [('a', w)], [('b%d' % i, 1) for i in range(w)], lambda p, t, I, O: p.BitsLSBF(t, 'dut', I[0], O), w=w))
            A(_blk('BitsMSBF', [('a', w)], [('b%d' % i, 1) for i in range(w)], lambda p, t, I, O: p.BitsMSBF(t, 'dut', I[0], O), w=w))
        for bit in sorted({0, w // 2, w - 1}):
            A(_blk('Bit', [('a', w)], [('r', 1)], lambda p, t, I, O, bit=bit: p.Bit(t, 'dut', I[0], bit, O[0]), w=w, bit=bit))
        for (hi, lo) in sorted({(w - 1, 0), (w - 1, w // 2), (w // 2, 0), (w // 2, w // 2)}):
            A(_blk('Range', [('a', w)], [('r', hi - lo + 1)], lambda p, t, I, O, hi=hi, lo=lo: p.Range(t, 'dut', I[0], hi, lo, O[0]), w=w, hi=hi, lo=lo))
        for n in sorted({0, 1, w - 1, w, w + 3}):
            for cls in ['ShiftLeftConstant', 'ShiftRightConstant', 'RotateLeftConstant', 'RotateRightConstant']:
                A(_blk(cls, [('a', w)], [('r', w)], lambda p, t, I, O, cls=cls, n=n: getattr(p, cls)(t, 'dut', I[0], n, O[0]), w=w, n=n))
        for v in sorted({0, 1, (1 << w) - 1, (1 << w), -1}):
            A(_blk('Constant', [], [('r', w)], lambda p, t, I, O, v=v: p.Constant(t, 'dut', v, O[0]), w=w, v=v))
            A(_blk('EqualConstant', [('a', w)], [('r', 1)], lambda p, t, I, O, v=v: p.EqualConstant(t, 'dut', I[0], v, O[0]), w=w, v=v))
            A(_blk('NotEqualConstant', [('a', w)], [('r', 1)], lambda p, t, I, O, v=v: p.NotEqualConstant(t, 'dut', I[0], v, O[0]), w=w, v=v))
        A(_blk('Equal', [('a', w), ('b', w)], [('r', 1)], lambda p, t, I, O: p.Equal(t, 'dut', I[0], I[1], O[0]), w=w))
        A(_blk('Comparator', [('a', w), ('b', w)], [('gt', 1), ('eq', 1), ('lt', 1)], lambda p, t, I, O: p.Comparator(t, 'dut', I[0], I[1], O[0], O[1], O[2]), w=w))
        A(_blk('ComparatorSignedUnsigned', [('a', w), ('b', w)], [('gtu', 1), ('eq', 1), ('ltu', 1), ('gt', 1), ('lt', 1)],
               lambda p, t, I, O: p.ComparatorSignedUnsigned(t, 'dut', I[0], I[1], *O), w=w))
        A(_blk('Swap', [('a', w), ('b', w), ('s', 1)], [('ra', w), ('rb', w)], lambda p, t, I, O: p.Swap(t, 'dut', I[0], I[1], I[2], O[0], O[1]), w=w))
        A(_blk('Mux2', [('s', 1), ('a', w), ('b', w)], [('r', w)], lambda p, t, I, O: p.Mux2(t, 'dut', I[0], I[1], I[2], O[0]), w=w))
        A(_blk('BufEnable', [('a', w), ('en', 1)], [('r', w)], lambda p, t, I, O: p.BufEnable(t, 'dut', I[0], I[1], O[0]), w=w))
        A(_blk('CountLeadingZeros', [('a', w)], [('r', max(1, w.bit_length())), ('z', 1)], lambda p, t, I, O: p.CountLeadingZeros(t, 'dut', I[0], O[0], O[1]), w=w))
        if w <= 9:
            for incp in [True, False]:
                A(_blk('PriorityEncoder', [('a%d' % i, 1) for i in range(w)], [('r%d' % i, 1) for i in range(w)],
                       lambda p, t, I, O, incp=incp: p.PriorityEncoder(t, 'dut', I, O, inc_priority=incp), w=w, inc_priority=incp))
        A(_blk('BinaryToBCD', [('a', w)], [('r', 4 * len(str((1 << w) - 1)))], lambda p, t, I, O: p.BinaryToBCD(t, 'dut', I[0], O[0]), w=w))
        for sw in ([1, 2, 3] if w <= 16 else [3]):
            for cls in ['ShiftLeft', 'ShiftRight', 'RotateLeft', 'RotateRight']:
                A(_blk(cls, [('a', w), ('b', sw)], [('r', w)], lambda p, t, I, O, cls=cls: getattr(p, cls)(t, 'dut', I[0], I[1], O[0]), w=w, sw=sw))
        A(_blk('ShiftRight', [('a', w), ('b', 2), ('ar', 1)], [('r', w)], lambda p, t, I, O: p.ShiftRight(t, 'dut', I[0], I[1], O[0], arithmetic=I[2]), w=w, arith='wire'))
    # ---- n-ary
    for n in ([1, 2, 3, 5] if quick else [1, 2, 3, 4, 5, 8, 9]):
        for w in ([1, 8] if quick else [1, 2, 8, 32]):
            for cls in ['And', 'Or', 'Nor', 'Xor']:
                A(_blk(cls, [('i%d' % i, w) for i in range(n)], [('r', w)], lambda p, t, I, O, cls=cls: getattr(p, cls)(t, 'dut', I, O[0]), n=n, w=w))
            for cls in ['ConcatenateMSBF', 'ConcatenateLSBF']:
                A(_blk(cls, [('i%d' % i, w) for i in range(n)], [('r', w * n)], lambda p, t, I, O, cls=cls: getattr(p, cls)(t, 'dut', I, O[0]), n=n, w=w))
            A(_blk('Select', [('s%d' % i, 1) for i in range(n)] + [('i%d' % i, w) for i in range(n)], [('r', w)],
                   lambda p, t, I, O, n=n: p.Select(t, 'dut', I[:n], I[n:], O[0]), n=n, w=w))
            A(_blk('OneHotMux', [('s%d' % i, 1) for i in range(n)] + [('i%d' % i, w) for i in range(n)], [('r', w)],
                   lambda p, t, I, O, n=n: p.OneHotMux(t, 'dut', I[:n], I[n:], O[0]), n=n, w=w))
            A(_blk('SelectDefault', [('s%d' % i, 1) for i in range(n)] + [('i%d' % i, w) for i in range(n)] + [('d', w)], [('r', w)],
                   lambda p, t, I, O, n=n: p.SelectDefault(t, 'dut', I[:n], I[n:2 * n], I[2 * n], O[0]), n=n, w=w))
            A(_blk('OneHotDemux', [('s%d' % i, 1) for i in range(n)] + [('a', w)], [('o%d' % i, w) for i in range(n)],
                   lambda p, t, I, O, n=n: p.OneHotDemux(t, 'dut', I[:n], I[n], O), n=n, w=w))
            A(_blk('AnyEqual', [('i%d' % i, w) for i in range(n)], [('r', 1)], lambda p, t, I, O: p.AnyEqual(t, 'dut', I, O[0]), n=n, w=w))
    for sw in [1, 2, 3]:
        for w in ([1, 8] if quick else [1, 2, 8, 32]):
            n = 1 << sw
            A(_blk('Mux', [('s', sw)] + [('i%d' % i, w) for i in range(n)], [('r', w)], lambda p, t, I, O: p.Mux(t, 'dut', I[0], I[1:], O[0]), sw=sw, w=w))
            A(_blk('Demux', [('a', w), ('s', sw)], [('o%d' % i, w) for i in range(n)], lambda p, t, I, O: p.Demux(t, 'dut', I[0], I[1], O), sw=sw, w=w))
        A(_blk('Decoder', [('a', sw)], [('o%d' % i, 1) for i in range(1 << sw)], lambda p, t, I, O: p.Decoder(t, 'dut', I[0], O), sw=sw))
        for v in [0, (1 << sw) - 1]:
            A(_blk('Minterm', [('b%d' % i, 1) for i in range(sw)], [('r', 1)], lambda p, t, I, O, v=v: p.Minterm(t, 'dut', I, v, O[0]), sw=sw, v=v))
        A(_blk('SumOfMinterms', [('a', sw)], [('r', 1)], lambda p, t, I, O, sw=sw: p.SumOfMinterms(t, 'dut', I[0], [0, (1 << sw) - 1], O[0]), sw=sw))
    A(_blk('Digit7Segment', [('v', 4)], [('led', 7)], lambda p, t, I, O: p.Digit7Segment(t, 'dut', I[0], O[0])))
    # ---- sequential
    for w in W:
        for en, rs in itertools.product([False, True], [False, True]):
            for rv in ([None, 1, -1] if quick else [None, 1, (1 << w) - 1, 1 << w, -1]):
                ins = [('d', w)] + ([('en', 1)] if en else []) + ([('rs', 1)] if rs else [])
                def body(p, t, I, O, en=en, rs=rs, rv=rv):
                    p.Reg(t, 'dut', I[0], O[0], enable=I[1] if en else None, reset=I[-1] if rs else None, reset_value=rv)
                A(_blk('Reg', ins, [('q', w)], body, w=w, en=en, rs=rs, rv=rv))
        A(_blk('Latch', [('d', w), ('e', 1)], [('q', w)], lambda p, t, I, O: p.Latch(t, 'dut', I[0], O[0], I[1]), w=w))
        A(_blk('Counter', [('rst', 1), ('inc', 1)], [('q', w)], lambda p, t, I, O: p.Counter(t, 'dut', I[0], I[1], O[0]), w=w))
        A(_blk('StepUpCounter', [('rst', 1), ('inc', 1), ('step', w)], [('q', w)], lambda p, t, I, O: p.StepUpCounter(t, 'dut', I[0], I[1], I[2], O[0]), w=w))
        for mod in sorted({1, 2, 3, (1 << min(w, 10)) - 1, 1 << min(w, 10)}):
            if mod <= (1 << w):
                A(_blk('ModuloCounter', [('rst', 1), ('inc', 1)], [('q', w), ('co', 1)], lambda p, t, I, O, mod=mod: p.ModuloCounter(t, 'dut', mod, I[0], I[1], O[0], O[1]), w=w, mod=mod))
        for delay in ([0, 1, 3] if quick else [0, 1, 2, 5]):
            for en, rs in itertools.product([False, True], [False, True]):
                ins = [('a', w)] + ([('en', 1)] if en else []) + ([('rs', 1)] if rs else [])
                def body(p, t, I, O, en=en, rs=rs, delay=delay):
                    p.DelayLine(t, 'dut', I[0], I[1] if en else None, I[-1] if rs else None, O[0], delay)
                A(_blk('DelayLine', ins, [('r', w)], body, w=w, en=en, rs=rs, delay=delay))
        A(_blk('PipelinePhase', [('rst', 1), ('i0', w), ('i1', 1)], [('o0', w), ('o1', 1)], lambda p, t, I, O: p.PipelinePhase(t, 'dut', I[0], I[1:], O), w=w))
    for w in ([1] if quick else [1]):
        for en, rs in itertools.product([False, True], [False, True]):
            ins = [('t', 1)] + ([('en', 1)] if en else []) + ([('rs', 1)] if rs else [])
            def body(p, t, I, O, en=en, rs=rs):
                p.TReg(t, 'dut', I[0], O[0], enable=I[1] if en else None, reset=I[-1] if rs else None)
            A(_blk('TReg', ins, [('q', 1)], body, en=en, rs=rs))
    for direction in ['pos', 'neg', 'both']:
        A(_blk('EdgeDetector', [('a', 1)], [('r', 1)], lambda p, t, I, O, direction=direction: p.EdgeDetector(t, 'dut', I[0], O[0], direction), direction=direction))
    for aw, dw in ([(1, 1), (3, 8)] if quick else [(1, 1), (2, 8), (3, 8), (4, 32), (10, 3)]):
        for cls in ['AsynchronousMemory', 'SynchronousMemory']:
            A(_blk(cls, [('ra', aw), ('wa', aw), ('we', 1), ('wd', dw)], [('rd', dw)],
                   lambda p, t, I, O, cls=cls: getattr(p.logic.storage, cls)(t, 'dut', I[0], I[1], I[2], O[0], I[3]), aw=aw, dw=dw))
        A(_blk('DualPortSynchronousMemory', [('ra', aw), ('wa', aw), ('we', 1), ('wd', dw), ('rb', aw), ('wb', aw), ('web', 1), ('wdb', dw)], [('rd', dw), ('rdb', dw)],
               lambda p, t, I, O: p.logic.storage.DualPortSynchronousMemory(t, 'dut', I[0], I[1], I[2], O[0], I[3], I[4], I[5], I[6], O[1], I[7]), aw=aw, dw=dw))
    for w in ([2, 8] if quick else [1, 2, 8, 16]):
        for depth in [1, 2, 4]:
            A(_blk('Stack_ShiftRegister', [('din', w), ('push', 1), ('pop', 1)], [('dout', w), ('empty', 1), ('full', 1)],
                   lambda p, t, I, O, depth=depth: p.logic.storage.Stack_ShiftRegister(t, 'dut', I[0], O[0], I[1], I[2], O[1], O[2], depth), w=w, depth=depth))
    for msg in ['A', 'AB', 'Hello', 'Hello world!!']:
        def body(p, t, I, O, msg=msg):
            from py4hw.logic.protocol.uart.sequencer import MsgSequencer
            MsgSequencer(t, 'dut', I[0], O[0], O[1], msg)
        A(_blk('MsgSequencer', [('ready', 1)], [('valid', 1), ('v', 8)], body, msg=msg))
    return out


# ------------------------------------------------------------------------------------------------ random netlists
def random_netlists(seed, n):
    """designs.build_random builds into an HWSystem; here the same recipe is built inside a Top with ports"""
    out = []
    for i in range(n):
        def build(p, i=i):
            rng = random.Random(seed * 7919 + i)
            return rebuild_in_top(p, rng)
        out.append(Case('random_netlist[%d]' % i, 'random_netlist', {'seed': seed, 'index': i}, build))
    return out


def rebuild_in_top(p, rng):
    """a random acyclic netlist of library blocks inside a top module with ports; registers close feedback loops"""
    n_in = rng.randint(1, 4); max_w = rng.choice([4, 8, 16]); n_blocks = rng.randint(4, 18)
    ins = [('in%d' % i, rng.randint(1, max_w)) for i in range(n_in)]
    n_out = rng.randint(1, 3)
    plan_rng = random.Random(rng.random())

    def body(t, I, O):
        rg = plan_rng
        pool = list(I)
        cnt = [0]
        def new(w):
            cnt[0] += 1; return t.wire('t%d' % cnt[0], w)
        def pick(): return rg.choice(pool)
        def pick1():
            c = [w for w in pool if w.getWidth() == 1]
            if c: return rg.choice(c)
            a = pick(); r = new(1)
            p.OrBits(t, 'ob%d' % cnt[0], a, r); pool.append(r); return r
        regs = []
        for i in range(rg.randint(0, 3)):
            q = new(rg.randint(1, max_w)); pool.append(q); regs.append(q)
        kinds = ['and2', 'or2', 'xor2', 'not', 'add', 'addc', 'sub', 'mul', 'mux2', 'range', 'bit', 'concat', 'shl', 'shr', 'const', 'sext', 'zext',
                 'neg', 'abs', 'cmp', 'buf', 'eqc', 'andn', 'sel', 'counter', 'delay', 'sign', 'shlv', 'mux4']
        for k in range(n_blocks):
            kind = rg.choice(kinds); n = 'u%d' % k
            a, b = pick(), pick()
            r = None
            if kind in ('and2', 'or2', 'xor2'):
                r = new(rg.choice([a.getWidth(), b.getWidth(), rg.randint(1, max_w)]))
                {'and2': p.And2, 'or2': p.Or2, 'xor2': p.Xor2}[kind](t, n, a, b, r)
            elif kind == 'not': r = new(rg.randint(1, max_w)); p.Not(t, n, a, r)
            elif kind == 'buf': r = new(rg.randint(1, max_w)); p.Buf(t, n, a, r)
            elif kind == 'add': r = new(max(a.getWidth(), b.getWidth())); p.Add(t, n, a, b, r)
            elif kind == 'addc':
                r = new(max(a.getWidth(), b.getWidth())); co = new(1); p.Add(t, n, a, b, r, ci=pick1(), co=co); pool.append(co)
            elif kind == 'sub': r = new(rg.randint(1, max_w)); p.Sub(t, n, a, b, r)
            elif kind == 'mul': r = new(rg.randint(1, max_w)); p.Mul(t, n, a, b, r)
            elif kind == 'neg': r = new(a.getWidth()); p.Neg(t, n, a, r)
            elif kind == 'abs':
                if a.getWidth() < 2: continue
                r = new(a.getWidth()); p.Abs(t, n, a, r)
            elif kind == 'sign':
                if a.getWidth() < 2: continue
                r = new(1); p.Sign(t, n, a, r)
            elif kind == 'mux2': r = new(rg.randint(1, max_w)); p.Mux2(t, n, pick1(), a, b, r)
            elif kind == 'mux4':
                s = [x for x in pool if x.getWidth() == 2]
                if not s: continue
                r = new(a.getWidth()); p.Mux(t, n, rg.choice(s), [a, b, pick(), pick()], r)
            elif kind == 'range':
                if a.getWidth() < 2: continue
                hi = rg.randrange(a.getWidth()); lo = rg.randint(0, hi); r = new(hi - lo + 1); p.Range(t, n, a, hi, lo, r)
            elif kind == 'bit':
                if a.getWidth() < 2: continue
                r = new(1); p.Bit(t, n, a, rg.randrange(a.getWidth()), r)
            elif kind == 'concat':
                r = new(a.getWidth() + b.getWidth()); rg.choice([p.ConcatenateMSBF, p.ConcatenateLSBF])(t, n, [a, b], r)
            elif kind in ('shl', 'shr'):
                r = new(rg.randint(1, max_w)); (p.ShiftLeftConstant if kind == 'shl' else p.ShiftRightConstant)(t, n, a, rg.randint(0, max_w + 1), r)
            elif kind == 'shlv':
                s = pick();
                if s.getWidth() > 3: continue
                r = new(a.getWidth()); rg.choice([p.ShiftLeft, p.ShiftRight])(t, n, a, s, r)
            elif kind == 'const':
                r = new(rg.randint(1, max_w)); p.Constant(t, n, rg.choice([0, 1, -1, 2 ** r.getWidth() - 1, rg.randrange(1 << 12)]), r)
            elif kind == 'sext':
                if a.getWidth() < 2: continue
                r = new(a.getWidth() + rg.randint(1, 4)); p.SignExtend(t, n, a, r)
            elif kind == 'zext': r = new(a.getWidth() + rg.randint(0, 4)); p.ZeroExtend(t, n, a, r)
            elif kind == 'eqc': r = new(1); p.EqualConstant(t, n, a, rg.randrange(1 << a.getWidth()), r)
            elif kind == 'andn':
                xs = [x for x in pool if x.getWidth() == a.getWidth()][:4]; r = new(a.getWidth()); rg.choice([p.And, p.Or, p.Nor])(t, n, xs, r)
            elif kind == 'sel':
                r = new(a.getWidth()); bs = [x for x in pool if x.getWidth() == a.getWidth()][:3]
                p.Select(t, n, [pick1() for _ in bs], bs, r)
            elif kind == 'cmp':
                bs = [x for x in pool if x.getWidth() == a.getWidth() and x is not a]
                if not bs: continue
                gt, eq, lt = new(1), new(1), new(1); p.Comparator(t, n, a, rg.choice(bs), gt, eq, lt); pool.extend([gt, eq]); r = lt
            elif kind == 'counter':
                r = new(rg.randint(1, max_w)); p.Counter(t, n, pick1(), pick1(), r)
            elif kind == 'delay':
                r = new(a.getWidth()); p.DelayLine(t, n, a, rg.choice([None, pick1()]), rg.choice([None, pick1()]), r, rg.randint(1, 3))
            if r is not None: pool.append(r)
        for i, q in enumerate(regs):
            c = [w for w in pool if w.getWidth() == q.getWidth() and w is not q]
            if c: d = rg.choice(c)
            else:
                d = new(q.getWidth()); p.Buf(t, 'rb%d' % i, pick(), d)
            p.Reg(t, 'r%d' % i, d, q, enable=rg.choice([None, pick1()]), reset=rg.choice([None, pick1()]), reset_value=rg.choice([None, 0, 1, (1 << q.getWidth()) - 1, -1, -3]))
        for o in O:
            c = [w for w in pool if w.getWidth() == o.getWidth() and w not in I]
            if c: p.Buf(t, 'o_' + o.name, rg.choice(c), o)
            else: p.Buf(t, 'o_' + o.name, pick(), o)
    outs = [('out%d' % i, rng.randint(1, max_w)) for i in range(n_out)]
    return make_top(p, ins, outs, body)


# ------------------------------------------------------------------------------------------------ behavioural blocks
def behavioural():
    """blocks whose body comes from the Python->Verilog transpiler (module text for behavioural blocks)"""
    out = []
    from props import c03_beh
    for name in c03_beh.CASES:
        out.append(Case('behavioural:' + name, 'behavioural', {'block': name}, lambda p, name=name: c03_beh.build(p, name)))
    return out


def behavioural_names(quick, seed=1):
    """generated transpiled blocks with adversarial port / variable names (header by rtl_generation, body by the transpiler)"""
    from props import c03_beh
    import py4hw.rtl_generation as R
    spec = spec_reserved_words()
    extra = ['logic', 'bit', 'int', 'priority', 'type', 'final', 'local', 'static', 'var', 'string', 'byte', 'unique', 'this', 'new', 'do']
    other = ['w_a', 'i_x', 'reserved_wire', 'reserved_', 'w_', 'a1', 'clk', 'reset', 'rq', 'acc', 't', 'pa', 'state']
    if quick:
        rng = random.Random(seed * 97 + 3)
        words = ['event', 'signed', 'wire', 'reg', 'output', 'time'] + rng.sample(spec, 4) + rng.sample(extra, 4) + rng.sample(other, 5)
        var_words = ['wire', 'reg'] + rng.sample(spec, 2) + rng.sample(extra, 1) + rng.sample(other, 2)
    else:
        words = sorted(set(spec + extra)) + other
        var_words = sorted(set(spec + extra))[::3] + other
    words = list(dict.fromkeys(words)); var_words = list(dict.fromkeys(var_words))
    specs = c03_beh.generated_specs(words, var_words)
    out = []
    for n, kind, args in specs:
        out.append(Case('behavioural_names:' + n, 'behavioural_names', {'case': n, 'kind': kind, 'in': args['pa'], 'en': args['pb'], 'out': args['pr'],
                                                                         'local': args['lv'], 'state': args['sv'], 'attrs': (args['aa'], args['ar'])},
                        lambda p, n=n, specs=specs: c03_beh.build_generated(specs, n)))
    return out


# ------------------------------------------------------------------------------------------------ adversarial
def adversarial(quick):
    out = []
    A = out.append
    spec_reserved = spec_reserved_words()
    words = ['wire', 'reg', 'input', 'output', 'module', 'begin', 'end', 'signed', 'logic', 'bit', 'design', 'uwire', 'always', 'assign'] if quick else sorted(spec_reserved) + ['logic', 'bit', 'int', 'var', 'string']
    # reserved words as port names / local wire names / instance names
    for wd in words:
        def b_port(p, wd=wd):
            return make_top(p, [(wd, 4), ('b', 4)], [('r', 4)], lambda t, I, O: p.And2(t, 'g', I[0], I[1], O[0]))
        A(Case('reserved_port[%s]' % wd, 'adversarial', {'kind': 'reserved_port', 'word': wd}, b_port))
    for wd in words[:: (1 if quick else 4)]:
        def b_wire(p, wd=wd):
            def body(t, I, O):
                x = t.wire(wd, 4); p.And2(t, wd, I[0], I[1], x); p.Not(t, 'n', x, O[0]); y = t.wire('y', 4); p.Add(t, wd + '2', x, I[0], y)
                p.Sub(t, 'reserved_' + wd, y, x, O[1])
            return make_top(p, [('a', 4), ('b', 4)], [('r', 4), ('s', 4)], body)
        A(Case('reserved_wire_inst[%s]' % wd, 'adversarial', {'kind': 'reserved_wire_inst', 'word': wd}, b_wire))
        def b_out(p, wd=wd):
            return make_top(p, [('a', 4)], [(wd, 4), ('reserved_' + wd, 4)], lambda t, I, O: (p.Not(t, 'g', I[0], O[0]), p.Buf(t, 'h', I[0], O[1])))
        A(Case('reserved_port_collision[%s]' % wd, 'adversarial', {'kind': 'reserved_port_collision', 'word': wd}, b_out))
    # reserved words as port names of an INSTANTIATED module (header and connection must agree on the renaming)
    for wd in words[:: (2 if quick else 3)]:
        def b_child(p, wd=wd):
            def body(t, I, O):
                m = t.wire('m', 4)
                make_inner(p, t, 'u0', [(wd, I[0]), ('b', I[1])], [('reg' if wd != 'reg' else 'wire', m)], lambda tt, II, OO: p.And2(tt, 'g', II[0], II[1], OO[0]), clsname='InnerA')
                make_inner(p, t, 'u1', [('input' if wd != 'input' else 'output', m)], [(wd, O[0])], lambda tt, II, OO: p.Not(tt, 'g', II[0], OO[0]), clsname='InnerB')
            return make_top(p, [('a', 4), ('b', 4)], [('r', 4)], body)
        A(Case('reserved_ports_of_child[%s]' % wd, 'adversarial', {'kind': 'reserved_child_port', 'word': wd}, b_child))
    # names colliding after the w_ / i_ prefixes
    def b_w(p):
        def body(t, I, O):
            a = t.wire('a', 4); p.Not(t, 'n', I[0], a); p.Not(t, 'm', a, O[0])
        return make_top(p, [('w_a', 4)], [('r', 4)], body)
    A(Case('collide[w_a port + a wire]', 'adversarial', {'kind': 'collide_w_port'}, b_w))
    def b_w2(p):
        def body(t, I, O):
            a = t.wire('a', 4); p.Not(t, 'n', I[0], a); p.Not(t, 'm', a, O[0])
        return make_top(p, [('x', 4)], [('w_a', 4)], body)
    A(Case('collide[w_a out port + a wire]', 'adversarial', {'kind': 'collide_w_outport'}, b_w2))
    def b_w3(p):
        def body(t, I, O):
            a = t.wire('a', 4); wa = t.wire('w_a', 4); p.Not(t, 'n', I[0], a); p.Not(t, 'm', a, wa); p.Add(t, 'q', a, wa, O[0])
        return make_top(p, [('x', 4)], [('r', 4)], body)
    A(Case('no_collide[wires a and w_a]', 'adversarial', {'kind': 'wires_a_w_a'}, b_w3))
    # names that merely LOOK like generated ones (w_ / i_ / reserved_ prefixes) with nothing to collide with: legal, one declaration each,
    # on the top module and on the ports of an instantiated child (header, body and connection must agree)
    for pin, pout in (('w_data', 'w_q'), ('w_en', 'r'), ('i_data', 'i_q'), ('reserved_x', 'w_reserved_y'), ('w_w_a', 'w_')):
        def b_look(p, pin=pin, pout=pout):
            def body(t, I, O):
                m = t.wire('m', 4); k = t.wire('k', 4)
                p.Not(t, 'n', I[0], m); p.Add(t, 'q', m, I[0], k)
                make_inner(p, t, 'u0', [(pin, k), ('b', I[0])], [(pout, O[0])], lambda tt, II, OO: p.And2(tt, 'g', II[0], II[1], OO[0]), clsname='InnerLook')
            return make_top(p, [(pin, 4)], [(pout, 4)], body)
        A(Case('lookalike[%s,%s]' % (pin, pout), 'adversarial', {'kind': 'lookalike_prefix', 'in': pin, 'out': pout}, b_look))
    # per-instance modules (classes without structureName) whose INSTANCE PATHS collide when flattened with a separator: lane/a_0 vs lane_a/0,
    # u_1/x vs u/1_x ... ; the two objects have different interfaces (widths), so each needs a module of its own
    for (pa, ca), (pb, cb) in ((('lane', 'a_0'), ('lane_a', '0')), (('u', '1_x'), ('u_1', 'x')), (('m', 'm_m'), ('m_m', 'm'))):
        def b_path(p, pa=pa, ca=ca, pb=pb, cb=cb):
            def body(t, I, O):
                def cell(parent, name, i, o):
                    return make_inner(p, parent, name, [('a', i)], [('r', o)], lambda tt, II, OO: p.Not(tt, 'g', II[0], OO[0]), clsname='Cell')
                make_inner(p, t, pa, [('a', I[0])], [('r', O[0])], lambda tt, II, OO: cell(tt, ca, II[0], OO[0]), clsname='Lane')
                make_inner(p, t, pb, [('a', I[1])], [('r', O[1])], lambda tt, II, OO: cell(tt, cb, II[0], OO[0]), clsname='Lane')
            return make_top(p, [('x', 8), ('y', 4)], [('r', 8), ('s', 4)], body)
        A(Case('instance_paths[%s/%s,%s/%s]' % (pa, ca, pb, cb), 'adversarial', {'kind': 'instance_path_collision', 'paths': [[pa, ca], [pb, cb]]}, b_path))
    def b_i(p):
        def body(t, I, O):
            a = t.wire('a', 4); p.Add(t, 'x', I[0], I[0], a); p.Add(t, 'i_x', a, I[0], O[0])
        return make_top(p, [('i_x', 4)], [('r', 4)], body)
    A(Case('prefix[i_x port, instances x and i_x]', 'adversarial', {'kind': 'inst_prefix'}, b_i))
    def b_samewire(p):
        def body(t, I, O):
            a = t.wire('a', 4); b = t.wire('a', 4); p.Not(t, 'n', I[0], a); p.Not(t, 'm', a, b); p.Not(t, 'k', b, O[0])
        return make_top(p, [('x', 4)], [('r', 4)], body)
    A(Case('two_local_wires_same_name', 'adversarial', {'kind': 'same_wire_name'}, b_samewire))
    def b_portwire(p):
        def body(t, I, O):
            a = t.wire('x', 4); p.Add(t, 'n', I[0], I[0], a); p.Add(t, 'm', a, I[0], O[0])
        return make_top(p, [('x', 4)], [('r', 4)], body)
    A(Case('port x + wire x', 'adversarial', {'kind': 'port_and_wire_same_name'}, b_portwire))
    def b_clk(p):
        def body(t, I, O):
            p.Reg(t, 'reg', I[0], O[0])
        return make_top(p, [('clk', 4)], [('q', 4)], body)
    A(Case('data port named clk', 'adversarial', {'kind': 'port_named_clk'}, b_clk))
    def b_instwire(p):
        def body(t, I, O):
            a = t.wire('i_m', 4); p.Add(t, 'w_i_m', I[0], I[0], a); p.Add(t, 'm', a, I[0], O[0])
        return make_top(p, [('x', 4)], [('r', 4)], body)
    A(Case('wire i_m, instances m and w_i_m', 'adversarial', {'kind': 'inst_wire_prefix'}, b_instwire))
    # same block class reused with different optional ports
    for w in ([4] if quick else [2, 4, 8]):
        def b_abs(p, w=w, order=0):
            def body(t, I, O):
                p.Abs(t, 'a0', I[0], O[0]); p.Abs(t, 'a1', I[1], O[1], O[2])
            return make_top(p, [('a', w), ('b', w)], [('r', w), ('s', w), ('inv', 1)], body)
        A(Case('reuse[Abs, Abs+inverted](w=%d)' % w, 'reuse', {'cls': 'Abs', 'w': w, 'first': 'plain'}, b_abs))
        def b_abs2(p, w=w):
            def body(t, I, O):
                p.Abs(t, 'a1', I[1], O[1], O[2]); p.Abs(t, 'a0', I[0], O[0])
            return make_top(p, [('a', w), ('b', w)], [('r', w), ('s', w), ('inv', 1)], body)
        A(Case('reuse[Abs+inverted, Abs](w=%d)' % w, 'reuse', {'cls': 'Abs', 'w': w, 'first': 'inverted'}, b_abs2))
        def b_cnt(p, w=w):
            def body(t, I, O):
                p.Counter(t, 'c0', I[0], I[1], O[0]); p.Counter(t, 'c1', None, I[1], O[1]); p.Counter(t, 'c2', I[0], None, O[2])
            return make_top(p, [('rst', 1), ('inc', 1)], [('q0', w), ('q1', w), ('q2', w)], body)
        A(Case('reuse[Counter optional reset/inc](w=%d)' % w, 'reuse', {'cls': 'Counter', 'w': w}, b_cnt))
        def b_dl(p, w=w):
            def body(t, I, O):
                p.DelayLine(t, 'd0', I[0], I[1], I[2], O[0], 2); p.DelayLine(t, 'd1', I[0], None, None, O[1], 2); p.DelayLine(t, 'd2', I[0], I[1], None, O[2], 3)
            return make_top(p, [('a', w), ('en', 1), ('rs', 1)], [('q0', w), ('q1', w), ('q2', w)], body)
        A(Case('reuse[DelayLine optional en/reset/delay](w=%d)' % w, 'reuse', {'cls': 'DelayLine', 'w': w}, b_dl))
        def b_reg(p, w=w):
            def body(t, I, O):
                p.Reg(t, 'r0', I[0], O[0]); p.Reg(t, 'r1', I[0], O[1], enable=I[1]); p.Reg(t, 'r2', I[0], O[2], reset=I[2]); p.Reg(t, 'r3', I[0], O[3], enable=I[1], reset=I[2], reset_value=3)
                x = t.wire('x', w); p.Reg(t, 'r4', O[3], x, enable=I[1], reset=I[2], reset_value=3); p.Reg(t, 'r5', x, O[4])
            return make_top(p, [('d', w), ('en', 1), ('rs', 1)], [('q0', w), ('q1', w), ('q2', w), ('q3', w), ('q4', w)], body)
        A(Case('reuse[Reg variants](w=%d)' % w, 'reuse', {'cls': 'Reg', 'w': w}, b_reg))
        def b_add(p, w=w):
            def body(t, I, O):
                p.Add(t, 'a0', I[0], I[1], O[0]); p.Add(t, 'a1', I[0], I[1], O[1], ci=I[2]); co = t.wire('co', 1)
                x = t.wire('x', w); p.Add(t, 'a2', I[0], I[1], x, co=co); p.Add(t, 'a3', x, I[1], O[2], ci=co)
                p.SignedAdd(t, 's0', I[0], I[1], O[3]); p.Sub(t, 's1', I[0], I[1], O[4])
            return make_top(p, [('a', w), ('b', w), ('ci', 1)], [('r0', w), ('r1', w), ('r2', w), ('r3', w), ('r4', w)], body)
        A(Case('reuse[Add variants](w=%d)' % w, 'reuse', {'cls': 'Add', 'w': w}, b_add))
        def b_shr(p, w=w):
            def body(t, I, O):
                p.ShiftRight(t, 's0', I[0], I[1], O[0]); p.ShiftRight(t, 's1', I[0], I[1], O[1], arithmetic=True); p.ShiftRight(t, 's2', I[0], I[1], O[2], arithmetic=I[2])
            return make_top(p, [('a', w), ('b', 2), ('ar', 1)], [('r0', w), ('r1', w), ('r2', w)], body)
        A(Case('reuse[ShiftRight logical/arithmetic/wire](w=%d)' % w, 'reuse', {'cls': 'ShiftRight', 'w': w}, b_shr))
        def b_modc(p, w=w):
            def body(t, I, O):
                p.ModuloCounter(t, 'c0', 3, I[0], I[1], O[0], O[1]); p.ModuloCounter(t, 'c1', 2, I[0], I[1], O[2], O[3])
            return make_top(p, [('rst', 1), ('inc', 1)], [('q0', w), ('co0', 1), ('q1', w), ('co1', 1)], body)
        A(Case('reuse[ModuloCounter mod 3 / mod 2](w=%d)' % w, 'reuse', {'cls': 'ModuloCounter', 'w': w}, b_modc))
    # negative reset value (module name `Reg8R_v-1`)
    for rs in [False, True]:
        def b_neg(p, rs=rs):
            return make_top(p, [('d', 6), ('rs', 1)], [('q', 6)], lambda t, I, O: p.Reg(t, 'dut', I[0], O[0], reset=I[1] if rs else None, reset_value=-1))
        A(Case('Reg[reset_value=-1,reset=%s]' % rs, 'adversarial', {'kind': 'negative_reset_value', 'reset': rs}, b_neg))
    # two clock domains
    for first in ['base', 'derived']:
        def b_clk2(p, first=first):
            def body(t, I, O):
                def r_base(): p.Reg(t, 'rb', I[0], O[0])
                def r_der():
                    r = p.Reg(t, 'rd', I[0], O[1]); r.clockDriver = p.ClockDriver('clk_g', 25E6, wire=I[1])
                (r_base(), r_der()) if first == 'base' else (r_der(), r_base())
            return make_top(p, [('d', 8), ('clk_g', 1)], [('q0', 8), ('q1', 8)], body)
        A(Case('two_clock_domains[first=%s]' % first, 'clock', {'kind': 'reg_shared_two_domains', 'first': first}, b_clk2))
    def b_clk3(p):
        def body(t, I, O):
            c = p.Counter(t, 'c0', I[0], I[1], O[0]); c.clockDriver = p.ClockDriver('clk_slow', 1E6, wire=I[2])
        return make_top(p, [('rst', 1), ('inc', 1), ('clk_slow', 1)], [('q0', 8)], body)
    A(Case('one_derived_domain[Counter]', 'clock', {'kind': 'single_derived_domain'}, b_clk3))
    def b_clk4(p):
        def body(t, I, O):
            g = t.wire('cg', 1); p.And2(t, 'gate', I[1], I[1], g)
            r = p.Reg(t, 'rd', I[0], O[0]); r.clockDriver = p.ClockDriver('cg', 25E6, wire=g)
        return make_top(p, [('d', 8), ('ck', 1)], [('q0', 8)], body)
    A(Case('derived_domain_on_local_wire', 'clock', {'kind': 'derived_on_local_wire'}, b_clk4))
    # nested hierarchy with shared structures
    def b_nest(p):
        def body(t, I, O):
            def inner(tt, II, OO):
                x = tt.wire('x', 8); p.Add(tt, 'add', II[0], II[1], x); p.Reg(tt, 'reg', x, OO[0])
            class Inner(p.Logic):
                def __init__(self, parent, name, a, b, r):
                    super().__init__(parent, name)
                    a = self.addIn('a', a); b = self.addIn('b', b); r = self.addOut('r', r); inner(self, [a, b], [r])
                def structureName(self): return 'Inner8'
            m = t.wire('m', 8)
            Inner(t, 'u0', I[0], I[1], m); Inner(t, 'u1', m, I[1], O[0])
        return make_top(p, [('a', 8), ('b', 8)], [('r', 8)], body)
    A(Case('nested_shared_structure', 'hierarchy', {'kind': 'nested_shared'}, b_nest))
    return out


# ------------------------------------------------------------------------------------------------ generator reuse
def generator_reuse(quick):
    """ONE VerilogGenerator object asked for several texts in sequence: different tops sharing library modules (Reg<w>, Add<w>,
    Counter internals), the same top twice, getVerilog and getVerilogForHierarchy interleaved, a block that is not the generator's
    own (`VerilogGenerator(top_a).getVerilogForHierarchy(obj=other)`), a sub-block of the hierarchy.  Every returned text is a
    program of its own.  (No explicit createdStructures list: sharing one is a known finding of C19.)"""
    out = []
    for w in ([8] if quick else [1, 4, 8, 16]):
        for variant in (0, 1):
            state = {}
            def setup(p, w=w, variant=variant, state=state):
                if state: return
                def body_a(t, I, O):
                    x = t.wire('x', w); y = t.wire('y', w)
                    p.Add(t, 'add', I[0], I[1], x); p.Reg(t, 'reg', x, y); p.Reg(t, 'rege', y, O[0], enable=I[2])
                    state['cnt'] = p.Counter(t, 'cnt', I[2], I[2], O[1])
                def body_b(t, I, O):
                    x = t.wire('x', w); p.Reg(t, 'r0', I[0], x); p.Add(t, 'a0', x, I[0], O[0]); p.Sub(t, 's0', x, I[0], O[1])
                    state['abs'] = p.Abs(t, 'abs', x, O[2])
                state['A'] = make_top(p, [('a', w), ('b', w), ('en', 1)], [('q', w), ('c', w)], body_a, clsname='TopA')
                state['B'] = make_top(p, [('a', w)], [('r', w), ('s', w), ('m', w)], body_b, clsname='TopB')
                state['g'] = p.VerilogGenerator(state['A'])
            steps = [('hier', 'A', None), ('hier', 'A', None), ('single', 'A', None), ('hier', 'B', 'B'), ('hier', 'A', 'A'), ('hier', 'cnt', 'cnt'),
                     ('single', 'B', 'B'), ('hier', 'B', 'B'), ('hier', 'abs', 'abs'), ('hier', 'A', None)]
            if variant == 1:      # start on a block that is not the generator's own, then alternate
                steps = [('hier', 'B', 'B'), ('hier', 'A', None), ('hier', 'B', 'B'), ('single', 'cnt', 'cnt'), ('hier', 'cnt', 'cnt'), ('hier', 'A', 'A')]
            for k, (mode, which, arg) in enumerate(steps):
                def build(p, which=which, setup=setup, state=state):
                    setup(p); return state[which]
                def emit(p, top, mode=mode, arg=arg, state=state):
                    g = state['g']
                    obj = None if arg is None else state[arg]
                    with quiet():
                        return g.getVerilogForHierarchy(obj=obj) if mode == 'hier' else g.getVerilog(obj=obj)
                c = Case('generator_reuse[w=%d,v=%d,call %d: %s(%s)]' % (w, variant, k, 'getVerilogForHierarchy' if mode == 'hier' else 'getVerilog', arg or ''),
                         'generator_reuse', {'w': w, 'variant': variant, 'call': k, 'mode': mode, 'obj': arg or 'default'}, build)
                c.emit, c.mode = emit, mode
                out.append(c)
    return out


# ------------------------------------------------------------------------------------------------ variants of existing cases
def variant(case, tag, xf, cls):
    """the same design with a transform xf(p, ins, outs, body) -> (ins, outs, body) applied to its top"""
    def build(p, case=case, xf=xf):
        del _XF[:]
        _XF.append(xf)
        try:
            return case.build(p)
        finally:
            del _XF[:]
    params = dict(case.params); params['base'] = case.cls; params['variant'] = tag
    return Case('%s<%s>' % (case.id, tag), cls, params, build)


class NotApplicable(Exception):
    pass


def xf_own_domain(kind):
    """every clocked block instantiated in the top gets its OWN clock domain (`blk.clockDriver = ClockDriver('dom_clk', wire=...)`):
    the wire is an extra input port of the top (kind 'port') or a local wire derived from it (kind 'local').  The header of the
    block's module, its body (BodyReg / verilogBody / transpiled always block / nested structure) and the instance connection must
    agree on the clock name."""
    def xf(p, ins, outs, body):
        def body2(t, I, O):
            body(t, I[:-1], O)
            gen = p.VerilogGenerator(t)
            clocked = [c for c in t.children.values() if gen.anyClockableDescendant(c)]
            if not clocked: raise NotApplicable('no clocked block')
            w = I[-1]
            if kind == 'local':
                w = t.wire('cg', 1); p.Buf(t, 'ckbuf', I[-1], w)
            for c in clocked:
                c.clockDriver = p.ClockDriver('dom_clk', 25E6, wire=w)
        return ins + [('ckdom', 1)], outs, body2
    return xf


def xf_alias_outputs(which):
    """one wire handed to TWO outputs of the block (the first / last pair of outputs of equal width).  py4hw must refuse the design
    (constructor raises: not a program) or the text it returns must still have one driver per net."""
    def xf(p, ins, outs, body):
        pairs = [(i, j) for i in range(len(outs)) for j in range(i + 1, len(outs)) if outs[i][1] == outs[j][1]]
        if not pairs: raise NotApplicable('no two outputs of equal width')
        i, j = pairs[0] if which == 'first' else pairs[-1]
        def body2(t, I, O):
            L = [t.wire('l_%d' % k, o.getWidth()) for k, o in enumerate(O)]
            L[j] = L[i]
            body(t, I, L)
            for k, o in enumerate(O):
                p.Buf(t, 'ob%d' % k, L[k], o)
        return ins, outs, body2
    return xf


SEQUENTIAL = ['Reg', 'TReg', 'Counter', 'StepUpCounter', 'ModuloCounter', 'DelayLine', 'PipelinePhase', 'EdgeDetector', 'SynchronousMemory',
              'DualPortSynchronousMemory', 'Stack_ShiftRegister', 'MsgSequencer', 'behavioural', 'behavioural_names']


def own_domain(base_cases, quick):
    """clocked blocks (library, body-providing, transpiled) in their own clock domain"""
    out = []
    per = {}
    for c in base_cases:
        if c.cls not in SEQUENTIAL: continue
        per[c.cls] = per.get(c.cls, 0) + 1
        if quick and per[c.cls] > (3 if c.cls != 'behavioural' else 99): continue
        for kind in (['port'] if quick and per[c.cls] > 1 else ['port', 'local']):
            out.append(variant(c, 'own clock domain on a %s' % kind, xf_own_domain(kind), 'own_domain'))
    return out


def aliased_outputs(base_cases, quick):
    out = []
    per = {}
    for c in base_cases:
        if c.cls in ('random_netlist', 'adversarial', 'reuse', 'clock', 'hierarchy', 'generator_reuse', 'behavioural_names'): continue
        per[c.cls] = per.get(c.cls, 0) + 1
        if quick and per[c.cls] > 2: continue
        for which in ('first', 'last'):
            out.append(variant(c, 'one wire on two outputs (%s pair)' % which, xf_alias_outputs(which), 'aliased_outputs'))
    return out


# ------------------------------------------------------------------------------------------------ generate - mutate - generate
def _structural_scopes(p, top):
    """the objects emitted as structural modules, top first"""
    gen = p.VerilogGenerator(top)
    out = []
    def walk(o):
        if o.isPrimitive() or gen.isInlinable(o) or gen.isProvidingBody(o): return
        out.append(o)
        for ch in o.children.values(): walk(ch)
    walk(top)
    return out


def mut_tap(where):
    """expose an internal wire of a structural scope (the top / the first child that has one) on a new output port"""
    def m(p, top):
        import py4hw.rtl_generation as R
        scopes = _structural_scopes(p, top)
        # a block that names its module itself (structureName) shares it with its siblings: tapping ONE instance would break that contract
        scopes = scopes[:1] if where == 'top' else [o for o in scopes[1:] if not hasattr(o, 'structureName')]
        for o in scopes:
            loc = [w for w in R.collectLocalWires(o) if isinstance(w, p.Wire)]
            if loc:
                w = sorted(loc, key=lambda x: x.name)[0]
                o.addOut('dbg_tap', w)
                return 'tap %s of %s' % (w.name, o.name)
        raise NotApplicable('no internal wire')
    return m


def mut_add_child(p, top):
    """new blocks, a new local wire and a new output port in the top"""
    src = top.inPorts[0].wire if top.inPorts else top.outPorts[0].wire
    w = src.getWidth()
    m = top.wire('extra_m', w); n = top.wire('extra_n', w)
    p.Not(top, 'extra_g0', src, m); p.Add(top, 'extra_add', m, src, n)
    top.addOut('extra_o', n)
    return 'added Not + Add + port extra_o'


def mut_rename(p, top):
    """rename an internal wire of the first structural scope that has one"""
    import py4hw.rtl_generation as R
    for o in _structural_scopes(p, top):
        loc = [w for w in R.collectLocalWires(o) if isinstance(w, p.Wire) and w.parent is o]
        if loc:
            w = sorted(loc, key=lambda x: x.name)[0]
            w.rename(w.name + '_rn')
            return 'renamed a wire of %s' % o.name
    raise NotApplicable('no internal wire')


MUTATIONS = [('tap@child', mut_tap('child')), ('tap@top', mut_tap('top')), ('add_child', mut_add_child), ('rename_wire', mut_rename)]


def regenerate(base_cases, quick):
    """HISTORY: generate the hierarchy, change the live design (MUTATIONS), generate again with the same or with a fresh
    VerilogGenerator: the second text must be well formed (it is decided like every other text).  Nothing of the first
    generation (name tables, emitted-module lists) may leak into the second."""
    out = []
    seen = {}
    k = 0
    for c in base_cases:
        if c.cls in ('adversarial', 'clock', 'generator_reuse', 'behavioural_names', 'own_domain', 'aliased_outputs'): continue
        seen[c.cls] = seen.get(c.cls, 0) + 1
        if seen[c.cls] > (12 if c.cls == 'random_netlist' else (1 if quick else 3)): continue
        muts = MUTATIONS if (c.cls in ('random_netlist', 'reuse') or not quick) else [MUTATIONS[k % 4], MUTATIONS[(k + 1) % 4]]
        for name, mut in muts:
            k += 1
            fresh = (k % 2 == 0)
            def emit(p, top, mut=mut, fresh=fresh):
                with quiet():
                    g = p.VerilogGenerator(top)
                    g.getVerilogForHierarchy()
                    mut(p, top)
                    g2 = p.VerilogGenerator(top) if fresh else g
                    return g2.getVerilogForHierarchy()
            params = dict(c.params); params.update(base=c.cls, mutation=name, generator='fresh' if fresh else 'same')
            v = Case('%s<generate, %s, generate with %s generator>' % (c.id, name, 'a fresh' if fresh else 'the same'), 'regenerate', params, c.build)
            v.emit = emit
            out.append(v)
    return out
