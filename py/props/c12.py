"""C12 — number-format helpers are bit-exact and arithmetically exact.
Proof:  Properties/C12.v.  IntegerHelper.signed_to_c2 / c2_to_signed and signExtend are REGENERATED (Gen/Helpers.v);
        FixedPoint, pack/unpack, FPNum and FloatingPointHelper are hand models (Model/HelperInt.v, FPNum.v, FPHelper.v).
Tie:    (a) regeneration; (b) T-corr: the real functions and the models are evaluated on the same structured inputs, the
        comparison runs inside Coq (coq/Cases/C12_*.v, comparators in Proofs/C12/CaseLib.v) together with the Spec column.
Search / oracle: the same structured sweep, much larger, against independent oracles (struct, fractions.Fraction, int
        arithmetic): all 2^16 half patterns, exponent x mantissa-boundary x sign patterns of single/double, ties and
        neighbours for the double->single rounding, structured operand pairs for the FPNum arithmetic, exhaustive small
        fixed-point formats.  A discrepancy that matches a `known` entry of known_findings/C12.json prints KNOWN-FINDING,
        anything else is a VIOLATION whose replay file names the op and its arguments (./check --replay re-runs it)."""
import json, math, random, time
import common
from common import blit
from props import c12_ops as ops
from props import c12_gen as gen
from props import c12_ambient as amb
from props.c12_ops import FMT, BITS

def zlit(n):
    """Z literal; hexadecimal for large values (Coq parses long decimal literals slowly)"""
    n = int(n)
    t = ('0x%x' % abs(n)) if abs(n) >= 4096 else '%d' % abs(n)
    return t if n >= 0 else '(-%s)' % t


NEEDED = ['IntegerHelper_signed_to_c2', 'IntegerHelper_c2_to_signed', 'signExtend']
FIDX = {'hp': 0, 'sp': 1, 'dp': 2}


# ------------------------------------------------------------------ known findings (narrow signatures)
def classify(d):
    """finding id if the discrepancy d = {op, args, observed, expected} has the signature of a recorded defect"""
    op, a, obs, exp = d['op'], d['args'], d['observed'], d['expected']
    # TOFLOAT-CTX: FPNum.to_float computes with Decimal in the caller's context: wrong once the precision is below what a double needs
    if str(d.get('ambient', '')).startswith('decimal:') and int(d['ambient'].split(':')[1]) < 28:
        if op == 'fpnum_to_float': return 'C12-TOFLOAT-CTX'
        if op == 'fpnum_from_float' and isinstance(obs, list) and isinstance(exp, list) and obs[0] == exp[0] and obs[2] == exp[2]: return 'C12-TOFLOAT-CTX'
    if d.get('ambient'): return None
    # 16: sp_to_ieee754_parts returns (0,0,0) for every zero: the sign of -0.0 is lost (single precision only)
    if op in ('fph_encode', 'fph_encode_parts', 'fph_stored') and (a[0] == 'sp' or op == 'fph_stored'):
        xh = a[-1]
        x = float.fromhex(xh)
        if x == 0 and math.copysign(1, x) < 0 and obs in (0, [0, 0, 0], [0, 0, 1]): return 'C12-16'
    if op == 'fph_round_trip' and a == ['sp', 0x80000000] and obs == 0: return 'C12-16'
    # 21: FPNum.from_ieee754_hp gives half subnormals the exponent -16 instead of -14: a quarter of the value
    if op in ('fpnum_decode', 'fpnum_round_trip', 'fpnum_cross') and a[0] == 'hp' and ops.is_subnormal_pattern('hp', a[1]):
        v = a[1]; x = ops.bits_to_float('hp', v) / 4      # exact in double
        if op == 'fpnum_decode' and obs == ops.xfloat(x): return 'C12-21'
        if op == 'fpnum_round_trip' and obs == (v & 0x8000) | ((v & 0x3FF) >> 2): return 'C12-21'
        if op == 'fpnum_cross' and obs == ops.float_to_bits(a[2], x): return 'C12-21'
    # 23: FixedPoint with no integer bits: 1 << (iw-1) raises
    if op in ('fx', 'fx_from_int', 'fx_from_float', 'fx_to_float'):
        iw = a[2] if op == 'fx' else a[1]
        if iw == 0 and obs == 'raise ValueError: negative shift count': return 'C12-23'
    # CONVERT-CARRY: convert() of an object whose mantissa carried (m = 2p, left by reducePrecisionWithRounding) at the top of the subnormal range:
    # the value is the smallest normal number, convert() classifies it as subnormal and packs a mantissa of 2^mw, which the field mask turns into 0
    if op == 'fpnum_object_history' and isinstance(obs, list) and isinstance(exp, list) and len(obs) == len(exp) \
            and any(st[0] == 'reducePrecisionWithRounding' for st in a[2]):
        diffs = [(o, e) for o, e in zip(obs, exp) if o != e]
        MIN_NORMAL = {'dp': 1 << 52, 'sp': 1 << 23, 'hp': 1 << 10}; SIGN = {'dp': 1 << 63, 'sp': 1 << 31, 'hp': 1 << 15}
        if diffs and all(isinstance(o, list) and isinstance(e, list) and o[0] == 'convert' and e[0] == 'convert' and o[1] == e[1]
                         and isinstance(o[2], int) and (e[2] & ~SIGN[e[1]]) == MIN_NORMAL[e[1]] and (o[2] & ~SIGN[o[1]]) == 0 for o, e in diffs):
            return 'C12-CONVERT-CARRY'
    if op == 'reduce_exp' and isinstance(obs, str) and obs.startswith('raise NameError') and "'e_mask'" in obs: return 'C12-REDUCE-EXP'
    if op == 'fpnum_compare':
        xa, xb = ops.desc_x(a[0]), ops.desc_x(a[1])
        if isinstance(xa, list) and isinstance(xb, list) and xa[1] == 0 and xb[1] == 0 and xa[0] != xb[0] and exp == 0 \
                and obs == (-1 if xa[0] else 1): return 'C12-CMP-ZERO'
        if xa == '-inf' and xb == '+inf' and obs == 1 and exp == -1: return 'C12-CMP-INF'
    return None


class Sweep:
    """runs ops, collects discrepancies; the first one per (op, finding-or-None) is kept in full"""
    def __init__(self, ctx, H):
        self.ctx, self.H = ctx, H
        self.disc = {}          # key -> first discrepancy
        self.ndisc = {}
        self.n = 0

    def run(self, name, args, key=None):
        obs, exp = ops.call(self.H, name, args)
        self.n += 1
        self.ctx.count((name, key) if key is not None else None)
        if obs != exp:
            d = {'op': name, 'args': json.loads(json.dumps(list(args))), 'observed': obs, 'expected': exp}
            fid = classify(d)
            k = (name, fid)
            self.ndisc[k] = self.ndisc.get(k, 0) + 1
            if k not in self.disc: self.disc[k] = d
        return obs

    def add(self, d, tag):
        fid = classify(d)
        k = (d['op'] + '@' + tag, fid)
        self.ndisc[k] = self.ndisc.get(k, 0) + 1
        if k not in self.disc: self.disc[k] = d

    def report(self):
        """known -> KNOWN-FINDING line; anything else -> VIOLATION.  returns number of violations"""
        status = {f['id']: f for f in self.ctx.known}
        nv = 0
        per_finding = {}
        for (name, fid), d in sorted(self.disc.items(), key=lambda kv: (kv[0][0], str(kv[0][1]))):
            if fid is not None and status.get(fid, {}).get('status') == 'known':
                per_finding.setdefault(fid, []).append((name, self.ndisc[(name, fid)], d))
                continue
            rp = dict(d); rp['what'] = 'py4hw helper disagrees with its reference (%s)' % name
            rp['count_in_this_sweep'] = self.ndisc[(name, fid)]
            if fid is not None: rp['matches_finding_marked_fixed'] = fid
            rp['replay_hint'] = './check --replay <this file>  re-runs op(args) on /repo and prints observed / expected'
            self.ctx.violation(rp); nv += 1
        for fid, lst in sorted(per_finding.items()):
            f = status[fid]
            self.ctx.known_finding(fid, '%s %s [seen: %s]' % (fid, f['text'], ', '.join('%s x%d' % (n, c) for n, c, _ in lst)))
        self.ctx.notes['discrepancies'] = {'%s/%s' % k: v for k, v in self.ndisc.items()}
        return nv


# ------------------------------------------------------------------ the oracle sweep (= search)
def oracle_sweep(ctx, H, rng):
    sw = Sweep(ctx, H)
    q = ctx.quick
    # two's complement, signExtend
    for (v, w) in gen.c2_cases(rng, q):
        sw.run('signed_to_c2', (v, w), (w, min(abs(v), 99)))
        sw.run('c2_to_signed', (v, w))
        if -(1 << (w - 1)) <= v < (1 << (w - 1)): sw.run('c2_round_trip', (v, w))
        if 0 <= v < (1 << w): sw.run('c2_converse', (v, w))
    for (v, w, nw) in gen.sext_cases(rng, q):
        sw.run('signExtend', (v, w, nw), (w, nw, min(abs(v), 99)))
    ctx.log('integer helpers: %d evaluations' % sw.n)
    # fixed point
    for (s_, iw, fw, a, b) in gen.fx_cases(rng, q):
        for which in ('add', 'sub', 'mult'):
            sw.run('fx', (which, s_, iw, fw, a, b), (which, s_, iw, fw, a % 64, b % 64))
    for (s_, iw, fw) in gen.fx_formats_small(q) + gen.FX_BIG + gen.FX_NO_INT_BITS:
        hi = (1 << iw) >> 1
        vs = set(range(0, min(hi, 20) + 1)) | {hi - 1, hi, hi // 2, hi // 3}
        if s_: vs |= {-v for v in vs}
        for v in sorted(vs):
            r = ops.call(H, 'fx_from_int', (s_, iw, fw, v))
            if isinstance(r[0], str) and r[0].startswith('raise Exception'): continue      # documented range errors
            sw.run('fx_from_int', (s_, iw, fw, v), (s_, iw, fw, v))
        w = s_ + iw + fw
        if w <= 53:
            for raw in sorted({0, 1, (1 << w) - 1, 1 << (w - 1), (1 << (w - 1)) - 1, rng.randrange(1 << w), rng.randrange(1 << w)}):
                sw.run('fx_to_float', (s_, iw, fw, raw), (s_, iw, fw, raw))
            for x in (0.0, -0.0, 0.5, 1.0, 0.75, -0.75, 1.2, -1.2, 0.0000002, -2.5, 19.018951416015625, (1 << iw) - 0.5, rng.uniform(-1, 1) * (1 << iw) / 2):
                if x < 0 and s_ == 0: continue
                sw.run('fx_from_float', (s_, iw, fw, float(x).hex()), (s_, iw, fw, float(x).hex()))
    for (s_, iw, fw) in gen.FX_NO_INT_BITS:                    # finding #23: formats without integer bits
        w = s_ + iw + fw
        vals = list(range(1 << w)) if w <= 4 else sorted({0, 1, (1 << w) - 1, 1 << (w - 1), (1 << (w - 1)) - 1, 3 << (w - 3), rng.randrange(1 << w), rng.randrange(1 << w)})
        for a in vals:
            for b in vals:
                for which in ('add', 'sub', 'mult'):
                    sw.run('fx', (which, s_, iw, fw, a, b), (which, s_, iw, fw, a % 64, b % 64))
    ctx.log('fixed point: %d evaluations so far' % sw.n)
    # bit patterns of the three formats
    for fmt in ('hp', 'sp', 'dp'):
        ew, mw, _, _ = FMT[fmt]
        wider = {'hp': ('sp', 'dp'), 'sp': ('dp',), 'dp': ()}[fmt]
        for v in gen.patterns(fmt, rng, q):
            s_, e, m = ops.fields(fmt, v)
            key = (fmt, s_, e, m) if fmt == 'hp' else (fmt, s_, e, m.bit_length(), m & 3)
            sw.run('fpnum_unpack', (fmt, v), key)
            sw.run('fpnum_pack_unpack', (fmt, v))
            sw.run('fpnum_decode', (fmt, v))
            sw.run('fpnum_round_trip', (fmt, v))
            for dst in wider: sw.run('fpnum_cross', (fmt, v, dst))
            x = ops.bits_to_float(fmt, v)
            sw.run('fpnum_convert', (fmt, x.hex() if not math.isnan(x) else 'nan'))
            if fmt != 'hp':
                sw.run('fph_unpack', (fmt, v))
                sw.run('fph_decode', (fmt, v))
                sw.run('fph_round_trip', (fmt, v))
            if fmt == 'dp' or (v & 7) == 1 or e in (0, 1, (1 << ew) - 2):
                sw.run('fpnum_from_float', (x.hex() if not math.isnan(x) else 'nan',))
        ctx.log('%s patterns done: %d evaluations so far' % (fmt, sw.n))
    # pack of arbitrary (unreduced) integers
    for fmt in ('hp', 'sp', 'dp'):
        ew, mw, _, _ = FMT[fmt]
        for (s_, e, m) in [(0, 0, 0), (1, (1 << ew) - 1, (1 << mw) - 1), (2, 1 << ew, 1 << mw), (3, (1 << ew) + 1, (1 << mw) + 5), (-1, -1, -1),
                           (1, -2, -(1 << mw) - 1)] + [(rng.randrange(-4, 5), rng.randrange(-(1 << (ew + 1)), 1 << (ew + 1)), rng.randrange(-(1 << (mw + 1)), 1 << (mw + 1))) for _ in range(20)]:
            sw.run('fpnum_pack', (fmt, s_, e, m), (fmt, s_, e % 7, m % 7))
            if fmt == 'sp': sw.run('fph_pack_sp', (s_, e, m))
    for v in (0, 0x80000000, 0x3F800000, 0xFFFFFFFF, 0x7F800000, rng.getrandbits(32)):
        sw.run('fph_sp_neg', (v,), ('neg', v))
    # double -> single / double encodings
    for fmt in ('sp', 'dp'):
        xs = gen.encode_floats(fmt, rng, q)
        if fmt == 'dp':
            xs = xs + [ops.bits_to_float('dp', v) for v in gen.tie_patterns('dp', rng, 400)]
        for x in xs:
            xh = x.hex() if not math.isnan(x) else 'nan'
            sw.run('fph_encode', (fmt, xh), (fmt, xh))
            sw.run('fph_encode_parts', (fmt, xh))
            if not (math.isnan(x) or math.isinf(x)):
                sw.run('fp_to_parts', (xh,), ('parts', xh))
                sw.run('sp_to_fixed_point_parts', (xh,))
            if fmt == 'sp' and not math.isnan(x) and abs(x) < 3.4028235677973366e38:
                sw.run('fph_stored', (xh,))
        ctx.log('%s encodings done: %d evaluations so far' % (fmt, sw.n))
    # object histories: reads before and after in-place reductions on ONE object
    for fmt in ('hp', 'sp', 'dp'):
        for v in gen.tie_patterns(fmt, rng, 12 if q else 80):
            for k in (0, 1, 3, 8, 20):
                for red in ('reducePrecision', 'reducePrecisionWithRounding'):
                    for script in ([['to_float'], [red, k], ['to_float'], ['convert', 'dp']],
                                   [['convert', 'dp'], ['to_float'], [red, k + 2], ['convert', 'dp'], ['to_float'], [red, k], ['to_float']]):
                        sw.run('fpnum_object_history', (fmt, v, script), ('objhist', fmt, red, k, len(script)))
    ctx.log('object histories done: %d evaluations so far' % sw.n)
    # FPNum arithmetic on structured pairs
    pool = gen.arith_pool(rng, q)
    for da in pool:
        for db in pool:
            for which in ('add', 'sub', 'mul'):
                sw.run('fpnum_arith', (which, da, db), (which, json.dumps(da), json.dumps(db)))
            sw.run('fpnum_compare', (da, db), ('cmp', json.dumps(da), json.dumps(db)))
    ctx.log('arithmetic done: %d evaluations so far' % sw.n)
    for x in (1.5, -1.5, 0.1, 3.0e38, 3.5e38, 1.0e39, 2.0 ** 127, 2.0 ** 128, 2.0 ** -126, 2.0 ** -127, 1.0e-40, -1.0e-45, 2.0 ** 15, 2.0 ** 16, 65504.0,
              2.0 ** -14, 2.0 ** -15, 1.0e300, 1.0e-300, 5e-324, 1.7976931348623157e308):
        for prec in (5, 8, 11):
            sw.run('reduce_exp', (float(x).hex(), prec), ('reduce_exp', x, prec))
    return sw


# ------------------------------------------------------------------ ambient-state family
def ambient_family(ctx, H, sw):
    """the helpers must give the same results whatever numeric state the process is in: perturbed decimal context, and after one
    instance of every library block has been constructed (a constructor that leaks state shows up here with its name)"""
    import decimal
    rng = random.Random(ctx.seed * 7919 + 12)
    cases = amb.sample_cases(rng)
    clean_state = amb.numeric_state()
    base = amb.evaluate(H, cases)
    canary_base = amb.evaluate(H, amb.CANARY)
    def compare(tag, kind, res):
        for (name, args), (o, e), (o0, e0) in zip(cases, res, base):
            ctx.count(('ambient', tag, name, json.dumps(args, default=str)))
            if o != o0:
                sw.add({'op': name, 'args': json.loads(json.dumps(list(args))), 'observed': o, 'expected': e, 'ambient': tag,
                        'observed_on_clean_process_state': o0}, kind)
    for prec, rounding in ((9, 'ROUND_HALF_EVEN'), (5, 'ROUND_DOWN'), (28, 'ROUND_UP'), (60, 'ROUND_HALF_EVEN')):
        with amb.perturbed_decimal(prec, rounding):
            res = amb.evaluate(H, cases)
        compare('decimal:%d:%s' % (prec, rounding), 'decimal', res)
    saved = decimal.getcontext().copy()
    changed = []
    try:
        built, failed, leaks = amb.build_blocks(H, rng, canary_base, changed.append)
        res = amb.evaluate(H, cases)
        state_after = amb.numeric_state()
    finally:
        decimal.setcontext(saved)
    compare('after constructing library blocks (results first change after: %s)' % (changed[0] if changed else 'none'), 'blocks', res)
    ctx.notes['ambient'] = {'sample_cases': len(cases), 'blocks_built': len(built), 'blocks_not_buildable': failed[:20],
                            'numeric_state_clean': clean_state, 'numeric_state_after_blocks': state_after,
                            'constructors_that_changed_numeric_state': [l for l, _ in leaks][:10], 'results_first_change_after': changed[:3]}


# ------------------------------------------------------------------ correspondence inside Coq (tie + spec column)
def fp_lit(c):
    s, e, m, p, inf, nan = c
    return '(mkfp %s %s %s %s %s %s)' % (zlit(s), zlit(e), zlit(m), zlit(p), blit(inf), blit(nan))

def pf_lit(x):
    if math.isnan(x): return 'PNaN'
    if math.isinf(x): return '(PInf %s)' % blit(x < 0)
    n, d = abs(x).as_integer_ratio()
    return '(PFin %s %s %d)' % (blit(math.copysign(1, x) < 0), zlit(n), d.bit_length() - 1)

def t3(t): return '(%s, %s, %s)' % tuple(zlit(x) for x in t)

def exc(f):
    try: return f()
    except Exception: return -1


def coq_tie(ctx, H, rng, probes):
    """returns list of (family, kind, case) for every index Coq reports; kind in {'tie','prop'}"""
    q = ctx.quick
    I, FP, FX, F = H.IntegerHelper, H.FPNum, H.FixedPoint, H.FloatingPointHelper
    fam = {}       # name -> (checker term, [coq literal], [python description])
    def add(name, chk, lit, desc):
        fam.setdefault(name, (chk, [], []))
        fam[name][1].append(lit); fam[name][2].append(desc)
    n_small = 1 if q else 3
    # two's complement / signExtend (subsample of the generator: every small width, boundaries of the large ones)
    cs = gen.c2_cases(rng, True)
    for (v, w) in cs[::max(1, len(cs) // (350 * n_small))]:
        add('c2', 'chk_c2', '(%s, %d, %s, %s)' % (zlit(v), w, zlit(I.signed_to_c2(v, w)), zlit(I.c2_to_signed(v, w))), ('c2', v, w))
    cs = gen.sext_cases(rng, True)
    for (v, w, nw) in cs[::max(1, len(cs) // (300 * n_small))]:
        add('sext', 'chk_sext', '(%s, %d, %d, %s)' % (zlit(v), w, nw, zlit(H.signExtend(v, w, nw))), ('signExtend', v, w, nw))
    # fixed point
    fxs = [c for c in gen.fx_cases(rng, True)]
    fxs = fxs[::max(1, len(fxs) // (400 * n_small))] + [(s_, iw, fw, a, b) for (s_, iw, fw) in gen.FX_NO_INT_BITS if s_ + iw + fw >= 1 for (a, b) in ((0, 0), (1, 1), ((1 << (s_ + iw + fw)) - 1, 1 << (s_ + iw + fw - 1)), (3, (1 << (s_ + iw + fw)) - 2))]
    for (s_, iw, fw, a, b) in fxs:
        def r(which):
            A = FX.fromRawValue(s_, iw, fw, a); B = FX.fromRawValue(s_, iw, fw, b)
            return getattr(A, which)(B).v
        add('fx', 'chk_fx %s' % blit(probes['fx_iw0']), '(%d, %d, %d, %s, %s, %s, %s, %s)' % (s_, iw, fw, zlit(a), zlit(b), zlit(exc(lambda: r('add'))), zlit(exc(lambda: r('sub'))), zlit(exc(lambda: r('mult')))),
            ('fx', s_, iw, fw, a, b))
    for (s_, iw, fw) in [(1, 3, 4), (0, 3, 4), (1, 16, 16), (1, 1, 0), (0, 1, 2), (1, 0, 3), (0, 0, 4)]:
        for v in (0, 1, -1, 2, 4, 5, -4, -5, 1 << 15, (1 << 15) + 1):
            add('fx_int', 'chk_fx_int %s' % blit(probes['fx_iw0']), '(%d, %d, %d, %s, %s)' % (s_, iw, fw, zlit(v), zlit(exc(lambda: FX(s_, iw, fw, v).v))), ('fx_int', s_, iw, fw, v))
        if iw == 0 and not probes['fx_iw0']: continue
        for x in (0.0, -0.0, 0.5, -0.5, 1.2, -1.2, 0.0000002, 2.5, -2.5, 3.999, 0.3e-3, 19.018951416015625, -7.9999, math.inf, math.nan):
            raw = exc(lambda: FX(s_, iw, fw, x).v)
            num = 0
            if raw != -1:
                back = FX.fromRawValue(s_, iw, fw, raw).toFloatingPoint()
                fr = ops.Fraction(back) * (1 << fw)
                assert fr.denominator == 1
                num = fr.numerator
            add('fx_float', 'chk_fx_float', '(%d, %d, %d, %s, %s, %s)' % (s_, iw, fw, pf_lit(x), zlit(raw), zlit(num)), ('fx_float', s_, iw, fw, x.hex() if x == x else 'nan'))
    # patterns
    for fmt in ('hp', 'sp', 'dp'):
        k = FIDX[fmt]
        pats = gen.tie_patterns(fmt, rng, 260 * n_small)
        for v in pats:
            sem = getattr(FP, 'unpack_ieee754_%s_parts' % fmt)(v)
            pk = getattr(FP, 'pack_ieee754_%s_parts' % fmt)(*sem)
            hsem = getattr(F, 'unpack_ieee754_%s_parts' % fmt)(v) if fmt != 'hp' else (v >> 15, sem[1], sem[2])
            add('pack', 'chk_pack', '(%d, %s, %s, %s, %s)' % (k, zlit(v), t3(sem), zlit(pk), t3(hsem)), ('pack', fmt, v))
            n = FP(v, fmt)
            add('decode', 'chk_decode (%s)' % zlit(probes['hp_sube']), '(%d, %s, %s)' % (k, zlit(v), fp_lit(ops.comps(n))), ('fpnum_decode', fmt, v))
            for dst in ('hp', 'sp', 'dp'):
                if (dst == fmt and v % 2 == 0) or (v % 7 == 0):
                    add('convert', 'chk_convert (%s)' % zlit(probes['hp_sube']), '(%d, %s, %s)' % (FIDX[dst], fp_lit(ops.comps(n)), zlit(n.convert(dst))), ('convert', fmt, v, dst))
            if fmt != 'hp':
                x = getattr(F, 'ieee754_to_' + fmt)(v)
                add('fph_decode', 'chk_fph_decode', '(%d, %s, %s)' % (k, zlit(v), pf_lit(x)), ('fph_decode', fmt, v))
            x = ops.bits_to_float(fmt, v)
            if fmt == 'dp' or v % 3 == 0:
                add('of_float', 'chk_of_float', '(%s, %s)' % (pf_lit(x), fp_lit(ops.comps(FP(x)))), ('FPNum(float)', x.hex() if x == x else 'nan'))
        for (s_, e, m) in [(2, 1 << FMT[fmt][0], 1 << FMT[fmt][1]), (-1, -1, -1), (3, -5, (1 << 70) + 3)]:
            add('pack_any', 'chk_pack_any', '(%d, %s, %s, %s, %s)' % (k, zlit(s_), zlit(e), zlit(m), zlit(getattr(FP, 'pack_ieee754_%s_parts' % fmt)(s_, e, m))), ('pack', fmt, s_, e, m))
    # encodings
    for fmt in ('sp', 'dp'):
        xs = gen.encode_floats(fmt, rng, True)
        xs = xs[::max(1, len(xs) // (350 * n_small))] + [0.0, -0.0, math.inf, -math.inf, math.nan, 2.0 ** -150, 2.0 ** -149, 3.4028235677973366e38, 1e-310, 5e-324]
        if fmt == 'dp': xs = xs + [ops.bits_to_float('dp', v) for v in gen.tie_patterns('dp', rng, 250)]
        for x in xs:
            bits = getattr(F, fmt + '_to_ieee754')(x); parts = getattr(F, fmt + '_to_ieee754_parts')(x)
            if not (math.isnan(x) or math.isinf(x) or x == 0):
                ps, pe, pm = F.fp_to_parts(x)
                pn, pd = pm.as_integer_ratio()
                add('parts', 'chk_parts', '(%s, %d, %s, %s, %d)' % (pf_lit(x), ps, zlit(pe), zlit(pn), pd.bit_length() - 1), ('fp_to_parts', x.hex()))
            add('encode', 'chk_encode %s' % blit(probes['sp_zero_sign']), '(%d, %s, %s, %s)' % (FIDX[fmt], pf_lit(x), zlit(bits), t3(parts)), ('encode', fmt, x.hex() if x == x else 'nan'))
    # arithmetic
    pool = gen.arith_pool(rng, True)
    pairs = [(a, b) for a in pool for b in pool]
    rng.shuffle(pairs)
    hist = [d for d in pool if d[0] == 'expr' or (d[0] == 'semp' and d[4] > (1 << 100))]      # results of operation histories, very long significands
    hpairs = [(h, h) for h in hist] + [(h, rng.choice(pool)) for h in hist] + [(rng.choice(pool), h) for h in hist]
    for (da, db) in pairs[:220 * n_small] + hpairs:
        a, b = ops.mk_fpnum(H, da), ops.mk_fpnum(H, db)
        add('arith', 'chk_arith %s %s' % (blit(probes['cmp_inf_fix']), blit(probes['cmp_zero_fix'])), '(%s, %s, %s, %s, %s, %s)' % (fp_lit(ops.comps(a)), fp_lit(ops.comps(b)), fp_lit(ops.comps(a.add(b))), fp_lit(ops.comps(a.sub(b))),
                                                            fp_lit(ops.comps(a.mul(b))), zlit(a.compare(b))), ('arith', da, db))
    for d in pool:
        for prec in (0, 1, 5, 10, 23, 52, 60):
            x = ops.mk_fpnum(H, d)
            if x.nan or x.infinity: continue
            r1 = x.copy(); r1.reducePrecision(prec); r2 = x.copy(); r2.reducePrecisionWithRounding(prec)
            add('misc', 'chk_misc', '(%s, %d, %s, %s, %s, %s, %s)' % (fp_lit(ops.comps(x)), prec, fp_lit(ops.comps(r1)), fp_lit(ops.comps(r2)), fp_lit(ops.comps(x.neg())),
                                                                 fp_lit(ops.comps(x.abs())), fp_lit(ops.comps(x.div2(prec)))), ('misc', d, prec))
    if probes['reduce_exp_ok']:
        for d in pool:
            for prec in (5, 8, 11):
                x = ops.mk_fpnum(H, d)
                if x.nan or x.infinity or x.p == 0: continue
                y = x.copy(); y.reduceExponentPrecision(prec)
                add('redexp', 'chk_redexp', '(%s, %d, %s)' % (fp_lit(ops.comps(x)), prec, fp_lit(ops.comps(y))), ('reduce_exp', d, prec))
    prelude = 'From V Require Import Proofs.C12.CaseLib.\nFrom V Require Import Base.Bits Spec.C12 Model.HelperInt Model.FPNum Model.FPHelper.\nOpen Scope Z_scope.\n'
    items, total = [], 0
    for name, (chk, lits, descs) in fam.items():
        prelude += 'Definition cs_%s := [%s].\n' % (name, ';\n '.join(lits))
        items.append((name, '%s cs_%s' % (chk, name)))
        total += len(lits)
        ctx.count(n=0)
    res = common.coq_eval('C12_tie', prelude, items, timeout=900)
    out = []
    for name, (chk, lits, descs) in fam.items():
        bt, bp = res[name]
        for i in bt: out.append((name, 'tie', descs[i]))
        for i in bp: out.append((name, 'prop', descs[i]))
        for dsc in descs: ctx.count(('coq', name, json.dumps(dsc, default=str)))
    ctx.notes['coq_correspondence_cases'] = {name: len(v[1]) for name, v in fam.items()}
    return out, total


def prop_expected(H, name, desc):
    """is a Spec-column mismatch reported by Coq explained by a recorded finding?  (the same case judged by the Python oracle)"""
    if name == 'decode' and desc[1] == 'hp' and ops.is_subnormal_pattern('hp', desc[2]):
        obs, exp = ops.call(H, 'fpnum_decode', ('hp', desc[2]))
        return classify({'op': 'fpnum_decode', 'args': ['hp', desc[2]], 'observed': obs, 'expected': exp})
    if name == 'fx' and desc[2] == 0: return 'C12-23'
    if name == 'arith':
        obs, exp = ops.call(H, 'fpnum_compare', (desc[1], desc[2]))
        if obs != exp: return classify({'op': 'fpnum_compare', 'args': [desc[1], desc[2]], 'observed': obs, 'expected': exp})
    return None


# ------------------------------------------------------------------ run / replay
def probe(H):
    """the constants / versions by which the hand models are parametrised, read off the implementation"""
    n = H.FPNum(1, 'hp')                       # smallest half subnormal: m = 1, p = 1024 -> e = sube - 10
    def ok(f):
        try: f(); return True
        except Exception: return False
    return {'hp_sube': n.e + 10 if n.m == n.p else -16,
            'sp_zero_sign': H.FloatingPointHelper.sp_to_ieee754(-0.0) != 0,
            'cmp_inf_fix': H.FPNum(-math.inf).compare(H.FPNum(math.inf)) == -1,
            'cmp_zero_fix': H.FPNum(-0.0).compare(H.FPNum(0.0)) == 0,
            'fx_iw0': ok(lambda: H.FixedPoint(1, 0, 1, 0)),
            'reduce_exp_ok': ok(lambda: H.FPNum(1.5).reduceExponentPrecision(8))}


# the model instance Properties/C12.v is stated for (= /repo today); and, per probe, the theorems that stand on it
THEOREM_INSTANCE = {'hp_sube': -14, 'sp_zero_sign': True, 'cmp_inf_fix': True, 'cmp_zero_fix': True, 'fx_iw0': True, 'reduce_exp_ok': True}
INSTANCE_THEOREMS = {'hp_sube': ['C12_fpnum_decode_hp', 'C12_fpnum_round_trip_hp'],
                     'sp_zero_sign': ['C12_fph_encode_decode_sp_partial', 'C12_fph_encode_exact_sp_partial'],
                     'cmp_inf_fix': ['C12_fpnum_compare_total'], 'cmp_zero_fix': ['C12_fpnum_compare_total', 'C12_fpnum_compare_exact'],
                     'fx_iw0': ['C12_fx_add', 'C12_fx_sub', 'C12_fx_mult', 'C12_fx_of_int', 'C12_fx_mult_small'],
                     'reduce_exp_ok': ['C12_fpnum_reduce_exponent']}


def run(ctx):
    ctx.cov['rule'] = ('obligations: theorems of Properties/C12.v; evaluations: calls of the real helper functions compared with an independent '
                       'oracle (struct / Fraction / int arithmetic) plus the cases compared with model and spec inside Coq; a case is distinct by '
                       '(op, format, sign, exponent field, mantissa bit-length and low bits) for patterns, by (op, width, value) for integers, by the '
                       'operand pair for arithmetic; all are non-trivial (each calls the implementation on a legal argument)')
    T = {}; t0 = time.time()
    missing = ctx.regen(NEEDED)
    r = ctx.prove(['Properties/C12.v'])
    T['regen+prove'] = round(time.time() - t0, 1); t0 = time.time()
    H = common.quiet_import().helper
    rng = random.Random(ctx.seed)
    with common.quiet():
        probes = probe(H)
    ctx.notes['probes'] = probes
    regressed = sorted(k for k in THEOREM_INSTANCE if probes.get(k) != THEOREM_INSTANCE[k])
    untied = sorted({t for k in regressed for t in INSTANCE_THEOREMS[k]})
    if regressed:
        # the implementation behaves as a pre-repair instance again: the full-strength theorems are about another model instance
        ctx.notes['instance_mismatch'] = {'probes_that_differ': {k: {'implementation': probes.get(k), 'theorems': THEOREM_INSTANCE[k]} for k in regressed},
                                          'theorems_no_longer_about_the_code': untied}
    # 1. oracle sweep = property on the implementation + search
    with common.quiet():
        sw = oracle_sweep(ctx, H, rng)
    ambient_family(ctx, H, sw)
    nviol = sw.report()
    T['oracle_sweep'] = round(time.time() - t0, 1); t0 = time.time()
    ctx.sample({'op': 'fpnum_round_trip', 'args': ['dp', 0x4005BF0A89F1B0DD], 'result': list(ops.call(H, 'fpnum_round_trip', ('dp', 0x4005BF0A89F1B0DD)))})
    ctx.sample({'op': 'fph_encode', 'args': ['sp', (2.0 ** -150).hex()], 'result': list(ops.call(H, 'fph_encode', ('sp', (2.0 ** -150).hex())))})
    ctx.sample({'op': 'fpnum_arith', 'args': ['add', ['sp', 0xC49A6333], ['dp', 1]], 'result': list(ops.call(H, 'fpnum_arith', ('add', ['sp', 0xC49A6333], ['dp', 1])))})
    ctx.sample({'op': 'fx', 'args': ['mult', 1, 3, 4, 232, 20], 'result': list(ops.call(H, 'fx', ('mult', 1, 3, 4, 232, 20)))})
    # 2. correspondence in Coq
    tie_bad = []
    if not missing:
        with common.quiet():
            try:
                bad, total = coq_tie(ctx, H, rng, probes)
                err = None
            except RuntimeError as ex:
                bad, total, err = [], 0, str(ex)
        ctx.count(n=total)
        if err:
            tie_bad.append({'what': 'the correspondence case file does not evaluate (a model no longer builds)', 'coq_error': err[-1500:]})
        for (name, kind, desc) in bad:
            if kind == 'prop':
                fid = prop_expected(H, name, desc)
                st = {f['id']: f['status'] for f in ctx.known}.get(fid)
                if fid is not None and st == 'known': continue
                if fid is not None and nviol: continue            # already reported with its input by the oracle sweep
                tie_bad.append({'what': 'Coq Spec column disagrees with the implementation but the Python oracle did not report it', 'family': name, 'case': desc})
            else:
                tie_bad.append({'what': 'hand model disagrees with the implementation (correspondence broken)', 'family': name, 'case': desc})
    T['coq_correspondence'] = round(time.time() - t0, 1)
    ctx.notes['timing_s'] = T
    ctx.log('timing', T)
    # 3. verdict
    if nviol == 0:
        if missing:
            ctx.violation({'what': 'translator rejected %s: %s' % (missing, {k: ctx.gen['errors'].get(k) for k in missing})}, found_input=False)
        elif not r['ok']:
            ctx.violation({'what': 'proof obligation no longer checks: %s in %s' % (r.get('lemma'), r.get('file')), 'theorem': r.get('lemma'),
                           'file': r.get('file'), 'coq_error': r.get('msg')}, found_input=False)
        for t in tie_bad[:3]:
            ctx.violation(t, found_input=False)
        if regressed and r['ok'] and not missing and not tie_bad:
            ctx.violation({'what': 'the implementation behaves as a pre-repair version again (%s): %s are stated for another model instance and no '
                                   'theorem exists for the instance the probe selects' % (', '.join(regressed), ', '.join(untied)),
                           'probes': ctx.notes['instance_mismatch']}, found_input=False)
    else:
        ctx.notes['tie_mismatches'] = tie_bad[:10]
    if regressed and r['ok']:
        ctx.cov['discharged'] = max(0, ctx.cov['discharged'] - len(untied))      # obligations that no longer speak about the code
    ctx.notes['theorems_over_real_number_axioms'] = ['C12_spec_is_flocq_b32', 'C12_spec_is_flocq_b64']
    ctx.notes['observations'] = ['FPNum.mul(inf, 0) returns infinity (IEEE: NaN) - outside the claim (rationals only)',
                                 'FixedPoint.mult reads the top bit as a sign also for sw = 0 (C12_fx_mult_unsigned_refuted)',
                                 'FPNum.div / sqrt use float division: not exact, not claimed']
    ctx.assumptions += ['hand models Model/HelperInt.v, Model/FPNum.v, Model/FPHelper.v mirror py4hw/helper.py (checked on every run by the in-Coq correspondence cases; not verified)',
                        'IEEE double arithmetic on the platform: the float operations of fp_to_parts / *_to_ieee754_parts / ieee754_parts_to_* are exact on their operands (argued in Model/FPHelper.v, tied bit-exactly, not proved)',
                        'struct.pack/unpack implement IEEE-754 binary16/32/64 (the oracle); Spec.C12.ieee_value is cross-checked against it on every correspondence case']


def replay(rp):
    H = common.quiet_import().helper
    if 'op' not in rp:
        print(json.dumps(rp, indent=1)[:3000]); return 0
    if rp.get('ambient'):
        with amb.apply_ambient(H, rp['ambient']):
            with common.quiet():
                obs, exp = ops.call(H, rp['op'], rp['args'])
        print('ambient  :', rp['ambient'])
    else:
        with common.quiet():
            obs, exp = ops.call(H, rp['op'], rp['args'])
    print('op       :', rp['op'], rp['args'])
    print('observed :', obs)
    print('expected :', exp)
    print('recorded :', rp.get('observed'))
    print('REPRODUCED' if obs != exp else 'not reproduced (observed == expected)')
    return 1 if obs != exp else 0
