"""C02 — grammar-driven generator of behavioural block classes (source text).  Everything is drawn from one PRNG.
A generated class has 1..3 input ports, 1..3 output ports, 0..3 integer state attributes, 0..1 constructor constant and a
clock() or propagate() body over the subset of DESIGN §5 C02; `flavour` selects extra constructs:
  'plain'        inside the subset, shaped so that histories mostly stay in the domain (masks after - * <<, divisors >= 1)
  'out:<kind>'   one construct OUTSIDE the subset is planted (the transpiler must refuse)
  'find:<kind>'  one construct of a known-finding kind is planted
The generator never looks at the transpiler."""
import random

WIDTHS = [1, 1, 2, 3, 4, 5, 8, 8, 12, 16, 24, 31, 32]
OUT_KINDS = ['for', 'while', 'list', 'call', 'float', 'truediv', 'chained', 'tuple', 'augport', 'ternary_call', 'pow', 'return', 'subscript', 'string', 'match_capture', 'match_as', 'match_or', 'match_capture_unused']
FIND_KINDS = ['boolop_value', 'ifexp_propagate', 'portname', 'narrow', 'ifexp_clock', 'match_nodefault', 'cmp_rhs', 'match_guard']


class Gen:
    def __init__(self, rng, name, flavour='plain', kind=None, open_ids=None):
        self.r = rng
        # ids of the findings still open in known_findings/C02.json: a 'plain' program avoids their constructs; once a finding is
        # repaired in /repo (status 'fixed') its construct becomes part of the plain grammar
        self.open_ids = set(open_ids) if open_ids is not None else {'C02-ifexp', 'C02-cmp-rhs', 'C02-narrow'}
        self.name = name
        self.flavour = flavour
        self.kind = kind or ('clock' if rng.random() < 0.7 else 'propagate')
        if flavour == 'find:ifexp_propagate': self.kind = 'propagate'
        if flavour in ('find:ifexp_clock', 'find:match_nodefault') or ':match_' in flavour: self.kind = 'clock'
        r = rng
        self.ins = [('i%d' % k, r.choice(WIDTHS)) for k in range(r.randint(1, 3))]
        self.outs = [('o%d' % k, r.choice(WIDTHS)) for k in range(r.randint(1, 3))]
        self.attrs = [('s%d' % k, r.choice([0, 0, 1, 3, 7, 100])) for k in range(r.randint(0, 3))] if self.kind == 'clock' else []
        self.consts = [('c%d' % k, r.choice([1, 2, 5, 13, 200, 4095])) for k in range(r.randint(0, 1))]
        self.port_attr = {}          # port name -> attribute name holding it
        for n, _ in self.ins + self.outs: self.port_attr[n] = n
        if flavour == 'find:portname':
            n = r.choice(self.outs)[0]; self.port_attr[n] = n + '_w'
        self.locals_defined = []
        self.nlocal = 0
        self.planted = False
        self.use_match = r.random() < 0.25 and self.kind == 'clock'
        self.ops = {}

    # ------------------------------------------------------------ expressions
    def count(self, k): self.ops[k] = self.ops.get(k, 0) + 1

    def leaf(self, small=False):
        r = self.r
        c = r.random()
        if c < 0.25 or small and c < 0.5:
            self.count('const'); return str(r.choice([0, 1, 2, 3, 4, 7, 8, 10, 15, 16, 100, 255]) if small or r.random() < 0.8 else r.randint(256, 1 << 20))
        if c < 0.55:
            n = r.choice(self.ins)[0]; self.count('get'); return 'self.%s.get()' % self.port_attr[n]
        if c < 0.62 and self.kind == 'clock':
            n = r.choice(self.outs)[0]; self.count('get_out'); return 'self.%s.get()' % self.port_attr[n]
        if c < 0.78 and self.attrs:
            self.count('attr'); return 'self.%s' % r.choice(self.attrs)[0]
        if c < 0.88 and self.locals_defined:
            self.count('local'); return r.choice(self.locals_defined)
        if c < 0.93 and self.consts:
            self.count('ctor_const'); return 'self.%s' % r.choice(self.consts)[0]
        n = r.choice(self.ins)[0]; self.count('get'); return 'self.%s.get()' % self.port_attr[n]

    def mask(self):
        return str((1 << self.r.choice([1, 2, 3, 4, 8, 12, 16, 20])) - 1)

    def val(self, d):
        """an int-valued expression"""
        r = self.r
        if d <= 0 or r.random() < 0.25: return self.leaf()
        c = r.random()
        a = self.val(d - 1)
        if c < 0.16: self.count('+'); return '(%s + %s)' % (a, self.val(d - 1))
        if c < 0.26:
            self.count('-')
            if r.random() < 0.75: return '((%s - %s) & %s)' % (a, self.val(d - 1), self.mask())
            return '((%s | %s) - %s)' % (a, self.mask(), '(%s & %s)' % (self.val(d - 1), '7'))
        if c < 0.34: self.count('*'); return '((%s & %s) * %s)' % (a, self.mask(), self.leaf(small=True))
        if c < 0.40: self.count('//'); return '(%s // ((%s & %s) + 1))' % (a, self.val(d - 1), self.mask())
        if c < 0.46: self.count('%'); return '(%s %% ((%s & %s) + 1))' % (a, self.val(d - 1), self.mask())
        if c < 0.56: self.count('&'); return '(%s & %s)' % (a, self.val(d - 1) if r.random() < 0.5 else self.mask())
        if c < 0.64: self.count('|'); return '(%s | %s)' % (a, self.val(d - 1))
        if c < 0.70: self.count('^'); return '(%s ^ %s)' % (a, self.val(d - 1))
        if c < 0.76: self.count('<<'); return '(((%s) & %s) << (%s & 7))' % (a, self.mask(), self.val(d - 1))
        if c < 0.83: self.count('>>'); return '(%s >> (%s & 15))' % (a, self.val(d - 1))
        if c < 0.845:
            # the same non-associative operator nested directly as the RIGHT operand (parentheses are essential)
            b, k = self.val(d - 1), self.val(d - 1)
            form = r.randrange(5); self.count('nest_right')
            if form == 0: return '((%s - (%s - %s)) & %s)' % (a, b, k, self.mask())
            if form == 1: return '(%s // ((%s | 256) // ((%s & 15) + 1)))' % (a, b, k)
            if form == 2: return '(%s %% ((((%s & 1023) * 2) + 1) %% 4))' % (a, b)
            if form == 3: return '(%s >> ((%s & 255) >> (%s & 7)))' % (a, b, k)
            return '((%s & %s) << ((%s & 1) << (%s & 1)))' % (a, self.mask(), b, k)
        if c < 0.86: self.count('~'); return '(~%s & %s)' % (a, self.mask())
        if c < 0.88: self.count('neg'); return '((-%s) & %s)' % (a, self.mask())
        if c < 0.93: self.count('cmp_value'); return '(%s)' % self.cmp(d - 1)
        if c < 0.96 and 'C02-ifexp' not in self.open_ids:
            self.count('ifexp'); return '(%s if %s else %s)' % (a, self.cond(d - 1), self.val(d - 1))
        self.count('not_value'); return '(not %s)' % self.cond(d - 1)

    def cmp(self, d):
        op = self.r.choice(['==', '!=', '<', '<=', '>', '>='])
        self.count('cmp')
        # the right operand is a leaf or a sum (a bitwise operator there is a known finding: see 'find:cmp_rhs')
        b = '(%s + %s)' % (self.val(d), self.leaf(small=True)) if self.r.random() < 0.4 else self.leaf(small=self.r.random() < 0.5)
        if 'C02-cmp-rhs' not in self.open_ids and self.r.random() < 0.3:
            b = '(%s %s %s)' % (self.val(d), self.r.choice(['&', '|', '^']), self.leaf(small=True))
        return '%s %s %s' % (self.val(d), op, b)

    def cond(self, d):
        r = self.r
        c = r.random()
        if d <= 0 or c < 0.45: return self.cmp(max(d, 0)) if r.random() < 0.75 else self.val(max(d, 0))
        if c < 0.62: self.count('and'); return '(%s and %s)' % (self.cond(d - 1), self.cond(d - 1))
        if c < 0.78: self.count('or'); return '(%s or %s)' % (self.cond(d - 1), self.cond(d - 1))
        if c < 0.86:
            op = r.choice(['and', 'or']); self.count(op + '3')
            return '(%s %s %s %s %s)' % (self.cond(d - 1), op, self.cond(d - 1), op, self.cond(d - 1))
        if c < 0.93: self.count('not'); return '(not %s)' % self.cond(d - 1)
        return '(%s)' % self.cmp(d - 1)

    # ------------------------------------------------------------ statements
    def stored(self, d):
        """a value that goes into an integer variable: keep it in the domain most of the time"""
        if self.r.random() < 0.8: return '(%s & %s)' % (self.val(d), self.mask())
        return self.val(d)

    def simple(self, d, ind):
        r = self.r
        c = r.random()
        pre = ' ' * ind
        if self.kind == 'clock':
            if c < 0.35:
                n = r.choice(self.outs)[0]; self.count('prepare'); return [pre + 'self.%s.prepare(%s)' % (self.port_attr[n], self.val(d))]
            if c < 0.65 and self.attrs:
                a = r.choice(self.attrs)[0]
                if r.random() < 0.2:
                    # followed by a read in the same call: the update is immediate
                    self.count('augassign')
                    n = r.choice(self.outs)[0]
                    return [pre + 'self.%s %s= %s' % (a, r.choice(['+', '|', '^']), self.leaf(small=True)),
                            pre + 'self.%s.prepare(self.%s)' % (self.port_attr[n], a)]
                self.count('attr_assign'); return [pre + 'self.%s = %s' % (a, self.stored(d))]
        else:
            if c < 0.6:
                n = r.choice(self.outs)[0]; self.count('put'); return [pre + 'self.%s.put(%s)' % (self.port_attr[n], self.val(d))]
        if ind == 8 and c < 0.9:          # locals only at the top level, so that they are definitely assigned before use
            x = 't%d' % self.nlocal; self.nlocal += 1
            e = self.stored(d)
            self.locals_defined.append(x); self.count('local_assign')
            return [pre + '%s = %s' % (x, e)]
        n = r.choice(self.outs)[0]
        self.count('prepare' if self.kind == 'clock' else 'put')
        return [pre + 'self.%s.%s(%s)' % (self.port_attr[n], 'prepare' if self.kind == 'clock' else 'put', self.val(d))]

    def stmts(self, d, ind, n):
        out = []
        for _ in range(n):
            out += self.stmt(d, ind)
        return out

    def stmt(self, d, ind):
        r = self.r
        pre = ' ' * ind
        c = r.random()
        if d <= 0 or c < 0.5: return self.simple(max(d, 1), ind)
        if c < 0.85:
            self.count('if')
            out = [pre + 'if %s:' % self.cond(d - 1)] + self.stmts(d - 1, ind + 4, r.randint(1, 2))
            for _ in range(r.choice([0, 0, 1, 2])):
                self.count('elif')
                out += [pre + 'elif %s:' % self.cond(d - 1)] + self.stmts(d - 1, ind + 4, r.randint(1, 2))
            if r.random() < 0.6:
                self.count('else')
                out += [pre + 'else:'] + self.stmts(d - 1, ind + 4, r.randint(1, 2))
            return out
        if self.use_match and self.attrs:
            self.count('match')
            out = [pre + 'match self.%s:' % r.choice(self.attrs)[0]]
            for k in r.sample(range(0, 9), r.randint(1, 3)):
                out += [pre + '    case %d:' % k] + self.stmts(d - 1, ind + 8, r.randint(1, 2))
            if self.flavour != 'find:match_nodefault':
                out += [pre + '    case _:'] + self.stmts(d - 1, ind + 8, r.randint(1, 2))
            else:
                self.planted = True
            return out
        return self.simple(d, ind)

    # ------------------------------------------------------------ planted constructs
    def plant(self, ind):
        pre = ' ' * ind
        r = self.r
        f = self.flavour
        o = self.port_attr[r.choice(self.outs)[0]]
        i = self.port_attr[r.choice(self.ins)[0]]
        w = 'prepare' if self.kind == 'clock' else 'put'
        g = 'self.%s.get()' % i
        if f == 'out:for': return [pre + 'acc = 0', pre + 'for k in range(3):', pre + '    acc = acc + %s' % g, pre + 'self.%s.%s(acc)' % (o, w)]
        if f == 'out:while': return [pre + 'acc = %s' % g, pre + 'while acc > 3:', pre + '    acc = acc >> 1', pre + 'self.%s.%s(acc)' % (o, w)]
        if f == 'out:list': return [pre + 'tab = [1, 2, 3, 4]', pre + 'self.%s.%s(tab[%s & 3])' % (o, w, g)]
        if f == 'out:subscript': return [pre + 'self.%s.%s((7, 5, 3, 1)[%s & 3])' % (o, w, g)]
        if f == 'out:call': return [pre + 'self.%s.%s(%s(%s, 3))' % (o, w, r.choice(['min', 'max']), g)]
        if f == 'out:float': return [pre + 'self.%s.%s(int(%s * 1.5))' % (o, w, g)]
        if f == 'out:truediv': return [pre + 'x = %s / 2' % g, pre + 'self.%s.%s(int(x))' % (o, w)]
        if f == 'out:chained': return [pre + 'if 1 <= %s < 3:' % g, pre + '    self.%s.%s(1)' % (o, w)]
        if f == 'out:tuple': return [pre + 'x, y = %s, 3' % g, pre + 'self.%s.%s(x + y)' % (o, w)]
        if f == 'out:augport': return [pre + 'self.%s += 1' % o]
        if f == 'out:ternary_call': return [pre + 'self.%s.%s(min(3 if %s else 5, 4))' % (o, w, g)]
        if f == 'out:pow': return [pre + 'self.%s.%s((%s & 3) ** 2)' % (o, w, g)]
        if f == 'out:return': return [pre + 'if %s == 1:' % g, pre + '    return', pre + 'self.%s.%s(%s)' % (o, w, g)]
        if f == 'out:string': return [pre + "x = 'abc'", pre + 'self.%s.%s(len(x))' % (o, w)]
        if f.split(':')[1].startswith('match_'):
            # match patterns beyond `case <int>:` / `case _:` (a capture binds the subject, a guard falls through when false)
            k = f.split(':')[1]
            subj = '(%s & 3)' % g
            L = [pre + 'match %s:' % subj, pre + '    case 0:', pre + '        self.%s.%s(%s)' % (o, w, self.leaf(small=True))]
            if k == 'match_capture': L += [pre + '    case other:', pre + '        self.%s.%s(other + 1)' % (o, w)]
            elif k == 'match_capture_unused': L += [pre + '    case other:', pre + '        self.%s.%s(7)' % (o, w)]
            elif k == 'match_as': L += [pre + '    case 1 as one:', pre + '        self.%s.%s(one + 2)' % (o, w), pre + '    case _:', pre + '        self.%s.%s(3)' % (o, w)]
            elif k == 'match_or': L += [pre + '    case 1 | 2:', pre + '        self.%s.%s(5)' % (o, w), pre + '    case _:', pre + '        self.%s.%s(3)' % (o, w)]
            elif k == 'match_guard':
                L += [pre + '    case 1 if %s:' % self.cond(0), pre + '        self.%s.%s(5)' % (o, w), pre + '    case _:', pre + '        self.%s.%s(3)' % (o, w)]
            return L
        if f == 'find:boolop_value':
            return [pre + 'bv = %s %s %s' % (g, r.choice(['or', 'and']), r.choice(['5', self.leaf()])), pre + 'self.%s.%s(bv)' % (o, w)]
        if f in ('find:ifexp_propagate', 'find:ifexp_clock'):
            return [pre + 'tern = %s if %s else %s' % (self.val(1), self.cond(1), self.val(1)), pre + 'self.%s.%s(tern)' % (o, w)]
        if f == 'find:cmp_rhs':
            return [pre + 'if %s %s (%s %s %s):' % (self.leaf(), r.choice(['==', '<=', '>', '!=']), g, r.choice(['&', '|', '^']), self.leaf(small=True)),
                    pre + '    self.%s.%s(1)' % (o, w), pre + 'else:', pre + '    self.%s.%s(0)' % (o, w)]
        if f == 'find:portname': return [pre + 'self.%s.%s(%s)' % (self.port_attr[[n for n in self.port_attr if self.port_attr[n] != n][0]], w, self.val(1))]
        if f == 'find:narrow':
            a = 'self.%s.get()' % self.port_attr[r.choice(self.ins)[0]]
            b = 'self.%s.get()' % self.port_attr[r.choice(self.ins)[0]]
            form = r.choice(['if %s + %s:', 'if (%s + %s) >> 1:', 'if (%s + %s) == ' + b + ':'])
            return [pre + form % (a, b), pre + '    self.%s.%s(1)' % (o, w), pre + 'else:', pre + '    self.%s.%s(0)' % (o, w)]
        return []

    # ------------------------------------------------------------ class text
    def text(self, depth):
        L = ['class %s(Logic):' % self.name]
        args = [n for n, _ in self.ins + self.outs] + [n for n, _ in self.consts]
        L.append('    def __init__(self, parent, name, %s):' % ', '.join(args))
        L.append('        super().__init__(parent, name)')
        for n, _ in self.ins: L.append("        self.%s = self.addIn('%s', %s)" % (self.port_attr[n], n, n))
        for n, _ in self.outs: L.append("        self.%s = self.addOut('%s', %s)" % (self.port_attr[n], n, n))
        for n, v in self.attrs: L.append('        self.%s = %d' % (n, v))
        for n, _ in self.consts: L.append('        self.%s = %s' % (n, n))
        L.append('')
        L.append('    def %s(self):' % self.kind)
        # every output is written at least once at the top level of a propagate body (a latch-free combinational block)
        pre = ['        self.%s.put(%s)' % (self.port_attr[n], self.leaf()) for n, _ in self.outs] if self.kind == 'propagate' else []
        kind = self.flavour.split(':')[0]
        plant = kind in ('out', 'find') and self.flavour != 'find:match_nodefault'
        pos = self.r.randint(0, 1)
        planted = self.plant(8) if plant and pos == 0 else []
        body = self.stmts(depth, 8, self.r.randint(1, 3))
        if plant and pos == 1: planted = self.plant(8)
        body = planted + body if pos == 0 else body + planted
        if self.flavour == 'find:match_nodefault' and not self.planted:
            a = self.attrs[0][0] if self.attrs else None
            if a is None:
                self.attrs = [('s0', 0)]; L.insert(len(L) - 2, '        self.s0 = 0'); a = 's0'
            body += ['        match self.%s:' % a, '            case 0:', '                self.%s = 1' % a, '            case 1:', '                self.%s = 0' % a]
        L += pre + body
        return '\n'.join(L) + '\n'


def clean(g):
    """a 'plain' program must not contain the construct of a still-open finding by accident"""
    import ast
    from props import c02_dump
    fn = [n for n in ast.walk(ast.parse(g.src)) if isinstance(n, ast.FunctionDef) and n.name == g.kind][0]
    narrow, cmp_rhs = c02_dump.signatures(fn, {g.port_attr[n]: w for n, w in g.ins + g.outs})
    return not (narrow and 'C02-narrow' in g.open_ids) and not (cmp_rhs and 'C02-cmp-rhs' in g.open_ids)


def make_module(rng, n, depth, flavours, prefix='G', open_ids=None):
    """returns (module text, [Gen]) for n classes; flavours: list cycled through"""
    gens, parts = [], ['from py4hw.base import Logic\n\n']
    for k in range(n):
        fl = flavours[k % len(flavours)]
        for attempt in range(50):
            g = Gen(rng, '%s%d' % (prefix, k), fl, open_ids=open_ids)
            g.src = g.text(rng.randint(1, depth))
            if fl not in ('plain',) and fl != 'find:narrow' and fl != 'find:cmp_rhs' or fl == 'plain' and clean(g): break
            if fl == 'find:narrow' or fl == 'find:cmp_rhs': break
        parts.append(g.src + '\n')
        gens.append(g)
    return ''.join(parts), gens
