"""C13 helpers: the REAL single-precision blocks (built once, inputs re-poked), the exact-rational specification
(fractions.Fraction; the impl-vs-spec oracle), a Python mirror of the word-level datapath of coq/Model/Fp.v (used only to
attribute a failing case to a known finding: the same datapath with the suspected predicate neutralised), and the
structured operand generators."""
from fractions import Fraction
import common
from common import quiet

M32 = (1 << 32) - 1


# ------------------------------------------------------------------ encodings / exact values
def fields(x):
    return (x >> 31) & 1, (x >> 23) & 0xff, x & 0x7fffff

def pack(s, e, m):
    return ((s & 1) << 31) | ((e & 0xff) << 23) | (m & 0x7fffff)

def is_normal(x):
    return 1 <= ((x >> 23) & 0xff) <= 254

def val(x):
    """exact value of a normal encoding: (-1)^s (2^23+m) 2^(e-150)"""
    s, e, m = fields(x)
    v = Fraction((1 << 23) + m) * (Fraction(2) ** (e - 150))
    return -v if s else v

def ulp_e(e):
    """unit in the last place of a normal number with biased exponent e"""
    return Fraction(2) ** (e - 150)

TWO = Fraction(2)
MIN_NORMAL = TWO ** -126
MAX_BOUND = TWO ** 128

def normal_value(q):
    return MIN_NORMAL <= abs(q) < MAX_BOUND

def s32(x):
    return x - (1 << 32) if x & (1 << 31) else x


# ------------------------------------------------------------------ real blocks
class Blocks:
    """each block is elaborated ONCE; evaluation = put inputs, propagateAll, read outputs"""
    def __init__(self):
        self.py4hw = common.quiet_import()
        self._b = {}

    def _mk(self, kind):
        py4hw = self.py4hw
        from py4hw.logic import arithmetic_fp as afp
        from py4hw.logic import relational as rel
        with quiet():
            hw = py4hw.HWSystem()
            a = hw.wire('a', 32); b = hw.wire('b', 32)
            if kind in ('cmp', 'cmpabs'):
                gt, eq, lt = hw.wire('gt'), hw.wire('eq'), hw.wire('lt')
                rel.FPComparator_SP(hw, 'dut', a, b, gt, eq, lt, absolute=(kind == 'cmpabs'))
                outs = [gt, eq, lt]
            elif kind == 'add':
                r = hw.wire('r', 32); afp.FPAdder_SP(hw, 'dut', a, b, r); outs = [r]
            elif kind == 'mul':
                r = hw.wire('r', 32); afp.FPMult_SP(hw, 'dut', a, b, r); outs = [r]
            elif kind == 'i2f':
                r = hw.wire('r', 32); pl = hw.wire('pl'); afp.InttoFP_SP(hw, 'dut', a, r, pl); outs = [r, pl]
            elif kind == 'f2i':
                r = hw.wire('r', 32); pl = hw.wire('pl'); dn = hw.wire('dn'); inv = hw.wire('inv')
                afp.FPtoInt_SP(hw, 'dut', a, r, pl, dn, inv); outs = [r, pl, dn, inv]
            else:
                raise ValueError(kind)
            sim = hw.getSimulator()
        self._b[kind] = (hw, sim, a, b, outs)

    def ev(self, kind, x, y=0):
        if kind not in self._b: self._mk(kind)
        hw, sim, a, b, outs = self._b[kind]
        a.put(x); b.put(y)
        sim.propagateAll()
        return tuple(o.get() for o in outs)

    def hw(self, kind):
        if kind not in self._b: self._mk(kind)
        return self._b[kind][0]

    def probe(self):
        """the two widths Model/Fp.v is parameterised by, read off the LIVE circuits by class (not by instance name):
        ew = width of the shift-amount wire of FPAdder_SP's alignment ShiftRight (the `ediff` wire);
        hi = upper bound of the Range(shifted, hi, 0) that feeds FPtoInt_SP's p_lost."""
        out = {'ediff_width': None, 'plost_range_high': None}
        try:
            from py4hw.logic.arithmetic import ShiftRight
            from py4hw.logic.bitwise import Range
            add = self.hw('add').children['dut']
            srs = [c for c in add.children.values() if isinstance(c, ShiftRight)]
            if len(srs) == 1:
                out['ediff_width'] = [p.wire.getWidth() for p in srs[0].inPorts if p.name == 'b'][0]
            f2i = self.hw('f2i').children['dut']
            rs = [c for c in f2i.children.values() if isinstance(c, Range) and c.low == 0 and c.a.getWidth() == 64]
            if len(rs) == 1:
                out['plost_range_high'] = rs[0].high
        except Exception as ex:
            out['error'] = repr(ex)
        return out


# ------------------------------------------------------------------ exact specification (what the property says)
def spec_cmp(x, y, absolute):
    vx, vy = val(x), val(y)
    if absolute: vx, vy = abs(vx), abs(vy)
    return (int(vx > vy), int(vx == vy), int(vx < vy))

def spec_i2f_ok(a, r, pl):
    """every 32-bit integer: result = truncation toward zero to 24 significant bits, p_lost <-> discarded bits != 0"""
    x = s32(a)
    if x == 0:
        return r == 0 and pl == 0
    mag = abs(x); k = mag.bit_length() - 1; sh = max(0, k - 23)
    t = (mag >> sh) << sh
    if not is_normal(r): return False
    v = val(r)
    return v == (-t if x < 0 else t) and pl == int(t != mag)

def spec_f2i(x):
    """normal x -> (expected r (32-bit pattern) or None, expected p_lost or None, expected invalid)"""
    v = val(x)
    if abs(v) >= 2 ** 31:
        return None, None, 1
    t = int(v)                       # Fraction.__trunc__ : toward zero
    return t & M32, int(Fraction(t) != v), 0

def spec_mul_ok(x, y, r):
    """None when the exact product is not normal (outside the claim)"""
    q = val(x) * val(y)
    if not normal_value(q): return None
    if not is_normal(r): return False
    return abs(val(r) - q) < ulp_e(fields(r)[1])

def spec_add_ok(x, y, r):
    q = val(x) + val(y)
    if not normal_value(q): return None
    if not is_normal(r): return False
    big = max(fields(x)[1], fields(y)[1])
    o = val(r)
    return (o > 0) == (q > 0) and abs(o - q) < 2 * ulp_e(big)


# ------------------------------------------------------------------ mirror of the word-level datapath (coq/Model/Fp.v)
def tr(w, v): return v & ((1 << w) - 1)

def clz_w(aw, rw, a):
    return tr(rw, aw) if a == 0 else tr(rw, aw - 1 - (a.bit_length() - 1))

def cmp_w(w, a, b):
    sub = tr(w + 1, a - b)
    lt = (sub >> w) & 1; eq = int(sub == 0)
    return (int(not eq and not lt), eq, lt)

def m_cmp(a, b, absolute):
    sa, ea, ma = fields(a); sb, eb, mb = fields(b)
    egt, eeq, elt = cmp_w(8, ea, eb); mgt, meq, mlt = cmp_w(23, ma, mb)
    if absolute:
        return (egt | (eeq & mgt), eeq & meq, elt | (eeq & mlt))
    seq = int(sa == sb)
    gt = ((1 - sa) & sb) | (seq & (elt if sa else egt)) | (seq & eeq & (mlt if sa else mgt))
    lt = (sa & (1 - sb)) | (seq & (egt if sa else elt)) | (seq & eeq & (mgt if sa else mlt))
    return (gt, seq & eeq & meq, lt)

def m_add(a, b, ediff_bits=8):
    """ediff_bits = width of the ediff wire (8 in the circuit since 150f909, 5 before: wraps for gaps >= 32)"""
    if m_cmp(a, b, True)[2]: a, b = b, a
    sa, ea, fa = fields(a); sb, eb, fb = fields(b)
    ma = (int(ea != 0) << 23) | fa; mb = (int(eb != 0) << 23) | fb
    ediff = tr(ediff_bits, ea - eb)
    mb3 = tr(24, mb >> ediff)
    mr = tr(25, ma - mb3) if sa ^ sb else tr(25, ma + mb3)
    clz = clz_w(25, 5, mr)
    mr2 = tr(25, mr << clz)
    er = tr(8, tr(8, ea - clz) + 1)
    return pack(sa, er, tr(23, mr2 >> 1))


def m_mul(a, b):
    sa, ea, fa = fields(a); sb, eb, fb = fields(b)
    ma = (int(ea != 0) << 23) | fa; mb = (int(eb != 0) << 23) | fb
    p = tr(48, ma * mb)
    e1 = tr(9, ea + eb); e2 = tr(8, e1 - 126); e3 = tr(8, e2 - 1)
    if (p >> 47) & 1: return pack(sa ^ sb, e2, tr(23, p >> 24))
    return pack(sa ^ sb, e3, tr(23, p >> 23))

def m_i2f(a):
    sign = (a >> 31) & 1
    f5 = tr(32, 0 - a) if sign else a
    clz = clz_w(32, 5, f5); z = int(f5 == 0)
    sh = tr(32, f5 << clz)
    pl = int(tr(8, sh) != 0)
    r = 0 if z else pack(sign, tr(8, 158 - clz), tr(23, sh >> 8))
    return (r, pl)

def m_f2i(a, plost_high=31):
    """plost_high = upper bound of the p_lost range (31 in the circuit since 48843fa, 32 before: fired on odd integers)"""
    s, pe, f = fields(a)
    hid = int(pe != 0); m = (hid << 23) | f
    den = int(not hid and f != 0); zero = int(not hid and f == 0)
    re_ = tr(8, pe - 127)
    frac0 = m << 32
    small = (re_ >> 7) & 1
    sar = tr(8, 23 - re_); sal = tr(8, re_ - 23)
    shifted = tr(64, frac0 << sal) if (sar >> 7) & 1 else tr(64, frac0 >> sar)
    gtu = cmp_w(8, re_, 30)[0]
    too_big = gtu ^ small ^ 0
    pos = tr(33, shifted >> 32)
    fin = tr(33, 0 - pos) if s else pos
    plx = int(tr(plost_high + 1, shifted) != 0)
    dflt = int((not den) or (not small))
    pl = (den & 1) | (small & (1 - zero)) | (dflt & plx)
    inv = dflt & too_big
    r = tr(32, fin) if dflt else 0
    return (r, pl, den, inv)


# ------------------------------------------------------------------ structured operands
def mant_patterns(thorough):
    ps = {0, 1, 2, 3, (1 << 23) - 1, (1 << 23) - 2, 1 << 22, (1 << 22) + 1, (1 << 22) - 1, 0x555555, 0x2aaaaa}
    ks = range(23) if thorough else (1, 7, 11, 12, 21, 22)
    for k in ks:
        ps |= {1 << k, ((1 << k) + 1) & 0x7fffff, ((1 << k) - 1) & 0x7fffff, (0x7fffff ^ (1 << k))}
    return sorted(ps)

def exps_grid(thorough):
    if thorough: return list(range(1, 255))
    return sorted(set([1, 2, 3, 23, 24, 25, 31, 32, 33, 63, 64, 65, 95, 96, 97, 103, 104, 126, 127, 128, 129, 149, 150, 151,
                       157, 158, 159, 160, 191, 192, 222, 223, 224, 230, 231, 252, 253, 254]))
