"""C19 helpers: canon (mirror of Spec/C19.v), circuit zoo, deep snapshot, dump of a live hierarchy as a term of
Model/GenState.node, parser of the real Verilog text into the model's chunk summaries."""
import re, random
import common, designs
from common import quiet

# ------------------------------------------------------------------ canon : identical to coq/Spec/C19.v
_TOK = re.compile(r'[A-Za-z0-9_]+|[^A-Za-z0-9_]', re.S)
_CLS = re.compile(r'(.*_)([0-9a-f]{6,})', re.S)
_IDENT = re.compile(r'[A-Za-z0-9_]+')


def tokens(line):
    return _TOK.findall(line)


def classify(tok):
    """Some (pre_, suf): identifier whose part after the last '_' is >= 6 lowercase hex digits"""
    if not _IDENT.fullmatch(tok):
        return None
    m = _CLS.fullmatch(tok)
    return (m.group(1), m.group(2)) if m else None


def canon_lines(lines):
    table = []
    for l in lines:
        for t in tokens(l):
            c = classify(t)
            if c and c[1] not in table:
                table.append(c[1])
    out = []
    for l in lines:
        r = []
        for t in tokens(l):
            c = classify(t)
            r.append(c[0] + str(table.index(c[1])) + 'ID' if c else t)
        out.append(''.join(r))
    # sort every maximal run of "wire " lines
    res, run = [], []
    for l in out:
        if l.startswith('wire '):
            run.append(l)
        else:
            res += sorted(run); run = []
            res.append(l)
    res += sorted(run)
    return res


def canon(text):
    return '\n'.join(canon_lines(text.split('\n')))


def coq_lines(text):
    return '[' + '; '.join('[' + '; '.join(str(ord(c)) for c in l) + ']' for l in text.split('\n')) + ']'


def from_coq_lines(v):
    return '\n'.join(''.join(chr(c) for c in l) for l in v)


# ------------------------------------------------------------------ circuits
class Circ:
    def __init__(self, family, seed, hw, ins):
        self.family, self.seed, self.hw, self.ins = family, seed, hw, ins
        self.edits = 0

    def objs(self):
        """path -> object, pre-order"""
        out = {}
        def go(o, path):
            out[path] = o
            for n, c in o.children.items():
                go(c, path + '/' + n)
        go(self.hw, '')
        return out


_classes = {}


def user_classes():
    """behavioural / structural user blocks (source must be inspectable: they live in this file)"""
    if _classes:
        return _classes
    py4hw = common.quiet_import()

    class CounterBehavioural(py4hw.Logic):
        def __init__(self, parent, name, inc, q):
            super().__init__(parent, name)
            self.inc = self.addIn('inc', inc)
            self.q = self.addOut('q', q)

        def clock(self):
            if (self.inc.get() == 1):
                self.q.prepare(self.q.get()+1)

    class SelectType(py4hw.Logic):
        def __init__(self, parent, name, opcode, imm_typ):
            super().__init__(parent, name)
            self.opcode = self.addIn('opcode', opcode)
            self.imm_type = self.addOut('imm_typ', imm_typ)

        def propagate(self):
            a = (self.opcode.get() >> 4) & ((1 << 3)-1)
            b = (self.opcode.get()) & ((1 << 4)-1)
            if (a == 0): self.imm_type.put(0)
            elif (a == 1):
                if (b == 3): self.imm_type.put(0)
                else: self.imm_type.put(3)
            elif (a == 2):
                self.imm_type.put(1)
            elif (a == 3):
                self.imm_type.put(3)
            elif (a == 6):
                if (b == 3): self.imm_type.put(2)
                elif (b == 7): self.imm_type.put(0)
                elif (b == 0xF): self.imm_type.put(4)
                else: self.imm_type.put(7)

    class Acc(py4hw.Logic):
        """behavioural block with a constructor argument and internal state changed by clock()"""
        def __init__(self, parent, name, d, q, step):
            super().__init__(parent, name)
            self.d = self.addIn('d', d)
            self.q = self.addOut('q', q)
            self.step = step
            self.count = 0

        def clock(self):
            self.count = self.count + 1
            self.q.prepare(self.d.get() + self.step)

    # behavioural classes whose attribute / local-variable NAMES overlap: one keeps a constructor argument under a name that
    # another uses for a local variable (mask, step, lo) -- what one transpilation learns must not leak into the next
    class Thresh(py4hw.Logic):
        def __init__(self, parent, name, a, r, mask):
            super().__init__(parent, name)
            self.a = self.addIn('a', a)
            self.r = self.addOut('r', r)
            self.mask = mask

        def propagate(self):
            if ((self.a.get() & self.mask) != 0):
                self.r.put(1)
            else:
                self.r.put(0)

    class LowBits(py4hw.Logic):
        def __init__(self, parent, name, a, n, r):
            super().__init__(parent, name)
            self.a = self.addIn('a', a)
            self.n = self.addIn('n', n)
            self.r = self.addOut('r', r)

        def propagate(self):
            mask = (1 << self.n.get()) - 1
            self.r.put(self.a.get() & mask)

    class Stepper(py4hw.Logic):
        def __init__(self, parent, name, a, r):
            super().__init__(parent, name)
            self.a = self.addIn('a', a)
            self.r = self.addOut('r', r)

        def clock(self):
            step = self.a.get() & 3
            self.r.prepare(self.r.get() + step)

    class Window(py4hw.Logic):
        def __init__(self, parent, name, a, r, lo):
            super().__init__(parent, name)
            self.a = self.addIn('a', a)
            self.r = self.addOut('r', r)
            self.lo = lo

        def propagate(self):
            self.r.put(self.a.get() >> self.lo)

    class Clip(py4hw.Logic):
        def __init__(self, parent, name, a, r):
            super().__init__(parent, name)
            self.a = self.addIn('a', a)
            self.r = self.addOut('r', r)

        def propagate(self):
            lo = self.a.get() & 7
            self.r.put(lo + 1)

    _classes.update(Thresh=Thresh, LowBits=LowBits, Stepper=Stepper, Window=Window, Clip=Clip)

    # parameterised hierarchy: children whose parameter is BOUND to a parameter of the parent (parent.getParameter(..)) and
    # read it with getParameterValue only on some cycles
    class Scale(py4hw.Logic):
        def __init__(self, parent, name, a, load, r, gain):
            super().__init__(parent, name)
            self.a = self.addIn('a', a)
            self.load = self.addIn('load', load)
            self.r = self.addOut('r', r)
            self.addParameter('GAIN', gain)

        def clock(self):
            if (self.load.get() == 1):
                self.r.prepare(self.a.get() * self.getParameterValue('GAIN'))

        def structureName(self):
            return 'Scale{}'.format(self.r.getWidth())

    class Offset(py4hw.Logic):
        def __init__(self, parent, name, a, r, off):
            super().__init__(parent, name)
            self.a = self.addIn('a', a)
            self.r = self.addOut('r', r)
            self.addParameter('OFF', off)

        def propagate(self):
            if (self.a.get() != 0):
                self.r.put(self.a.get() + self.getParameterValue('OFF'))
            else:
                self.r.put(0)

    class PTop(py4hw.Logic):
        def __init__(self, parent, name, a, b, load, r, gain, sh, variant=0):
            super().__init__(parent, name)
            self.addIn('a', a); self.addIn('b', b); self.addIn('load', load); self.addOut('r', r)
            self.addParameter('GAIN', gain)
            self.addParameter('SH', sh)
            w = r.getWidth()
            r1 = self.wire('r1', w); r2 = self.wire('r2', w); s = self.wire('s', w)
            Scale(self, 's1', a, load, r1, self.getParameter('GAIN'))
            Scale(self, 's2', b, load, r2, self.getParameter('GAIN') if variant & 1 else gain + 1)
            py4hw.Add(self, 'add', r1, r2, s)
            t = self.wire('t', w)
            if variant & 2:
                py4hw.ShiftLeftConstant(self, 'shl', s, self.getParameter('SH'), t)      # inlined child, bound parameter
            else:
                py4hw.ShiftRightConstant(self, 'shr', s, sh, t)
            Offset(self, 'off', t, r, self.getParameter('SH') if variant & 4 else 2)

    _classes.update(Scale=Scale, Offset=Offset, PTop=PTop)

    # blocks with INOUT ports that get a module of their own: a structural wrapper around BidirBuf
    class Pad(py4hw.Logic):
        def __init__(self, parent, name, din, dout, oe, pad):
            super().__init__(parent, name)
            self.addIn('dout', dout); self.addIn('oe', oe); self.addOut('din', din); self.addInOut('pad', pad)
            py4hw.BidirBuf(self, 'iobuf', din, dout, oe, pad)

    class PadPair(py4hw.Logic):
        """two levels: the inout port is handed down through another structural block"""
        def __init__(self, parent, name, din, dout, oe, pad):
            super().__init__(parent, name)
            self.addIn('dout', dout); self.addIn('oe', oe); self.addOut('din', din); self.addInOut('pad', pad)
            t = self.wire('t', dout.getWidth())
            py4hw.Buf(self, 'b', dout, t)
            Pad(self, 'inner', din, t, oe, pad)

    _classes.update(Pad=Pad, PadPair=PadPair)

    class Box2(py4hw.Logic):
        """structural user block: r = (a + b) ; lt = a < b  (no structureName: instance-unique module name)"""
        def __init__(self, parent, name, a, b, r, lt, variant=0):
            super().__init__(parent, name)
            self.addIn('a', a); self.addIn('b', b); self.addOut('r', r); self.addOut('lt', lt)
            w = a.getWidth()
            py4hw.Add(self, 'add', a, b, r)
            gt = self.wire('gt'); eq = self.wire('eq')
            py4hw.Comparator(self, 'cmp', a, b, gt, eq, lt)
            if variant & 1:
                n = self.wire('n', w); py4hw.Neg(self, 'neg', a, n)
            if variant & 2:
                s = self.wire('s'); py4hw.Sign(self, 'sgn', b, s)

    class Outer(py4hw.Logic):
        """two levels: Outer { Box2 x 2, Reg, reserved-keyword port }"""
        def __init__(self, parent, name, a, b, out, variant=0):
            super().__init__(parent, name)
            self.addIn('a', a); self.addIn('input', b); self.addOut('out', out)     # 'input' is a Verilog keyword
            w = a.getWidth()
            r1 = self.wire('r1', w); r2 = self.wire('r2', w); l1 = self.wire('l1'); l2 = self.wire('l2')
            Box2(self, 'bx1', a, b, r1, l1, variant)
            Box2(self, 'bx2', r1, a, r2, l2, variant >> 1)
            m = self.wire('m', w)
            py4hw.Mux2(self, 'mux', l1, r1, r2, m)
            py4hw.Reg(self, 'reg', m, out, enable=l2)

    class Stage(py4hw.Logic):
        """structural one-stage delay (register below a block that may carry its own clock driver)"""
        def __init__(self, parent, name, a, r):
            super().__init__(parent, name)
            self.addIn('a', a); self.addOut('r', r)
            py4hw.Reg(self, 'r', a, r)

    class Pipe(py4hw.Logic):
        """accumulator + delay stage; optionally a nested block in a THIRD clock domain derived inside this one"""
        def __init__(self, parent, name, d, q, z, inner_domain=None):
            super().__init__(parent, name)
            self.addIn('d', d); self.addOut('q', q); self.addOut('z', z)
            w = q.getWidth()
            s = self.wire('s', w)
            py4hw.Add(self, 'add', q, d, s)
            py4hw.Reg(self, 'acc', s, q)
            self.stage = Stage(self, 'stage', q, z)
            if inner_domain is not None:
                en = self.wire('en2'); py4hw.Bit(self, 'en2', q, 0, en)
                q2 = self.wire('q2', w + 1); d2 = self.wire('d2', w + 1)
                py4hw.ZeroExtend(self, 'zx', q, d2)
                self.inner = Stage(self, 'inner', d2, q2)
                self.inner.clockDriver = py4hw.ClockDriver(inner_domain, base=None, wire=en, enable=en)

    _classes.update(CounterBehavioural=CounterBehavioural, SelectType=SelectType, Acc=Acc, Box2=Box2, Outer=Outer, Stage=Stage, Pipe=Pipe)
    return _classes


FAMILIES = ['rand', 'lib', 'beh', 'alias', 'clk2', 'beh2', 'param', 'inout']


def build(family, seed):
    """reproducible from (family, seed).  All circuits are legal (every port connected)."""
    py4hw = common.quiet_import()
    U = user_classes()
    rng = random.Random(seed * 7919 + {'rand': 1, 'lib': 2, 'beh': 3, 'alias': 4, 'bad': 5, 'clk2': 6, 'beh2': 7, 'param': 8, 'inout': 9}[family])
    with quiet():
        if family == 'rand':
            for attempt in range(8):          # a library constructor may reject a random configuration: legal circuits only
                try:
                    hw, ins, info = designs.build_random(rng, n_blocks=rng.randint(3, 10), n_inputs=rng.randint(1, 3))
                    return Circ(family, seed, hw, ins)
                except Exception:
                    rng = random.Random(seed * 7919 + 1 + 104729 * (attempt + 1))
            raise RuntimeError('no legal random design for seed %d' % seed)
        hw = py4hw.HWSystem()
        w = rng.choice([1, 2, 3, 8, 13])
        a = hw.wire('a', w); b = hw.wire('b', w)
        if family == 'lib':
            o1 = hw.wire('o1', w); o2 = hw.wire('o2', w)
            U['Outer'](hw, 'outer1', a, b, o1, rng.randrange(8))
            U['Outer'](hw, 'outer2', o1, a, o2, rng.randrange(8))
            ab = hw.wire('abs', w); py4hw.Abs(hw, 'abs', o2, ab)
            if rng.random() < .5:
                s = hw.wire('sub', w); py4hw.Sub(hw, 'sub', a, b, s)
            if rng.random() < .5:
                cnt = hw.wire('cnt', 4); car = hw.wire('car'); rst = hw.wire('rst'); inc = hw.wire('inc')
                py4hw.Constant(hw, 'rst', 0, rst); py4hw.Constant(hw, 'inc', 1, inc)
                py4hw.ModuloCounter(hw, 'counter', rng.choice([3, 5, 10]), rst, inc, cnt, car)
            return Circ(family, seed, hw, [a, b])
        if family == 'beh':
            inc = hw.wire('inc'); q = hw.wire('q', 8)
            U['CounterBehavioural'](hw, 'counter', inc, q)
            op = hw.wire('op', 7); it = hw.wire('it', 3)
            U['SelectType'](hw, 'select', op, it)
            qa = hw.wire('qa', w)
            U['Acc'](hw, 'acc', a, qa, rng.randrange(1, 5))
            o1 = hw.wire('o1', w); U['Outer'](hw, 'outer', a, qa, o1, rng.randrange(8))
            if rng.random() < .5:
                from py4hw.emulation.vitiswrapping import Axi2ClkFSM
                ah = hw.wire('active_handshake'); ct = hw.wire('clk_target', 64); rc = hw.wire('reset_clk_count')
                cc = hw.wire('clk_count', 64); co = hw.wire('clk_out'); lo = hw.wire('load_outs')
                Axi2ClkFSM(hw, 'fsm', ah, ct, rc, cc, co, lo)
                return Circ(family, seed, hw, [a, inc, op, ah, ct])
            return Circ(family, seed, hw, [a, inc, op])
        if family == 'alias':
            # two instances of one structureName()'d structure, one of them with both inputs on the same wire
            r1 = hw.wire('r1', w); r2 = hw.wire('r2', w); l = hw.wire('l')
            if rng.random() < .5:
                py4hw.Add(hw, 'u1', a, a, r1)
                U['Box2'](hw, 'bx', a, b, r2, l)
            else:
                U['Box2'](hw, 'bx', a, b, r2, l)
                py4hw.Add(hw, 'u1', b, b, r1)
            return Circ(family, seed, hw, [a, b])
        if family == 'beh2':
            # a random selection (random order) of behavioural blocks with overlapping names, each on wires of its own
            kinds = ['Thresh', 'LowBits', 'Stepper', 'Window', 'Clip', 'Acc', 'Thresh', 'Window']
            rng.shuffle(kinds)
            kinds = kinds[:rng.randint(2, 5)]
            ins = [a]
            for i, k in enumerate(kinds):
                r = hw.wire('r%d' % i, w)
                if k == 'Thresh':
                    r1 = hw.wire('t%d' % i); U[k](hw, 'u%d' % i, a, r1, rng.choice([0xF0, 0x0C, 5, 1]))
                elif k == 'LowBits':
                    n = hw.wire('n%d' % i, 3); ins.append(n); U[k](hw, 'u%d' % i, a, n, r)
                elif k == 'Window':
                    U[k](hw, 'u%d' % i, a, r, rng.randrange(0, 4))
                elif k == 'Acc':
                    U[k](hw, 'u%d' % i, a, r, rng.randrange(1, 6))
                else:
                    U[k](hw, 'u%d' % i, a, r)
            return Circ(family, seed, hw, ins)
        if family == 'param':
            w = rng.choice([8, 12, 16])
            a = hw.wire('pa', w); b = hw.wire('pb', w); load = hw.wire('load'); r = hw.wire('pr', w)
            U['PTop'](hw, 'top', a, b, load, r, rng.randrange(2, 6), rng.randrange(1, 4), rng.randrange(8))
            ins = [a, b, load]
            if rng.random() < .5:                                         # a second parameterised block, other values
                r2 = hw.wire('pr2', w)
                U['PTop'](hw, 'top2', b, a, load, r2, rng.randrange(2, 6), rng.randrange(1, 4), rng.randrange(8))
            return Circ(family, seed, hw, ins)
        if family == 'inout':
            # bidirectional nets: one or two pads (one- and two-level wrappers) on BidirWires, plus some ordinary logic
            wd = rng.choice([1, 4, 8])
            dout = hw.wire('dout', wd); oe = hw.wire('oe'); ins = [dout, oe]
            n = rng.randint(1, 2)
            for i in range(n):
                pad = py4hw.BidirWire(hw, 'pad%d' % i, wd); din = hw.wire('din%d' % i, wd)
                U['PadPair' if (rng.random() < .5) else 'Pad'](hw, 'io%d' % i, din, dout, oe, pad)
            if rng.random() < .5:
                q = hw.wire('q', wd); py4hw.Reg(hw, 'reg', dout, q)
            return Circ(family, seed, hw, ins)
        if family == 'clk2':
            # several clock domains: a named ClockDriver on a structural sub-block, registers below it (2-3 levels).
            # Register widths differ between the fast and the derived domains; two sibling derived domains may share a Reg<w>
            # module once Reg modules have a fixed clock port name (probed below).
            rst = hw.wire('reset'); one = hw.wire('one'); pq = hw.wire('pq', 2); tick = hw.wire('tick')
            py4hw.Constant(hw, 'reset', 0, rst); py4hw.Constant(hw, 'one', 1, one)
            py4hw.ModuloCounter(hw, 'presc', rng.choice([3, 4]), rst, one, pq, tick)        # fast domain: Reg2...
            ws = rng.choice([5, 9, 12])
            d = hw.wire('d', ws); q = hw.wire('q', ws); z = hw.wire('z', ws)
            variant = rng.randrange(3)
            slow = U['Pipe'](hw, 'slow', d, q, z, inner_domain='clk_inner' if variant == 1 else None)
            slow.clockDriver = py4hw.ClockDriver(rng.choice(['clk_slow', 'clk_div']), base=hw.clockDriver, wire=tick, enable=tick)
            if variant == 1:
                slow.inner.clockDriver.base = slow.clockDriver
            if variant == 2:                                                                  # a second derived domain, sibling
                t2 = hw.wire('tick2'); py4hw.Not(hw, 'ntick', tick, t2)
                import py4hw.rtl_generation as R_
                # with a fixed clock port name on Reg modules (repo 3ea2d5c) one Reg<w> module may serve two domains: exercise it
                w3 = ws if (hasattr(R_, 'getClockPortName') and rng.random() < .5) else ws + 2
                d3 = hw.wire('d3', w3); q3 = hw.wire('q3', w3); z3 = hw.wire('z3', w3)
                other = U['Pipe'](hw, 'other', d3, q3, z3)
                other.clockDriver = py4hw.ClockDriver('clk_other', base=hw.clockDriver, wire=t2, enable=t2)
                return Circ(family, seed, hw, [d, d3])
            return Circ(family, seed, hw, [d])
        if family == 'bad':
            r1 = hw.wire('r1', w); l = hw.wire('l')
            bx = U['Box2'](hw, 'bx', a, b, r1, l)
            bx.children['add'].inPorts[0].wire = None         # as test_structural_verilog_3 does
            return Circ(family, seed, hw, [a, b])
    raise ValueError(family)


def edit_candidates(circ):
    from py4hw.base import has_method
    objs = circ.objs()
    return [p for p, o in objs.items() if len(o.children) > 0 and not o.isPrimitive() and not has_method(o, 'structureName')]


def edit_target(circ):
    """the structural object the NEXT apply_edit will extend (deterministic in the circuit and its edit count)"""
    cands = edit_candidates(circ)
    return cands[(circ.seed + 3 * circ.edits) % len(cands)]


def apply_edit(circ):
    """a legal edit of the circuit between two requests: one more block (and wire) in a structural object that is
    not a shared structure.  Deterministic in (circuit, number of edits so far), so a rebuilt copy can follow."""
    py4hw = common.quiet_import()
    objs = circ.objs()
    k = circ.edits
    path = edit_target(circ)
    par = objs[path]
    wires = [pt.wire for ch in par.children.values() for pt in ch.inPorts + ch.outPorts
             if isinstance(pt.wire, py4hw.Wire)] + [pt.wire for pt in par.inPorts if isinstance(pt.wire, py4hw.Wire)]
    src = wires[(circ.seed + k) % len(wires)]
    with quiet():
        nw = par.wire('ed%d' % k, src.getWidth())
        py4hw.Buf(par, 'edbuf%d' % k, src, nw)
    circ.edits += 1
    return path


# ------------------------------------------------------------------ deep snapshot
def snapshot(top):
    """everything generation could disturb: structure, port lists, wires (name, width, value, source, sinks),
    attributes of every object, parameters, the class-level list Wire.prepared."""
    py4hw = common.quiet_import()
    Logic, Wire = py4hw.Logic, py4hw.Wire

    def enc(v, depth=0):
        if v is None or isinstance(v, (bool, int, float, str)):
            return v
        if isinstance(v, Logic):
            return ('logic', id(v))
        if isinstance(v, Wire) or type(v).__name__ in ('FakeWire', 'BidirWire'):
            return ('wire', id(v))
        if depth > 3:
            return ('deep', type(v).__name__)
        if isinstance(v, (list, tuple)):
            return (type(v).__name__,) + tuple(enc(x, depth + 1) for x in v)
        if isinstance(v, dict):
            return ('dict',) + tuple((enc(k, depth + 1), enc(x, depth + 1)) for k, x in v.items())
        if type(v).__name__ in ('InPort', 'OutPort', 'InOutPort'):
            return (type(v).__name__, v.name, id(v.wire), id(v.parent))
        if type(v).__name__ == 'ClockDriver':
            return ('clockdriver', v.name, id(v.wire), enc(getattr(v, 'enable', None), depth + 1))
        if type(v).__name__ == 'Parameter':
            return ('parameter', v.name, id(v.obj))
        return ('obj', type(v).__name__, id(v))

    snap = {}
    wires = {}
    def addw(w):
        if w is None or id(w) in wires:
            return
        d = {}
        for k, v in vars(w).items():
            d[k] = enc(v)
        wires[id(w)] = (type(w).__name__, tuple(sorted(d.items(), key=lambda kv: kv[0])))
    def go(o, path):
        d = {}
        for k, v in vars(o).items():
            if k == 'simulator':
                d[k] = ('simulator', v is None)
                continue
            d[k] = enc(v)
        snap[path] = (type(o).__name__, id(o), tuple(d.items()))
        for w in o._wires.values(): addw(w)
        for p in o.inPorts + o.outPorts + o.inOutPorts: addw(p.wire)
        for n, c in o.children.items():
            go(c, path + '/' + n)
    go(top, '')
    return {'objs': snap, 'wires': wires, 'prepared': tuple(id(w) for w in Wire.prepared)}


def snap_diff(a, b):
    if a == b:
        return None
    for part in ('objs', 'wires'):
        for k in list(a[part].keys()) + [k for k in b[part].keys() if k not in a[part]]:
            if a[part].get(k) != b[part].get(k):
                x, y = a[part].get(k), b[part].get(k)
                detail = None
                if x and y and len(x) == len(y):
                    ia = dict(x[-1]) if isinstance(x[-1], tuple) else {}
                    ib = dict(y[-1]) if isinstance(y[-1], tuple) else {}
                    detail = {kk: (ia.get(kk), ib.get(kk)) for kk in set(ia) | set(ib) if ia.get(kk) != ib.get(kk)}
                return {'part': part, 'key': k, 'changed': str(detail)[:600] if detail else (str(x)[:300], str(y)[:300])}
    return {'part': 'prepared', 'before': a['prepared'], 'after': b['prepared']}


def wire_values(top):
    import netlist
    return [w.get() for w in netlist.all_wires(top)]


# ------------------------------------------------------------------ live hierarchy -> Model/GenState.node
class NotDumpable(Exception):
    pass


class Interner:
    def __init__(self):
        self.tab, self.strs = {}, []
    def __call__(self, s):
        s = str(s)
        if s not in self.tab:
            self.tab[s] = len(self.strs); self.strs.append(s)
        return self.tab[s]


def dump_node(gen, R, obj, tk):
    py4hw = common.quiet_import()
    from py4hw.base import has_method, getObjectClockDriver
    if isinstance(obj, py4hw.GatedClock):
        raise NotDumpable('GatedClock')
    body, inl = gen.isProvidingBody(obj), gen.isInlinable(obj)
    if obj.isPropagatable():
        kind = 'KBody' if body else 'KInline' if inl else 'KTrans'
    elif obj.isRunnable():
        kind = 'KTrans'
    elif obj.isClockable():
        kind = 'KBody' if body else 'KTrans'
    else:
        kind = 'KStruct'
    if obj.getParameterNames() is not None:
        raise NotDumpable('parameters')
    sn = 'Some %d' % tk(obj.structureName()) if has_method(obj, 'structureName') else 'None'
    # name of the implicit clock PORT of obj's module: the model takes it as data of the node.  Probe: since repo commit 3ea2d5c the
    # generator has getClockPortName(obj) ('clk' for Reg modules, which are shared across clock domains, else the domain's driver
    # name); before it, the header used the driver name directly.  The dump follows whichever the code under test has.
    clkname = R.getClockPortName(obj) if hasattr(R, 'getClockPortName') else getObjectClockDriver(obj).name
    clk = 'Some %d' % tk(clkname) if gen.anyClockableDescendant(obj) else 'None'
    ports = []
    for p in obj.inPorts + obj.outPorts + obj.inOutPorts:
        if p.wire is None:
            raise NotDumpable('unconnected port')
        ports.append('{| p_name := %d; p_res := %s; p_wire := %d; p_wtok := %d; p_fake := %s |}' % (
            tk(p.name), common.blit(R.isReservedVerilogKeyword(p.name)), id(p.wire), tk(p.wire.name),
            common.blit(isinstance(p.wire, py4hw.FakeWire))))
    kids = [dump_node(gen, R, c, tk) for c in obj.children.values()]
    return 'Node %d %d %d (%s) %s %s (%s) [%s] [%s]' % (
        id(obj), tk(obj.name), tk(type(obj).__name__), sn, kind, common.blit(inl), clk, '; '.join(ports), '; '.join(kids))


FLAT_PRELUDE = r'''From Coq Require Import ZArith List Bool.
From V Require Import Model.GenState Spec.C19.
Import ListNotations.
Open Scope Z_scope.
Definition oz (o : option Z) : Z := match o with Some x => x | None => -1 end.
Definition fsn (s : sname) : Z * Z := (fst s, oz (snd s)).
Definition fitem (i : item) :=
  match i with
  | IInline t nm => (0, (t, -1), 0, nm, @nil (vname * vname))
  | IInst m n cs => (1, fsn m, n, @nil vname, cs)
  | IOpaque t => (2, (t, -1), 0, @nil vname, @nil (vname * vname))
  end.
Definition fchunk (c : chunk) :=
  match c with
  | CModule n clk ps ds body => (0, fsn n, oz clk, ps, ds, map fitem body)
  | CInlineTop t nm => (1, (t, -1), -1, nm, @nil vname, [])
  end.
Definition fcache (c : option (oid * namemap)) := match c with Some (o, m) => (o, m) | None => (-1, []) end.
Fixpoint trace (s : pst) (rs : list req) :=
  match rs with
  | [] => []
  | r :: rest => let '(s1, a) := step s r in
                 (match a with Some t => (1, map fchunk t) | None => (0, []) end,
                  fcache (p_cache s1), map (map fsn) (p_heap s1), p_log s1) :: trace s1 rest
  end.
(* the reference generator on the same requests, for the states the model goes through *)
Fixpoint ref_trace (s : pst) (rs : list req) :=
  match rs with
  | [] => []
  | r :: rest =>
      let a := match req_gen r with
               | Some g => match nth_error (p_gens s) g with
                           | Some ge => ref_answer (p_env s) (ge_circ ge) (ge_root ge) r (req_pre s r)
                           | None => None end
               | None => None end in
      (match a with Some t => (1, map fchunk t) | None => (0, []) end) :: ref_trace (fst (step s r)) rest
  end.
'''


# ------------------------------------------------------------------ real text -> chunk summaries
HEADER = '// This file was automatically created by py4hw Verilog generator\n'
_PORT = re.compile(r'^(input|output|inout)\s+(?:reg\s+)?(?:\[\d+:0\]\s+)?(\w+)$')
_DECL = re.compile(r'^wire (?:\[\d+:0\] )?(\w+);$')
_INST = re.compile(r'^(\S+) (?:#\(.*?\) )?i_(\w+)\((.*)\);$')      # module names may contain '-' (Reg8_v-259)
_CONN = re.compile(r'\.(\w+)\((\w*)\)')


def parse_text(text):
    """-> list of dicts  {kind:'module', name, header:[names], decls:[names], insts:[(mod, iname, [(port, wire)])], idents:set}
       or {kind:'inline_top', idents:set}"""
    chunks = []
    parts = text.split(HEADER)
    if parts[0].strip():
        if parts[0].startswith('// WARNING: inlined out of scope'):
            chunks.append({'kind': 'inline_top', 'idents': set(re.findall(r'\w+', parts[0].split('\n', 1)[1]))})
        else:
            chunks.append({'kind': 'garbage', 'text': parts[0][:200]})
    for part in parts[1:]:
        lines = part.split('\n')
        m = re.match(r'module (\S+)', lines[0])
        d = {'kind': 'module', 'name': m.group(1) if m else None, 'header': [], 'decls': [], 'insts': [], 'idents': set()}
        i = 1
        # header up to the line that ends with ");"
        while i < len(lines):
            s_ = lines[i].strip()
            end = s_.endswith(');')
            s_ = s_[:-2].strip() if end else s_.rstrip(',').strip()
            pm = _PORT.match(s_)
            if pm: d['header'].append(pm.group(2))
            i += 1
            if end: break
        while i < len(lines) and _DECL.match(lines[i]):
            d['decls'].append(_DECL.match(lines[i]).group(1)); i += 1
        for l in lines[i:]:
            im = _INST.match(l)
            if im and not l.startswith('assign '):
                d['insts'].append((im.group(1), im.group(2), _CONN.findall(im.group(3))))
            else:
                d['idents'] |= set(re.findall(r'\w+', l))
        chunks.append(d)
    return chunks
