"""C01 composition: dump a live py4hw design as the `list prim` / `list reginst` terms of coq/Model/C01Prim.v (net ids resolved against the
elaborated flat design INSIDE Coq, by flat name), so that `match_flat prims regs clk ins f = true` — the decidable hypothesis of
Properties/C01Compose.v — can be decided by vm_compute for that design.  A design is covered when every instance the Verilog
generator prints (one assign per inlined block, n assigns per Bits block, one body per Reg) is a modelled class and the simulator leaves are
exactly those instances or lie below a MACRO block (Xor2, Nand2, Nor2, And, Or, Nor, Equal, EqualConstant: one assign in the text, a gate
sub-network in the simulator; the kernel leaf is C08's model of that sub-network).  The Coq terms are `list citem` (IPrim / IBits) and
`list reginst`; the decided hypothesis is `match_items` (Properties/C01Compose.v: C01_vsim_compose_items[_noclock]).

    cover(top)                 -> Cover (prims in Simulator.propagatables order, regs in clockables order) or raises NotCovered
    check(tag, cases)          -> per case ('ok', n_prims, n_regs) | ('nomatch', failing conjuncts) | ('notcovered', why) | ('elab', err) | ('parse', msg)
    check_with_trace(...)      -> additionally runs the Coq kernel model built from the SAME terms against the real simulator's trace
"""
import common, vlog, vparse
from common import zlit, quiet
from props.c01 import flat_name, inst_path

# class -> (constructor, attribute names of the net arguments after r, then constant getters)
BIN = {'And2': 'PAnd2', 'Or2': 'POr2', 'Sub': 'PSub', 'Mul': 'PMul', 'SignedMul': 'PSignedMul'}
UN = {'Not': 'PNot', 'Buf': 'PBuf', 'ZeroExtend': 'PZeroExtend', 'SignExtend': 'PSignExtend'}
# MACRO-LEAVES: inlined as one assign, structural in the simulator; the kernel leaf is C08's model of the sub-network (Model/StructLogic.v)
MBIN = {'Xor2': 'PXor2', 'Nand2': 'PNand2', 'Nor2': 'PNor2', 'Equal': 'PEqual'}
MNARY = {'And': 'PAnd', 'Or': 'POr', 'Nor': 'PNor'}
MACRO = set(MBIN) | set(MNARY) | {'EqualConstant'}
BIN.update({'Div': 'PDiv', 'Mod': 'PMod'})       # zero divisors: the leaf fixes the simulator's random result; such rows are outside the claim
COVERED = set(BIN) | set(UN) | MACRO | {'BitsLSBF', 'BitsMSBF'} | {'AddCarryIn', 'ShiftLeftConstant', 'ShiftRightConstant', 'Mux2', 'Range', 'Bit', 'Constant',
                                        'ConcatenateMSBF', 'ConcatenateLSBF', 'Repeat'}


class NotCovered(Exception):
    pass


def nid(top, scope, wire):
    return '(N f "%s" %d)' % (flat_name(top, scope, wire), wire.getWidth())


def item_term(top, ch):
    cls = type(ch).__name__
    n = lambda w: nid(top, ch.parent, w)
    if cls in ('BitsLSBF', 'BitsMSBF'):
        return 'IBits %s %s [%s]' % ('true' if cls == 'BitsMSBF' else 'false', n(ch.a), '; '.join(n(b) for b in ch.bits))
    return 'IPrim (%s)' % prim_term(top, ch)


def prim_term(top, ch):
    cls = type(ch).__name__
    n = lambda w: nid(top, ch.parent, w)
    if cls in BIN: return '%s %s %s %s' % (BIN[cls], n(ch.r), n(ch.a), n(ch.b))
    if cls in UN: return '%s %s %s' % (UN[cls], n(ch.r), n(ch.a))
    if cls in MBIN: return '%s %s %s %s' % (MBIN[cls], n(ch.r), n(ch.a), n(ch.b))
    if cls in MNARY: return '%s %s [%s]' % (MNARY[cls], n(ch.r), '; '.join(n(x) for x in ch.ins))
    if cls == 'EqualConstant': return 'PEqualConst %s %s %s' % (n(ch.r), n(ch.a), zlit(ch.v & ((1 << ch.a.getWidth()) - 1)))   # the repaired emitter prints the masked constant
    if cls == 'AddCarryIn': return 'PAddCI %s %s %s %s' % (n(ch.r), n(ch.a), n(ch.b), n(ch.ci))
    if cls == 'ShiftLeftConstant': return 'PShl %s %s %s' % (n(ch.r), n(ch.a), zlit(ch.getParameterValue('n')))
    if cls == 'ShiftRightConstant': return 'PShr %s %s %s' % (n(ch.r), n(ch.a), zlit(ch.getParameterValue('n')))
    if cls == 'Mux2': return 'PMux2 %s %s %s %s' % (n(ch.r), n(ch.sel), n(ch.sel0), n(ch.sel1))
    if cls == 'Range': return 'PRange %s %s %s %s' % (n(ch.r), n(ch.a), zlit(ch.high), zlit(ch.low))
    if cls == 'Bit': return 'PBit %s %s %s' % (n(ch.r), n(ch.a), zlit(ch.bit))
    if cls == 'Constant': return 'PConstant %s %s' % (n(ch.r), zlit(ch.value))
    if cls == 'ConcatenateMSBF': return 'PConcatMSBF %s [%s]' % (n(ch.r), '; '.join(n(x) for x in ch.ins))
    if cls == 'ConcatenateLSBF': return 'PConcatLSBF %s [%s]' % (n(ch.r), '; '.join(n(x) for x in ch.ins))
    if cls == 'Repeat': return 'PRepeat %s %s' % (n(ch.r), n(ch.i))
    raise NotCovered('class %s' % cls)


def reg_term(top, ch):
    n = lambda w: nid(top, ch.parent, w)
    w = ch.q.getWidth()
    rq = '(N f "%srq" %d)' % (inst_path(top, ch), w)
    opt = lambda x: 'None' if x is None else 'Some %s' % n(x)
    return '{| rg_rq := %s; rg_q := %s; rg_d := %s; rg_e := %s; rg_r := %s; rg_rv := %s |}' % (
        rq, n(ch.q), n(ch.d), opt(ch.e), opt(ch.r), zlit(ch.reset_value))


def mem_term(top, ch):
    """one SynchronousMemory instance as a `meminst` (Model/C01Seq.v): word nets at the first `<path>mem[]`, rreaddata, the port nets"""
    n = lambda w: nid(top, ch.parent, w)
    pre = inst_path(top, ch)
    w, aw = ch.readdata.getWidth(), ch.read_address.getWidth()
    return ('{| mi_base := fst (N f "%smem[]" %d); mi_aw := %d; mi_rr := (N f "%srreaddata" %d); mi_rd := %s; mi_ra := %s; mi_wa := %s; mi_we := %s; mi_wd := %s |}'
            % (pre, w, aw, pre, w, n(ch.readdata), n(ch.read_address), n(ch.write_address), n(ch.write), n(ch.writedata)))


SEQ = ('Reg', 'SynchronousMemory')       # sequential instances under the composition theorem (C01_seq_vsim_compose_items when a memory is present)


class Cover:
    def __init__(self, hw, top):
        py4hw = common.quiet_import()
        with quiet():
            sim = hw.getSimulator()
            gen = py4hw.VerilogGenerator(top)
        inl = {k.__name__ for k in gen.inlinablePrimitives}
        # the instances the generator prints as one assign / one Reg body (walk as the generator does)
        emitted = []
        def walk(obj):
            for ch in obj.children.values():
                cls = type(ch).__name__
                if cls in inl or cls in SEQ: emitted.append(ch)
                elif ch.children: walk(ch)
                else: raise NotCovered('leaf %s (%s) is neither inlined nor a Reg' % (ch.getFullPath(), cls))
        walk(top)
        for ch in emitted:
            cls = type(ch).__name__
            if cls not in SEQ and cls not in COVERED: raise NotCovered('inlined class %s is not a modelled simulator leaf' % cls)
        leaves = list(sim.propagatables)
        drivers = list(sim.clockDrivers.items())
        clocked = [x for _, ds in drivers for x in ds.clockables]
        pos = {id(x): k for k, x in enumerate(leaves)}
        # a macro block stands for all the simulator leaves below it; it is scheduled where its last leaf (the one driving r) is
        def below(obj):
            out = []
            for c in obj.children.values():
                out += below(c) if c.children else [c]
            return out
        items, covered_ids = [], set()
        for ch in emitted:
            cls = type(ch).__name__
            if cls in SEQ: covered_ids.add(id(ch)); continue
            if ch.children:
                sub = below(ch)
                if any(id(x) not in pos for x in sub): raise NotCovered('macro block %s contains a non-combinational leaf' % cls)
                covered_ids.update(id(x) for x in sub)
                items.append((max(pos[id(x)] for x in sub), ch))
            else:
                if id(ch) not in pos: raise NotCovered('inlined leaf %s is not a propagatable' % cls)
                covered_ids.add(id(ch)); items.append((pos[id(ch)], ch))
        if {id(x) for x in leaves} | {id(x) for x in clocked} != covered_ids:
            raise NotCovered('simulator leaves and emitted instances differ')
        if any(type(x).__name__ not in SEQ for x in clocked): raise NotCovered('clocked leaf other than Reg / SynchronousMemory')
        if len(drivers) > 1 or any(drv.enable is not None for drv, _ in drivers): raise NotCovered('gated or multiple clock drivers')
        items.sort(key=lambda t: t[0])
        leaves = [ch for _, ch in items]
        self.hw, self.top, self.sim = hw, top, sim
        self.leaves, self.regs = leaves, clocked
        self.items = '[' + ';\n    '.join(item_term(top, x) for x in leaves) + ']'
        self.has_mem = any(type(x).__name__ != 'Reg' for x in clocked)
        if self.has_mem:
            self.gs = '[' + ';\n    '.join(('SReg %s' % reg_term(top, x)) if type(x).__name__ == 'Reg' else ('SMem %s' % mem_term(top, x)) for x in clocked) + ']'
        else:
            self.gs = '[' + ';\n    '.join(reg_term(top, x) for x in clocked) + ']'
        self.ins = [vlog.vname(p.name) for p in top.inPorts]
        self.outs = [vlog.vname(p.name) for p in top.outPorts]
        self.clk = vlog.clock_name(top)


DEFS = '''
Definition N (f : flat) (name : string) (w : Z) : nid := (match net_index (f_nets f) name 0 with Some i => i | None => 4999%nat end, w).
Definition NI (f : flat) (name : string) : nat := match net_index (f_nets f) name 0 with Some i => i | None => 4999%nat end.
(* which conjuncts of match_flat fail (diagnostics only; the verdict is match_flat itself) *)
Definition diag (ps : list prim) (gs : list reginst) (clk : nat) (ins : list nat) (f : flat) : list (nat * bool) :=
  let rqs := map (fun g => fst (rg_rq g)) gs in
  let all := (map reg_buf gs ++ ps)%list in
  [(1%nat, forallb (fun a => existsb (fun p => existsb (assign_eqb a) (prim_assigns p)) all) (f_assigns f));
   (2%nat, forallb (fun p => has_assigns f (prim_assigns p)) all);
   (3%nat, nodup_nat (map (fun p => fst (prim_out p)) all));
   (4%nat, nodup_nat (map (fun a => lnet (fst a)) (f_assigns f)));
   (5%nat, forallb (fun p => forallb (nid_ok f) (prim_nids p)) all);
   (6%nat, no_star f); (7%nat, forallb prim_wf all); (8%nat, pordered all); (9%nat, forallb reg_wf gs);
   (10%nat, forallb (fun g => forallb (nid_ok f) (reg_nids g)) gs); (11%nat, procs_match clk (f_procs f) gs); (12%nat, nodup_nat rqs);
   (13%nat, init_ok f gs)].
Definition failing (l : list (nat * bool)) : list nat := map fst (filter (fun p => negb (snd p)) l).
'''
DEFS_S = '''
Definition diag_s (ps : list prim) (gs : list sinst) (clk : nat) (ins : list nat) (f : flat) : list (nat * bool) :=
  let priv := flat_map si_priv gs in
  let all := (map si_buf gs ++ ps)%list in
  [(1%nat, forallb (fun a => existsb (fun p => existsb (assign_eqb a) (prim_assigns p)) all) (f_assigns f));
   (2%nat, forallb (fun p => has_assigns f (prim_assigns p)) all);
   (3%nat, nodup_nat (map (fun p => fst (prim_out p)) all));
   (4%nat, nodup_nat (map (fun a => lnet (fst a)) (f_assigns f)));
   (5%nat, forallb (fun p => forallb (nid_ok f) (prim_nids p)) all);
   (6%nat, no_star f); (7%nat, forallb prim_wf all); (8%nat, pordered all); (9%nat, forallb si_wf gs);
   (10%nat, forallb (si_nets_ok f) gs); (11%nat, sprocs_match clk (f_procs f) gs); (12%nat, nodup_nat priv);
   (13%nat, sinit_ok f gs)].
'''
PRELUDE = vlog.PRELUDE + 'From V Require Import Gen.Seq Model.Inline Model.SimKernel Model.Trace Model.C01Prim Model.C01Mem Model.C01Seq.\n' + DEFS + DEFS_S


def check(tag, cases, with_trace=False):
    """cases: list of dict(label, hw, top, text [, steps, trace]).  One coqc call.  Per case:
       ('ok', n_prims, n_regs)      match_flat = true AND the side conditions of C01_vsim_compose[_noclock] hold for the case's stimulus
                                    (clock name resolves / no clock for register-free designs, observed nets are not rq nets, only inputs poked)
                                    [with_trace: AND the kernel design built from the same terms reproduces the real simulator's trace]
       ('guard', failing)           everything matches except prim_wf / reg_wf: the instance is in a class the theorems exclude by a documented
                                    guard (e.g. SignExtend to the SAME width, whose `{0{..}}` is the C03 finding; multi-bit Mux2 select / Reg enable)
       ('nomatch', failing conjuncts of match_flat, side-condition flag)   covered classes, but the text is not the modelled one
       ('kernel-differs', kernel trace, impl trace) | ('notcovered', why) | ('elab', err) | ('parse', msg)"""
    items, body, res = [], [PRELUDE], {}
    for i, b in enumerate(cases):
        try:
            cv = Cover(b['hw'], b['top'])
        except NotCovered as ex:
            res[i] = ('notcovered', str(ex)); continue
        except Exception as ex:                      # a design the dumper cannot describe is simply not covered by the theorem
            res[i] = ('notcovered', 'dumper: %s: %s' % (type(ex).__name__, ex)); continue
        try:
            mods = vparse.parse(b['text'])
        except vparse.VParseError as ex:
            res[i] = ('parse', str(ex)); continue
        b['cover'] = cv
        body.append('Definition dsg%d : VSyntax.design := %s.' % (i, vparse.cq_design(mods)))
        body.append('Definition its%d (f : flat) : list citem :=\n   %s.' % (i, cv.items))
        body.append('Definition ps%d (f : flat) : list prim := flat_map item_prims (its%d f).' % (i, i))
        S = cv.has_mem          # a memory among the sequential instances: the generalised development (Properties/C01Mem.v, C01_seq_vsim_compose_items)
        body.append('Definition gs%d (f : flat) : list %s :=\n   %s.' % (i, 'sinst' if S else 'reginst', cv.gs))
        insl = '[' + '; '.join('NI f "%s"' % n for n in cv.ins) + ']'
        clk = 'NI f "%s"' % cv.clk
        steps = b.get('steps') or []
        vsteps = vlog.coq_steps([([(vlog.vname(a), v) for a, v in ins], n) for ins, n in steps])
        outs = '[' + '; '.join('"%s"' % n for n in cv.outs) + ']'
        privl = ('(flat_map si_priv (gs%d f))' if S else '(map (fun g => fst (rg_rq g)) (gs%d f))') % i
        # side conditions of the end-to-end theorem, decided for this stimulus
        side = ('(match net_index (f_nets f) "%s" 0 with Some c => Nat.eqb c (%s) | None => match gs%d f with nil => true | _ => false end end) '
                '&& forallb (fun o => negb (mem_nat o %s)) (resolve_names f %s) '
                '&& forallb (fun st => forallb (fun p => mem_nat (net_of f (fst p)) %s) (fst st)) %s' % (cv.clk, clk, i, privl, outs, insl, vsteps))
        dsg = ('comp_design_items_s f (its%d f) (gs%d f)' if S else 'comp_design_items f (its%d f) (gs%d f)') % (i, i)
        st0 = ('(map si_st0 (gs%d f)) (si_pokes (gs%d f))' if S else '(reg_st0 (gs%d f)) (reg_pokes (gs%d f))') % (i, i)
        extra = ''
        if with_trace:
            # the kernel design built from the SAME terms, run on the stimulus: its observable trace must be the real simulator's
            extra = (', map (fun s => (map (rd (vals s)) (resolve_names f %s), forallb (fun b => negb (Z.eqb (rd (vals s) b) 0)) (div_nets (ps%d f)))) '
                     '(run_states (%s) (init_poked (%s) %s) (map (kstep f) %s))' % (outs, i, dsg, dsg, st0, vsteps))
        term = ('match elaborate dsg%d 200 %s with inl e => inl e | inr f => inr (' + ('match_items_s' if S else 'match_items') + ' (its%d f) (gs%d f) (%s) %s f, '
                'failing (' + ('diag_s' if S else 'diag') + ' (ps%d f) (gs%d f) (%s) %s f), %s%s) end')
        items.append(('m%d' % i, term % (i, vparse.cq_str(mods[0][1]), i, i, clk, insl, i, i, clk, insl, side, extra)))
    if items:
        out = common.coq_eval(tag, '\n'.join(body), items)
        for name, r in out.items():
            i = int(name[1:])
            if r[0] == 'inl': res[i] = ('elab', r[1]); continue
            v = r[1]
            ok, failing, side = v[0], v[1], v[2]
            cv = cases[i]['cover']
            if not ok and failing and set(failing) <= {7, 9}: res[i] = ('guard', failing)      # only prim_wf / reg_wf fail: a class the theorems exclude
            elif not (ok and side): res[i] = ('nomatch', failing, side)
            elif with_trace and not same_trace(v[3], cases[i]['trace'], len(cv.regs)):
                res[i] = ('kernel-differs', [list(r[0]) for r in v[3]], cases[i]['trace'])
            else: res[i] = ('ok', len(cv.leaves), len(cv.regs))
    return [res[i] for i in range(len(cases))]


def same_trace(krows, impl, n_regs):
    """kernel rows (observed values, no-zero-divisor flag) against the real simulator's rows.  Rows the property excludes are skipped:
    impl row None (the caller's exclusion) or a zero divisor net in that state; once a zero divisor occurred in a design WITH registers
    the later rows are outside the claim too (a register may have latched the simulator's random result)."""
    if len(krows) != len(impl): return False
    for (kv, nz), row in zip(krows, impl):
        if not nz:
            if n_regs: return True
            continue
        if row is None: continue
        if list(kv) != list(row): return False
    return True


def make_cases(seed=1, tier='quick', n_rand=8, n_steps=6):
    import random, blocks
    rng = random.Random(seed)
    cases = []
    for label, ins, outs, body in blocks.catalogue(rng, tier):
        try:
            hw, top = blocks.make_top('T_' + label, ins, outs, body)
            text = vlog.emit(top); steps = blocks.stimulus(rng, ins, n_steps, nonzero=('b',) if label in ('Div', 'Mod') else ())
            trace = vlog.run_impl(hw, top, steps)
        except Exception as ex:
            continue
        cases.append(dict(label=label, hw=hw, top=top, text=text, steps=steps, trace=trace))
    for j in range(n_rand):
        rr = random.Random(seed * 7919 + j)
        try:
            hw, top, ins, outs, info = blocks.random_top(rr, n_blocks=rr.randint(3, 10))
            text = vlog.emit(top); steps = blocks.stimulus(rr, ins, n_steps); trace = vlog.run_impl(hw, top, steps)
        except Exception as ex:
            continue
        cases.append(dict(label='rand%d:%s' % (j, '+'.join(info['blocks'])), hw=hw, top=top, text=text, steps=steps, trace=trace))
    return cases


def demo(seed=1, tier='quick', n_rand=8):
    cases = make_cases(seed, tier, n_rand)
    res = []
    for k in range(0, len(cases), 25):
        res += check('C01_compose_demo%d' % k, cases[k:k + 25], with_trace=True)
    tally = {}
    for b, r in zip(cases, res):
        tally[r[0]] = tally.get(r[0], 0) + 1
        print('%-40s %s' % (b['label'][:40], r if r[0] != 'kernel-differs' else r[0]))
    print(tally)
    return cases, res


if __name__ == '__main__':
    import sys
    demo(int(sys.argv[1]) if len(sys.argv) > 1 else 1, n_rand=int(sys.argv[2]) if len(sys.argv) > 2 else 8)
