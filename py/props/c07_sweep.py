"""C07 — three-column sweep engine: real block (impl)  vs  Coq model (Model/StructArithTab.v)  vs  Coq spec (Spec/C07Tab.v).
A job is (block, W, inputs | None=exhaustive).  The real block is built once per job and driven through Wire.put /
propagateAll; the same (W, I) are written into case files and evaluated with vm_compute inside Coq."""
import os, re, time, traceback
from concurrent.futures import ThreadPoolExecutor
import common
from common import zlit, zlist
from props import c07_blocks as B

MODEL_PRELUDE = 'From V Require Import Base.PyInt Model.StructArithTab.\n'
SPEC_PRELUDE = 'From V Require Import Base.PyInt Spec.C07Tab.\n'


class Job:
    def __init__(self, blk, W, inputs=None):
        self.blk, self.W = blk, W
        self.exh = inputs is None
        self.inputs = B.all_inputs(blk, W) if inputs is None else inputs
        self.impl = None        # list of output lists, or ('exc', text) entries
        self.model = None
        self.spec = None
        self.error = None

    def coq_inputs(self):
        if self.exh and self.blk.func is None:
            return '(prodZ %s)' % zlist([1 << w for w in self.blk.in_widths(self.W)])
        return '[' + '; '.join(zlist(I) for I in self.inputs) + ']'

    def term(self, prefix):
        return 'flat_map (%s_%s %s) %s' % (prefix, self.blk.name, zlist(self.blk.wlist(self.W)), self.coq_inputs())

    def size(self):
        return len(self.inputs) * self.blk.nout


def run_impl(job):
    try:
        inst = B.Inst(job.blk, job.W)
    except Exception as ex:
        job.error = 'constructor raised %s: %s' % (type(ex).__name__, ex)
        job.impl = [('exc', job.error)] * len(job.inputs)
        return
    out = []
    for I in job.inputs:
        if job.blk.skip(job.W, I):
            out.append(None); continue
        try:
            out.append(inst.eval(I))
        except Exception as ex:
            out.append(('exc', '%s: %s' % (type(ex).__name__, ex)))
    job.impl = out


def _write_case(tag, prelude, terms):
    """one definition holding the list of all tables of this file, one vm_compute"""
    os.makedirs(common.CASES, exist_ok=True)
    body = [prelude, 'Set Printing Width 1000000.', 'Set Printing Depth 100000000.',
            'Definition case_all : list (list Z) := [\n %s].' % ';\n '.join(terms),
            'Goal True. idtac "@@BEGIN". Abort.', 'Eval vm_compute in case_all.', 'Goal True. idtac "@@END". Abort.']
    open(os.path.join(common.CASES, tag + '.v'), 'w').write('\n'.join(body) + '\n')


def _run_case(tag, n, timeout):
    rc, out = common.sh('ulimit -s unlimited 2>/dev/null; timeout %d coqc -Q . V Cases/%s.v' % (timeout, tag), timeout=timeout + 30, cwd=common.COQ)
    for ext in ('.vo', '.vok', '.vos', '.glob'):
        try: os.remove(os.path.join(common.CASES, tag + ext))
        except OSError: pass
    try: os.remove(os.path.join(common.CASES, '.' + tag + '.aux'))
    except OSError: pass
    if rc != 0:
        raise RuntimeError('coqc failed on Cases/%s.v:\n%s' % (tag, out[-2500:]))
    m = re.search(r'@@BEGIN\n(.*?)@@END', out, re.S)
    if not m: raise RuntimeError('no output for case file %s' % tag)
    txt = m.group(1)
    txt = txt[txt.index('=') + 1:txt.rindex(':')].strip()
    inner = re.findall(r'\[([^\[\]]*)\]', txt[1:-1])
    if len(inner) != n: raise RuntimeError('case file %s: %d tables expected, %d printed' % (tag, n, len(inner)))
    return [[int(x) for x in re.findall(r'-?\d+', t)] for t in inner]


def coq_tables(tag, prelude, prefix, jobs, chunk=12000, timeout=900, par=8):
    """evaluate every job's table; returns {job index: flat list} ; raises RuntimeError if the libraries do not build"""
    deps = common.prelude_deps(prelude)
    for attempt in range(4):
        r = common.build(deps, timeout=900)
        if r['ok'] or r.get('file'): break          # a located Coq error is real; a bare make failure (concurrent edits elsewhere) is retried
        time.sleep(5 + 10 * attempt)
    if not r['ok']:
        raise RuntimeError('cannot build %s: %s' % (deps, r['msg']))
    files, cur, cursz = [], [], 0
    for k, job in enumerate(jobs):
        cur.append(k); cursz += job.size()
        if cursz >= chunk:
            files.append(cur); cur, cursz = [], 0
    if cur: files.append(cur)
    def one(fi):
        idxs = files[fi]
        t = '%s_%d' % (tag, fi)
        _write_case(t, prelude, [jobs[k].term(prefix) for k in idxs])
        return list(zip(idxs, _run_case(t, len(idxs), timeout)))
    out = {}
    with ThreadPoolExecutor(max_workers=par) as ex:
        for res in ex.map(one, range(len(files))):
            for k, v in res: out[k] = v
    return out


def reshape(flat, n, nout):
    if flat is None or len(flat) != n * nout: return None
    return [flat[i * nout:(i + 1) * nout] for i in range(n)]


def sweep(ctx, tag, jobs, with_model=True):
    """fills job.impl / job.model / job.spec.  returns (model_error, spec_error) strings or None"""
    t0 = time.time()
    with ThreadPoolExecutor(max_workers=2) as ex:
        fs = ex.submit(lambda: coq_tables(tag + '_spec', SPEC_PRELUDE, 'st', jobs))
        fm = ex.submit(lambda: coq_tables(tag + '_model', MODEL_PRELUDE, 'mt', jobs)) if with_model else None
        for job in jobs: run_impl(job)          # the real blocks run while Coq evaluates
        t1 = time.time()
        merr = serr = None
        try: st = fs.result()
        except Exception as e: st, serr = {}, str(e)
        try: mt = fm.result() if fm else {}
        except Exception as e: mt, merr = {}, str(e)
    for k, job in enumerate(jobs):
        job.spec = reshape(st.get(k), len(job.inputs), job.blk.nout)
        job.model = reshape(mt.get(k), len(job.inputs), job.blk.nout)
    ctx.log('%s: %d jobs, %d evaluations; impl %.1fs, total %.1fs' % (tag, len(jobs), sum(len(j.inputs) for j in jobs), t1 - t0, time.time() - t0))
    return merr, serr
