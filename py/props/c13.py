"""C13 — single-precision floating-point blocks meet IEEE-754 within stated error bounds.
Proof : Properties/C13.v over the word-level datapath model coq/Model/Fp.v (hand-written, every wire width of the real circuits).
Probe : two widths of the model are parameters read off the live circuit (FPAdder_SP ediff width, FPtoInt_SP p_lost range); the real blocks are
        tied to that instance, and the full-strength theorems are statements about it only for ediff >= 8 bits and Range(shifted, 31, 0).
Tie   : (T-corr) the Coq model is evaluated by vm_compute on structured operands and compared bit-exactly with the REAL blocks
        (FPComparator_SP plain/absolute, FPAdder_SP, FPMult_SP, InttoFP_SP, FPtoInt_SP; each elaborated once, inputs re-poked).
Oracle/search: the REAL blocks against exact rational arithmetic (fractions.Fraction) on every generated operand: exponent-pair grid x
        mantissa boundary patterns, opposite signs with close magnitudes, gaps around 24/32, powers of two +-1 for the conversions, random."""
import time, random
from fractions import Fraction
import common
from props import c13_lib as L

KF_ADD = 'C13-ADD-EDIFF-WRAP'
KF_F2I = 'C13-F2I-PLOST-LSB'
BLOCK_ID = {'cmp': 1, 'cmpabs': 2, 'add': 3, 'mul': 4, 'i2f': 5, 'f2i': 6}


# ------------------------------------------------------------------ operand generators (normal operands only: the domain of the claims)
def gen_pairs(rng, thorough, budget):
    """pairs of normal encodings"""
    pats = L.mant_patterns(thorough)
    few = [0, 1, 0x7fffff, 0x7ffffe, 1 << 22, (1 << 22) - 1, 0x555555]
    exps = L.exps_grid(thorough)
    out = []
    # 1. exponent-pair grid x mantissa boundary patterns x signs
    per = 10 if thorough else 3
    for ea in exps:
        for eb in exps:
            for k in range(per):
                ma = rng.choice(few) if k == 0 else rng.choice(pats)
                mb = rng.choice(few) if k == 1 else rng.choice(pats)
                out.append((L.pack(rng.getrandbits(1), ea, ma), L.pack(rng.getrandbits(1), eb, mb)))
    # 2. every gap 0..40 and 200..253 with the boundary patterns (alignment shift, sticky bits, the ediff wrap)
    for gap in list(range(0, 41)) + [63, 64, 65, 96, 127, 128, 200, 253]:
        for ea in ([gap + 1, 127, 150, 254] if thorough else [gap + 1, 150, 254]):
            eb = ea - gap
            if not (1 <= eb <= 254 and 1 <= ea <= 254): continue
            for ma in few:
                for mb in few:
                    for sa, sb in ((0, 0), (0, 1), (1, 0), (1, 1)):
                        out.append((L.pack(sa, ea, ma), L.pack(sb, eb, mb)))
                        out.append((L.pack(sb, eb, mb), L.pack(sa, ea, ma)))
    # 3. cancellation: opposite signs, equal or adjacent exponents, equal / adjacent / boundary mantissas
    es = exps if thorough else exps[::2]
    for e in es:
        for de in (0, 1):
            if e + de > 254: continue
            for ma in pats[:: (1 if thorough else 3)]:
                for mb in (ma, ma ^ 1, (ma + 1) & 0x7fffff, (ma - 1) & 0x7fffff, 0, 0x7fffff, rng.choice(pats)):
                    s = rng.getrandbits(1)
                    out.append((L.pack(s, e + de, ma), L.pack(1 - s, e, mb)))
    # 4. random normal operands, half of them with close exponents
    n = 120000 if thorough else 4000
    for _ in range(n):
        x = L.pack(rng.getrandbits(1), rng.randrange(1, 255), rng.getrandbits(23))
        if rng.random() < .5:
            e = min(254, max(1, L.fields(x)[1] + rng.randrange(-34, 35)))
            y = L.pack(rng.getrandbits(1), e, rng.getrandbits(23))
        else:
            y = L.pack(rng.getrandbits(1), rng.randrange(1, 255), rng.getrandbits(23))
        out.append((x, y))
    if budget and len(out) > budget:
        rng.shuffle(out); out = out[:budget]
    return out


def gen_ints(rng, thorough):
    out = {0, 1, 2, 3, L.M32, 1 << 31, (1 << 31) + 1, (1 << 31) - 1}
    for k in range(32):
        for d in (-1, 0, 1):
            v = (1 << k) + d
            out |= {v & L.M32, (-v) & L.M32}
        for j in range(k):                               # two set bits: 2^k + 2^j (the lost-bit boundary when k - j > 23), +-1
            if thorough or j in (0, 1, k - 25, k - 24, k - 23, k - 1):
                for d in (-1, 0, 1):
                    v = (1 << k) + (1 << j) + d
                    out |= {v & L.M32, (-v) & L.M32}
        out |= {((1 << 24) - 1) << max(0, k - 23) & L.M32, (((1 << 25) - 1) << max(0, k - 24)) & L.M32}
    for _ in range(20000 if thorough else 3000):
        w = rng.randrange(1, 33)
        out.add(rng.getrandbits(w) << rng.randrange(0, 33 - w))
        out.add((-(rng.getrandbits(w))) & L.M32)
    return sorted(out)


def gen_floats(rng, thorough):
    """normal encodings for FPtoInt_SP: every exponent x mantissa boundary patterns x sign, + integers and half-integers"""
    pats = L.mant_patterns(thorough)
    out = set()
    for e in range(1, 255):
        ps = pats if (thorough or 120 <= e <= 160) else pats[::4]
        for m in ps:
            out.add(L.pack(0, e, m)); out.add(L.pack(1, e, m))
    for k in range(0, 31):                               # 2^k, 2^k +- 1, 2^k + 1/2 ... as floats where representable
        for num in ((1 << k), (1 << k) + 1, (1 << k) - 1, (2 << k) + 1, (4 << k) + 1, (4 << k) + 3):
            for den in (1, 2, 4):
                q = Fraction(num, den)
                if q == 0: continue
                n, d = q.numerator, q.denominator
                bl = n.bit_length()
                if bl > 24: continue
                e = 150 + (bl - 24) - (d.bit_length() - 1)
                m = (n << (24 - bl)) & 0x7fffff
                if 1 <= e <= 254:
                    out.add(L.pack(0, e, m)); out.add(L.pack(1, e, m))
    for _ in range(20000 if thorough else 2000):
        out.add(L.pack(rng.getrandbits(1), rng.randrange(100, 170), rng.getrandbits(23)))
    return sorted(out)


# ------------------------------------------------------------------ impl vs spec on one case; returns None (ok), or a failure record
def check_case(B, kind, x, y=0):
    """evaluates the REAL block; returns (outputs, failure or None, applicable)"""
    o = B.ev(kind, x, y)
    if kind in ('cmp', 'cmpabs'):
        exp = L.spec_cmp(x, y, kind == 'cmpabs')
        if o != exp:
            return o, {'block': 'FPComparator_SP', 'absolute': kind == 'cmpabs', 'expected(gt,eq,lt)': list(exp), 'observed': list(o)}, True
        return o, None, True
    if kind == 'mul':
        ok = L.spec_mul_ok(x, y, o[0])
        if ok is None: return o, None, False
        if not ok:
            return o, {'block': 'FPMult_SP', 'expected': 'normal result within 1 ulp of %s' % (L.val(x) * L.val(y)), 'observed': hex(o[0])}, True
        o2 = B.ev(kind, y, x)
        if o2 != o:
            return o, {'block': 'FPMult_SP', 'expected': 'same result with operands swapped', 'observed': [hex(o[0]), hex(o2[0])]}, True
        return o, None, True
    if kind == 'add':
        ok = L.spec_add_ok(x, y, o[0])
        if ok is None: return o, None, False
        if not ok:
            return o, {'block': 'FPAdder_SP', 'expected': 'normal result, sign of the exact sum %s, error < 2 ulp of the larger operand' % (L.val(x) + L.val(y)),
                       'observed': hex(o[0]), 'exponent_gap': abs(L.fields(x)[1] - L.fields(y)[1])}, True
        o2 = B.ev(kind, y, x)
        if o2 != o:
            return o, {'block': 'FPAdder_SP', 'expected': 'same result with operands swapped', 'observed': [hex(o[0]), hex(o2[0])]}, True
        return o, None, True
    if kind == 'i2f':
        if not L.spec_i2f_ok(x, o[0], o[1]):
            return o, {'block': 'InttoFP_SP', 'expected': 'truncation toward zero of %d to 24 significant bits, p_lost iff bits were discarded' % L.s32(x),
                       'observed': {'r': hex(o[0]), 'p_lost': o[1]}}, True
        return o, None, True
    if kind == 'f2i':
        er, epl, einv = L.spec_f2i(x)
        r, pl, dn, inv = o
        if inv != einv or dn != 0 or (not einv and (r != er or pl != epl)):
            return o, {'block': 'FPtoInt_SP', 'expected': {'r': er, 'p_lost': epl, 'invalid': einv, 'denorm': 0},
                       'observed': {'r': r, 'p_lost': pl, 'invalid': inv, 'denorm': dn}, 'value': str(L.val(x))}, True
        return o, None, True
    raise ValueError(kind)


def attribute(kind, x, y, o):
    """is this failing case an instance of a recorded finding?  It must match the finding's narrow signature AND the same
    datapath with that one predicate neutralised must meet the claim on this input."""
    if kind == 'add':
        ea, eb = L.fields(x)[1], L.fields(y)[1]
        gap = abs(ea - eb)
        if gap % 32 != gap and L.m_add(x, y, ediff_bits=5) == o[0] and L.spec_add_ok(x, y, L.m_add(x, y, ediff_bits=8)):
            return KF_ADD
    if kind == 'f2i':
        er, epl, einv = L.spec_f2i(x)
        v = L.val(x)
        if (not einv) and v.denominator == 1 and v.numerator % 2 == 1 and o == (er, 1, 0, 0) and epl == 0 \
                and L.m_f2i(x, 32) == o and L.m_f2i(x, 31) == (er, epl, 0, einv):
            return KF_F2I
    return None


# ------------------------------------------------------------------ sweeps
def sweep(ctx, B, kind, cases, stats, deadline=None, keep=None):
    """impl vs spec on every case; returns (results for the tie, first failure or None)"""
    res = []
    known = {k['id']: k for k in ctx.known if k.get('status') == 'known'}
    bid = BLOCK_ID[kind] << 64
    first = None; first_key = None
    n = 0
    stride = max(1, len(cases) // (3 * keep)) if keep else 1          # only a structured subset is kept for the tie (memory)
    for c in cases:
        x, y = c if isinstance(c, tuple) else (c, 0)
        o, fail, applicable = check_case(B, kind, x, y)
        n += 1
        if applicable: ctx._distinct.add(bid | (x << 32) | y)
        if applicable and (n % stride == 0 or fail is not None): res.append((x, y, o))   # the tie is checked on the domain of the claims
        if fail is not None:
            fid = attribute(kind, x, y, o)
            if fid is not None and fid in known:
                stats['known'][fid] = stats['known'].get(fid, 0) + 1
                ctx.known_finding(fid, known[fid]['text'])
            else:
                stats['failures'][kind] = stats['failures'].get(kind, 0) + 1
                # keep the simplest failing operand: smallest exponent gap, then fewest set mantissa bits
                key = (abs(L.fields(x)[1] - L.fields(y)[1]) if kind in ('add', 'mul', 'cmp', 'cmpabs') else 0,
                       bin(x & 0x7fffff).count('1') + bin(y & 0x7fffff).count('1'))
                if first is None or key < first_key:
                    first_key = key
                    first = dict(fail); first.update({'kind_of_block': kind, 'inputs': {'a': x, 'b': y, 'a_hex': hex(x), 'b_hex': hex(y)}})
                    if kind not in ('i2f',):
                        first['inputs']['a_fields(s,e,m)'] = list(L.fields(x))
                        if kind != 'f2i': first['inputs']['b_fields(s,e,m)'] = list(L.fields(y))
        if deadline and (n & 1023) == 0 and time.time() > deadline: break
    ctx.count(None, n=n)
    stats['evaluated'][kind] = stats['evaluated'].get(kind, 0) + n
    return res, first


def report_failure(ctx, first):
    f = dict(first)
    f['what'] = 'the real %s violates the C13 claim on this operand (exact-rational oracle)' % f['block']
    f['recipe'] = 'build the block once (py/props/c13_lib.Blocks), a.put(inputs.a); b.put(inputs.b); propagateAll(); read the outputs'
    ctx.violation(f)


# ------------------------------------------------------------------ the tie: Coq model vs real blocks, compared inside Coq
def b(v): return 'true' if v else 'false'

def tie(ctx, results, limit, widths):
    """results: {kind: [(x, y, outputs)]}; evaluates Model/Fp.v on a structured subset and returns the list of mismatches"""
    items = []
    picked = {}
    for kind, rs in results.items():
        if not rs: continue
        step = max(1, len(rs) // limit)
        sub = rs[::step][:limit]
        picked[kind] = sub
        if kind in ('cmp', 'cmpabs'):
            term = ("filter (fun t => let '(a, b0, g, e, l) := t in let '(g2, e2, l2) := fpcmp %s a b0 in "
                    "negb (Bool.eqb g g2 && Bool.eqb e e2 && Bool.eqb l l2)) [%s]"
                    % (b(kind == 'cmpabs'), '; '.join('(%d, %d, %s, %s, %s)' % (x, y, b(o[0]), b(o[1]), b(o[2])) for x, y, o in sub)))
        elif kind == 'mul':
            term = ("filter (fun t => let '(a, b0, r) := t in negb (fpmul a b0 =? r)) [%s]"
                    % '; '.join('(%d, %d, %d)' % (x, y, o[0]) for x, y, o in sub))
        elif kind == 'add':
            term = ("filter (fun t => let '(a, b0, r) := t in negb (fpadd_w %d a b0 =? r)) [%%s]" % widths['ew']
                    % '; '.join('(%d, %d, %d)' % (x, y, o[0]) for x, y, o in sub))
        elif kind == 'i2f':
            term = ("filter (fun t => let '(a, r, p) := t in let '(r2, p2) := int2fp a in negb ((r =? r2) && Bool.eqb p p2)) [%s]"
                    % '; '.join('(%d, %d, %s)' % (x, o[0], b(o[1])) for x, y, o in sub))
        elif kind == 'f2i':
            term = ("filter (fun t => let '(a, r, p, d, i) := t in let '(r2, p2, d2, i2) := fp2int_gen %d a in "
                    "negb ((r =? r2) && Bool.eqb p p2 && Bool.eqb d d2 && Bool.eqb i i2)) [%%s]" % widths['hi']
                    % '; '.join('(%d, %d, %s, %s, %s)' % (x, o[0], b(o[1]), b(o[2]), b(o[3])) for x, y, o in sub))
        items.append((kind, term))
    mism = {}
    # a single case file: the build lock is taken once
    res = common.coq_eval('C13_tie', 'From V Require Import Base.Bits Model.Fp.\n', items, timeout=1500)
    for kind, _ in items:
        v = res[kind]
        if v:
            mism[kind] = v[:5]
        ctx.notes.setdefault('tie_cases', {})[kind] = len(picked[kind])
    return mism


def witnesses(ctx, B):
    """the operands of the two history Examples of Properties/C13.v (the defects /repo had before 150f909 / 48843fa), run on the REAL
    blocks on every run; informational (the sweep judges them like any other operand)"""
    out = {}
    x, y = L.pack(0, 127 + 40, 0), L.pack(0, 127 + 8, 0)
    out['fpadd 2^40 + 2^8 (gap 32)'] = {'a': hex(x), 'b': hex(y), 'impl': hex(B.ev('add', x, y)[0]), 'impl_value': str(L.val(B.ev('add', x, y)[0])),
                                         'before_150f909': '0x54000000 (2^41)'}
    one = L.pack(0, 127, 0)
    out['fp2int 1.0'] = {'a': hex(one), 'impl(r,p_lost,denorm,invalid)': list(B.ev('f2i', one)), 'before_48843fa': [1, 1, 0, 0]}
    ctx.notes['history_witnesses_on_real_blocks'] = out
    return out


# theorems of Properties/C13.v that speak about a probed width, and the probe values for which they are statements about the tied instance
ADD_THEOREMS = ['fpadd_bound', 'fpadd_w_bound', 'fpadd_comm']
F2I_THEOREMS = ['fp2int_trunc', 'fp2int_invalid', 'fp2int_plost']


def run(ctx):
    thorough = not ctx.quick
    ctx.cov['rule'] = ('obligations: theorems of Properties/C13.v over the word-level model Model/Fp.v.  Correspondence / oracle cases: normal operand '
                       'pairs from (exponent-pair grid x mantissa boundary patterns x signs), every exponent gap 0..40 (+ far gaps) in both operand orders, '
                       'opposite signs with equal/adjacent exponents and equal/adjacent mantissas (cancellation), random; for the conversions every 2^k, '
                       '2^k+-1, 2^k+2^j+-1 (both signs), 24/25-bit all-ones patterns, every exponent x mantissa pattern, random.  Every case is run on the '
                       'REAL block and judged by exact rational arithmetic; a structured subset is also evaluated by the Coq model (vm_compute) and compared '
                       'bit-exactly.  A case is distinct by (block, operand encodings) and non-trivial when the hypotheses of the claim hold for it '
                       '(normal operands and, for adder/multiplier, a normal exact result).')
    r = ctx.prove(['Properties/C13.v'])
    ctx.cov['trusted_base'] = ['Coq 8.16.1 kernel and vm_compute (no native_compute); full .vo builds',
                               'no Axiom/Parameter/Admitted in the dependency closure of Properties/C13.v (grep + Print Assumptions on every theorem)',
                               'coq/Model/Fp.v: hand-written word-level datapath model (tied to /repo by the bit-exact comparison of this run, not by regeneration)',
                               'coq/Spec/C13.v: the meaning of the claims on scaled integers (Qval_sval proves val = sval / 2^150)',
                               'py harness driving the real py4hw blocks, the fractions.Fraction oracle, coq/Cases/*.v generation and parsing']
    B = L.Blocks()
    # ---- probe: which instance of the model is the live circuit?
    pr = B.probe()
    ew, hi = pr.get('ediff_width'), pr.get('plost_range_high')
    ctx.notes['probe'] = pr
    widths = {'ew': ew if isinstance(ew, int) and 1 <= ew <= 64 else 8, 'hi': hi if isinstance(hi, int) and 0 <= hi <= 63 else 31}
    not_applicable = {}
    if not (isinstance(ew, int) and ew >= 8):
        not_applicable.update({t: 'FPAdder_SP ediff width probed as %r: the full-strength adder theorems need >= 8 bits (fpadd_w_gap_bound only covers gaps < 2^ew)' % (ew,)
                               for t in ADD_THEOREMS})
    if hi != 31:
        not_applicable.update({t: 'FPtoInt_SP p_lost range probed as (%r, 0): the theorems are about Range(shifted, 31, 0)' % (hi,) for t in F2I_THEOREMS})
    if not_applicable:
        ctx.notes['obligations_not_applicable_to_the_live_circuit'] = not_applicable
        ctx.cov['discharged'] = max(0, ctx.cov['discharged'] - len(not_applicable))
    oblig_ok = r['ok'] and not not_applicable
    rng = random.Random(ctx.seed)
    stats = {'evaluated': {}, 'failures': {}, 'known': {}}
    results = {}
    firsts = []
    pairs = gen_pairs(rng, thorough, None if thorough else 30000)
    ints = gen_ints(rng, thorough)
    floats = gen_floats(rng, thorough)
    plan = [('cmp', pairs if thorough else pairs[::2]), ('cmpabs', pairs if thorough else pairs[1::2]), ('mul', pairs), ('add', pairs), ('i2f', ints), ('f2i', floats)]
    tie_limit = 6000 if thorough else 2500
    for kind, cases in plan:
        t = time.time()
        res, first = sweep(ctx, B, kind, cases, stats, keep=tie_limit)
        results[kind] = res
        ctx.log('%s: %d cases on the real block in %.1fs%s' % (kind, len(cases), time.time() - t, '  FAIL' if first else ''))
        if first: firsts.append(first)
        if res: ctx.sample({'block': kind, 'a': hex(res[len(res) // 2][0]), 'b': hex(res[len(res) // 2][1]), 'outputs': list(res[len(res) // 2][2])})
    ctx.notes['sweep'] = stats
    wit = witnesses(ctx, B)
    for f in firsts[:3]:
        if not_applicable: f = dict(f, broken_obligation=not_applicable)
        report_failure(ctx, f)
    # tie
    mism = {}
    try:
        mism = tie(ctx, results, tie_limit + 500, widths)
    except RuntimeError as ex:
        mism = {'coq_eval': str(ex)[-1500:]}
    ctx.notes['tie_mismatches'] = mism
    tie_ok = not mism
    ctx.log('proof ok=%s  probe=%s obligations apply=%s  tie ok=%s' % (r['ok'], widths, not not_applicable, tie_ok))
    if (not oblig_ok or not tie_ok) and not firsts:
        # obligation or tie broken and the sweep above found no failing input: widen the search (fresh seed, thorough generators, time budget)
        deadline = time.time() + (60 if ctx.quick else 600)
        rng2 = random.Random(ctx.seed * 7919 + 1)
        kinds = list(mism.keys() & BLOCK_ID.keys()) or ((['add'] if any(t in not_applicable for t in ADD_THEOREMS) else []) +
                                                         (['f2i'] if any(t in not_applicable for t in F2I_THEOREMS) else [])) or list(BLOCK_ID)
        found = None
        pairs2 = gen_pairs(rng2, True, None); rng2.shuffle(pairs2)
        for kind in kinds:
            cases = pairs2 if kind in ('cmp', 'cmpabs', 'add', 'mul') else gen_ints(rng2, True) if kind == 'i2f' else gen_floats(rng2, True)
            _, first = sweep(ctx, B, kind, cases, stats, deadline=time.time() + (deadline - time.time()) / max(1, len(kinds)))
            if first: found = first; break
        if found:
            if not_applicable: found = dict(found, broken_obligation=not_applicable)
            report_failure(ctx, found)
        else:
            what = ('proof obligation no longer checks: %s in %s' % (r.get('lemma'), r.get('file')) if not r['ok'] else
                    'no full-strength theorem for the instance the probe selected: %s' % not_applicable if not_applicable else
                    'the word-level model Model/Fp.v and the real blocks disagree (correspondence broken): %s' % mism)
            ctx.violation({'what': what, 'theorem': r.get('lemma'), 'file': r.get('file'), 'coq_error': r.get('msg'), 'tie_mismatches(first few)': mism},
                          found_input=False)
    ctx.assumptions += ['Model/Fp.v is a hand-written word-level model: each library sub-block (Add, Sub, Mux2, barrel ShiftLeft/ShiftRight, CountLeadingZeros, '
                        'Comparator, Range, Concatenate, Select, Abs/Neg, Mul) is replaced by its integer function on the real wire widths; this is checked by the '
                        'bit-exact comparison with the real blocks on every run and is the subject of C07/C08',
                        'values: val(bits) = (-1)^s (2^23+m) 2^(e-150); theorems are stated on val * 2^150 (an integer); Qval_sval relates the two in Q']


def replay(rp):
    """./check --replay <file>: re-run the recorded operand on the current /repo"""
    if rp.get('kind') != 'failing-input' or 'kind_of_block' not in rp:
        print('replay: broken-obligation record (no input); the file describes the failure:'); print(str(rp)[:3000]); return 0
    B = L.Blocks()
    kind = rp['kind_of_block']; x = int(rp['inputs']['a']); y = int(rp['inputs'].get('b', 0))
    o, fail, _ = check_case(B, kind, x, y)
    print('replay %s a=%s b=%s -> outputs %s' % (kind, hex(x), hex(y), list(o)))
    if fail is None:
        print('replay: the claim now HOLDS on this input'); return 0
    print('replay: still FAILS: expected %s observed %s' % (fail.get('expected'), fail.get('observed'))); return 1
