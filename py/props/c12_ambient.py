"""C12 — ambient-state family: the helpers' results must not depend on process-wide state left behind by other library code
(or by the caller): the same sample of the differential is evaluated (a) on a clean process state, (b) under a perturbed `decimal`
context (precision / rounding, restored afterwards), (c) after constructing one instance of every library block the harness can
build (py/blocks.py catalogue, ClockDivider, EdgeDetector, AutoReset, the UART blocks).  Results must be identical to (a) and to the oracle."""
import decimal, json, math
import common
from props import c12_ops as ops


def sample_cases(rng):
    """a few hundred (op, args) over every helper family; patterns chosen so that decimal precision matters if it is used"""
    cs = []
    for fmt, pats in (('hp', [0x0000, 0x8000, 0x0001, 0x03FF, 0x0400, 0x3C00, 0x3C01, 0x3555, 0x7BFF, 0xFBFF, 0x7C00, 0xFC00]),
                      ('sp', [0x00000001, 0x807FFFFF, 0x00800000, 0x3F800001, 0x3F8CCCCD, 0xC49A6333, 0x7F7FFFFF, 0x7F800000, 0x4B800001]),
                      ('dp', [0x0000000000000001, 0x800FFFFFFFFFFFFF, 0x0010000000000000, 0x3FF0000000000001, 0x400921FB53C8D4F1, 0x7FEFFFFFFFFFFFFF,
                              0xFFF0000000000000, 0x3FB999999999999A, 0x4340000000000001])):
        pats = pats + [rng.getrandbits(ops.BITS[fmt]) for _ in range(12)]
        for v in pats:
            if ops.is_nan_pattern(fmt, v): continue
            x = ops.bits_to_float(fmt, v)
            cs += [('fpnum_to_float', (fmt, v)), ('fpnum_decode', (fmt, v)), ('fpnum_round_trip', (fmt, v)), ('fpnum_from_float', (x.hex(),)),
                   ('fpnum_convert', (fmt, x.hex()))]
            if fmt != 'hp': cs += [('fph_decode', (fmt, v)), ('fph_round_trip', (fmt, v)), ('fph_encode', (fmt, x.hex()))]
    for x in (0.1, -0.3, 1.0000001, 2.0 ** -150, 1.5 * 2.0 ** 127, 3.4028235677973366e38, 1e-310, 123456789.125):
        cs += [('fph_encode', ('sp', x.hex())), ('fph_encode', ('dp', x.hex())), ('fp_to_parts', (x.hex(),)), ('fpnum_from_float', (x.hex(),))]
    pool = [['sp', 0xC49A6333], ['sp', 0x3F8CCCCD], ['dp', 0x400921FB53C8D4F1], ['f', (0.1).hex()], ['f', (-0.0).hex()], ['hp', 0x3C01], ['sp', 0x7F800000]]
    for a in pool:
        for b in pool:
            cs += [('fpnum_arith', ('add', a, b)), ('fpnum_arith', ('mul', a, b)), ('fpnum_compare', (a, b))]
    for (s_, iw, fw, a, b) in ((1, 16, 16, 78643, 16384), (1, 3, 4, 232, 20), (0, 0, 4, 9, 9), (1, 0, 3, 12, 6)):
        for w in ('add', 'sub', 'mult'): cs.append(('fx', (w, s_, iw, fw, a, b)))
    cs += [('fx_from_float', (1, 16, 16, (1.2).hex())), ('fx_to_float', (1, 8, 8, 0xFE80)), ('c2_to_signed', (0xFF, 8)), ('signExtend', (0x1F5, 8, 16)),
           ('reduce_exp', ((3.5e38).hex(), 8))]
    return cs


CANARY = [('fpnum_to_float', ('hp', 0x3C01)), ('fpnum_to_float', ('dp', 0x3FB999999999999A)), ('fph_encode', ('sp', (0.1).hex())),
          ('fpnum_from_float', ((0.1).hex(),)), ('fx_from_float', (1, 16, 16, (1.2).hex()))]


def evaluate(H, cases):
    out = []
    with common.quiet():
        for name, args in cases:
            out.append(ops.call(H, name, args))
    return out


def numeric_state():
    c = decimal.getcontext()
    return {'decimal_prec': c.prec, 'decimal_rounding': c.rounding, 'decimal_traps': sorted(str(t.__name__) for t, on in c.traps.items() if on)}


class perturbed_decimal:
    def __init__(self, prec, rounding): self.prec, self.rounding = prec, rounding
    def __enter__(self):
        c = decimal.getcontext(); self.saved = (c.prec, c.rounding); c.prec = self.prec; c.rounding = self.rounding
    def __exit__(self, *a):
        c = decimal.getcontext(); c.prec, c.rounding = self.saved


def build_blocks(H, rng, canary_base, on_change):
    """one instance of every block the harness can build; after each, the canary must still give the clean results.
    returns (labels built, labels that could not be built, labels after which the numeric state differed)"""
    import blocks
    py4hw = common.quiet_import()
    built, failed, leaks = [], [], []
    state0 = numeric_state()
    def after(label):
        st = numeric_state()
        if st != state0 and not any(l == label for l, _ in leaks): leaks.append((label, st))
        if evaluate(H, CANARY) != canary_base: on_change(label)
    for (label, ins, outs, body) in blocks.catalogue(rng, 'quick'):
        try:
            with common.quiet(): blocks.make_top('T_' + ''.join(ch if ch.isalnum() else '_' for ch in label), ins, outs, body)
            built.append(label)
        except Exception as ex:
            failed.append(label)
        after(label)
    from py4hw.logic import clock as lclock
    from py4hw.logic.protocol import uart as luart
    def extra(label, f):
        try:
            with common.quiet():
                hw = py4hw.HWSystem(); f(hw)
            built.append(label)
        except Exception as ex:
            failed.append(label)
        after(label)
    extra('ClockDivider', lambda hw: lclock.ClockDivider(hw, 'cd', 50e6, 1e6, hw.wire('co')))
    extra('ClockDivider(33.33MHz/14)', lambda hw: lclock.ClockDivider(hw, 'cd', 33.33E6, 33.33E6 / 14, hw.wire('co')))
    extra('EdgeDetector', lambda hw: lclock.EdgeDetector(hw, 'ed', hw.wire('a'), hw.wire('r'), 'pos'))
    extra('AutoReset', lambda hw: lclock.AutoReset(hw, 'ar', hw.wire('rst')))
    extra('UARTMsgGenerator', lambda hw: luart.UARTMsgGenerator(hw, 'u', hw.wire('tx'), 50e6, 115200, 'hi'))
    extra('UARTSerializer', lambda hw: luart.UARTSerializer(hw, 'us', hw.wire('rdy'), hw.wire('vld'), hw.wire('v', 8), hw.wire('p'), hw.wire('tx')))
    extra('UARTDeserializer', lambda hw: luart.UARTDeserializer(hw, 'ud', hw.wire('rx'), hw.wire('smp'), hw.wire('rdy'), hw.wire('vld'), hw.wire('v', 8), hw.wire('ds')))
    extra('ClockGenerationAndRecovery', lambda hw: luart.ClockGenerationAndRecovery(hw, 'cg', hw.wire('rx'), hw.wire('ds'), hw.wire('tp'), hw.wire('rs'), 50e6, 115200))
    return built, failed, leaks


def apply_ambient(H, ambient):
    """re-create a recorded ambient state for --replay; returns a context manager-like (enter, exit) pair"""
    if ambient.startswith('decimal:'):
        _, prec, rounding = ambient.split(':')
        return perturbed_decimal(int(prec), rounding)
    class after_block:
        def __enter__(self_):
            import random
            self_.saved = decimal.getcontext().copy()
            build_blocks(H, random.Random(1), evaluate(H, CANARY), lambda label: None)
        def __exit__(self_, *a): decimal.setcontext(self_.saved)
    return after_block()
