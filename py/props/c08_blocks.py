"""C08 block catalogue: for every logic / selection / comparison block of py4hw/logic/bitwise.py and relational.py
 * how to BUILD the real block for a configuration (returns the input wires to poke and the output wires to read),
 * the Gallina term of the hand-written structural MODEL (coq/Model/StructLogic.v over the regenerated primitives),
 * the Gallina term of the SPEC (coq/Spec/C08.v),
both as functions  list Z (input values, in the order of the input wires) -> list Z (output values).
A configuration is a plain dict (json-able): it is what a replay file stores."""
from common import zlit, zlist

# primitives of Gen/Prims.v the structural models are built from
NEEDED = ['And2_propagate', 'Or2_propagate', 'Not_propagate', 'Buf_propagate', 'Bit_propagate', 'BitsLSBF_propagate',
          'BitsMSBF_propagate', 'Mux2_propagate', 'Repeat_propagate', 'ConcatenateMSBF_propagate',
          'ConcatenateLSBF_propagate', 'Range_propagate', 'Constant_propagate', 'Sub_propagate', 'Wire_put']

# parameter lists of those definitions the hand-written models and the case-file terms are written against (coq/Gen/gen.json).
# A change of /repo that makes a propagate() read fewer / other attributes changes the generated signature: the model terms would then be
# ill-typed, so the check compares these first and falls back to the implementation-vs-spec sweep (tie broken) instead of failing in coqc.
EXPECTED_PARAMS = {
    'And2_propagate': ['w_r', 'v_a', 'v_b'], 'Or2_propagate': ['w_r', 'v_a', 'v_b'], 'Not_propagate': ['w_r', 'v_a'], 'Buf_propagate': ['w_r', 'v_a'],
    'Bit_propagate': ['w_r', 'c_bit', 'v_a'], 'BitsLSBF_propagate': ['w_a', 'lw_bits', 'v_a'], 'BitsMSBF_propagate': ['w_a', 'lw_bits', 'v_a'],
    'Mux2_propagate': ['w_r', 'v_sel', 'v_sel0', 'v_sel1'], 'Repeat_propagate': ['w_r', 'v_i'], 'ConcatenateMSBF_propagate': ['w_r', 'l_ins'],
    'ConcatenateLSBF_propagate': ['w_r', 'l_ins'], 'Range_propagate': ['w_r', 'c_high', 'c_low', 'v_a'], 'Constant_propagate': ['w_r', 'c_value'],
    'Sub_propagate': ['w_r', 'v_a', 'v_b']}


def signature_changes(sigs):
    return {n: [p[0] for p in sigs[n].get('params', [])] for n, exp in EXPECTED_PARAMS.items()
            if n in sigs and [p[0] for p in sigs[n].get('params', [])] != exp}


def lam(n, body):
    """fun l => match l with [x0; ..; x{n-1}] => body | _ => [] end"""
    if n == 0:
        return '(fun _ : list Z => %s)' % body
    return '(fun l : list Z => match l with [%s] => %s | _ => [] end)' % ('; '.join('x%d' % i for i in range(n)), body)


def t3(t): return "(let '(g, e, l0) := %s in [g; e; l0])" % t
def t5(t): return "(let '(gu, e, lu, g, l0) := %s in [gu; e; lu; g; l0])" % t
def t2(t): return "(let '(p, q) := %s in [p; q])" % t


class Block:
    def __init__(self, name, build, model, spec, in_widths, configs, note=''):
        self.name, self.build, self.model, self.spec, self.in_widths, self.configs, self.note = name, build, model, spec, in_widths, configs, note


def wires(hw, prefix, widths):
    return [hw.wire('%s%d' % (prefix, i), w) for i, w in enumerate(widths)]


def probe_policies(py4hw):
    """The two width formulas the structural models are parametric in, read off the REAL blocks (so that the model follows /repo
    before and after the repairs of findings C08-xor2-wide-result and C08-equal-wider-b):
      mid : width of Xor2's internal Mid wire as a function of (wa, wb, wr)   -> 'mid_a' (a's width) | 'mid_max' (max of the three)
      eqw : width of Equal's internal xor wire as a function of (wa, wb)      -> 'eqw_a' (a's width) | 'eqw_max' (the wider operand)
    None when the real widths follow neither formula (the models can then not be tied to the code)."""
    from common import quiet
    mids, eqws = [], []
    for wa, wb, wr in ((1, 1, 2), (1, 2, 2), (2, 1, 3), (3, 2, 1), (2, 3, 1), (1, 3, 2), (2, 2, 2)):
        with quiet():
            hw = py4hw.HWSystem(); d = py4hw.Xor2(hw, 'dut', hw.wire('a', wa), hw.wire('b', wb), hw.wire('r', wr))
        got = [d._wires[n].getWidth() for n in ('Mid', 'XOut', 'YOut')]
        mids.append(((wa, wb, wr), got))
    for wa, wb in ((1, 2), (2, 1), (3, 1), (1, 3), (2, 2), (2, 3)):
        with quiet():
            hw = py4hw.HWSystem(); d = py4hw.Equal(hw, 'dut', hw.wire('a', wa), hw.wire('b', wb), hw.wire('r', 1))
        eqws.append(((wa, wb), d._wires['xor'].getWidth()))
    mid = ('mid_a' if all(g == [t[0]] * 3 for t, g in mids) else
           'mid_max' if all(g == [max(t)] * 3 for t, g in mids) else None)
    eqw = ('eqw_a' if all(g == t[0] for t, g in eqws) else
           'eqw_max' if all(g == max(t) for t, g in eqws) else None)
    return {'mid': mid, 'eqw': eqw, 'probed': {'xor2_internal_widths': mids, 'equal_xor_width': eqws}}


# the formulas the headline theorems of Properties/C08.v are stated for (current /repo); the probe must find exactly these
HEADLINE_POLICIES = {'mid': 'mid_max', 'eqw': 'eqw_max'}


def catalogue(py4hw, quick, pol=None):
    """list of Block.  pol: result of probe_policies (default: probe now).  configs are chosen so that the full truth table is small for the first ones of each block
    (arity <= 5 x width <= 3) and random / boundary inputs are used beyond (decided by the driver from the bit count)."""
    B = []
    L = py4hw
    pol = pol or probe_policies(py4hw)
    import common as _common
    KNOWN = _common.load_known('C08')
    MID, EQW = pol['mid'] or 'mid_a', pol['eqw'] or 'eqw_a'
    import random as _random
    mrng = _random.Random(8080)          # per-input widths of the mixed configurations: fixed, so that configurations are stable across runs
    def mixed(n, lo=1, hi=4): return [mrng.randint(lo, hi) for _ in range(n)]
    def iws(c): return c['ws'] if 'ws' in c else [c['wi']] * c['n']      # per-input data widths of an n-ary configuration
    def mid_of(cls, make):
        """width of the real block's internal Mid wire for a configuration (Nand2 / Nor2 / Nor size it from a port)"""
        from common import quiet
        with quiet():
            hw = py4hw.HWSystem(); d = make(hw)
        return d._wires['Mid'].getWidth()

    # ------------------------------------------------------------------ 2-input gates, Not, Buf, Constant
    def gate2(cls, mname, sname, mixedw):
        def build(hw, c):
            a, b, r = hw.wire('a', c['wa']), hw.wire('b', c['wb']), hw.wire('r', c['wr'])
            getattr(L, cls)(hw, 'dut', a, b, r); return [a, b], [r]
        def model(c):
            if cls in ('And2', 'Or2'): return lam(2, '[%s %d x0 x1]' % (mname, c['wr']))
            if cls == 'Xor2': return lam(2, '[Xor2_m %s %d %d %d x0 x1]' % (MID, c['wa'], c['wb'], c['wr']))
            return lam(2, '[%s %d %d x0 x1]' % (mname, c['mid'], c['wr']))        # Nand2 / Nor2: the width of the real Mid wire
        def spec(c): return lam(2, '[%s %d x0 x1]' % (sname, c['wr']))
        cfgs = [dict(wa=w, wb=w, wr=w) for w in (1, 2, 3, 4, 8, 16, 33, 64)]
        # operands and result of three different widths (the result is (a op b) on the zero-extended operands, cut to r)
        cfgs += [dict(wa=3, wb=2, wr=4), dict(wa=2, wb=3, wr=1), dict(wa=1, wb=4, wr=3), dict(wa=3, wb=3, wr=2), dict(wa=4, wb=2, wr=3),
                 dict(wa=1, wb=1, wr=2), dict(wa=1, wb=2, wr=2), dict(wa=2, wb=3, wr=4), dict(wa=2, wb=1, wr=3), dict(wa=1, wb=3, wr=2), dict(wa=8, wb=3, wr=12)]
        cfgs += [dict(wa=x, wb=y, wr=z) for x, y, z in (mixed(3) for _ in range(8))]
        if cls in ('Nand2', 'Nor2'):
            for c in cfgs:
                c['mid'] = mid_of(cls, lambda hw, c=c: getattr(L, cls)(hw, 'dut', hw.wire('a', c['wa']), hw.wire('b', c['wb']), hw.wire('r', c['wr'])))
        if cls == 'Nor2':       # known finding C08-nor-mid-width: a Mid narrower than r AND than an operand loses operand bits
            cfgs = [c for c in cfgs if c['mid'] >= c['wr'] or c['mid'] >= max(c['wa'], c['wb']) or nor_fixed]
        B.append(Block(cls, build, model, spec, lambda c: [c['wa'], c['wb']], cfgs))
    nor_fixed = not any(k['id'] == 'C08-nor-mid-width' and k.get('status') == 'known' for k in KNOWN)
    gate2('And2', 'And2_m', 'and2_spec', True)
    gate2('Or2', 'Or2_m', 'or2_spec', True)
    gate2('Xor2', 'Xor2_m', 'xor2_spec', False)
    gate2('Nand2', 'Nand2_m', 'nand2_spec', False)
    gate2('Nor2', 'Nor2_m', 'nor2_spec', False)

    def gate1(cls, mname, sname):
        def build(hw, c):
            a, r = hw.wire('a', c['wa']), hw.wire('r', c['wr'])
            getattr(L, cls)(hw, 'dut', a, r); return [a], [r]
        cfgs = [dict(wa=w, wr=w) for w in (1, 2, 3, 5, 8, 32, 65)] + [dict(wa=3, wr=2), dict(wa=4, wr=1)]
        cfgs += [dict(wa=2, wr=5), dict(wa=3, wr=4), dict(wa=8, wr=3), dict(wa=16, wr=40)]        # zero extension / truncation
        B.append(Block(cls, build, lambda c: lam(1, '[%s %d x0]' % (mname, c['wr'])), lambda c: lam(1, '[%s %d x0]' % (sname, c['wr'])),
                       lambda c: [c['wa']], cfgs))
    gate1('Not', 'Not_m', 'not_spec')
    gate1('Buf', 'Buf_m', 'buf_spec')

    def b_const(hw, c):
        r = hw.wire('r', c['wr']); L.Constant(hw, 'dut', c['v'], r); return [], [r]
    B.append(Block('Constant', b_const, lambda c: lam(0, '[Constant_m %d %s]' % (c['wr'], zlit(c['v']))),
                   lambda c: lam(0, '[constant_spec %d %s]' % (c['wr'], zlit(c['v']))), lambda c: [],
                   [dict(wr=w, v=v) for w in (1, 3, 8, 40) for v in (0, 1, 5, (1 << w) - 1, 1 << w, (1 << w) + 3, -1, -6, (1 << 70) + 9)]))

    # ------------------------------------------------------------------ n-ary gates
    def nary(cls, mfun, sname, min_n):
        def build(hw, c):
            ins = wires(hw, 'i', iws(c)); r = hw.wire('r', c['w'])
            getattr(L, cls)(hw, 'dut', ins, r); return ins, [r]
        cfgs = [dict(n=n, wi=w, w=w) for n in range(min_n, 6) for w in (1, 2, 3)]
        cfgs += [dict(n=7, wi=5, w=5), dict(n=9, wi=1, w=1), dict(n=3, wi=32, w=32), dict(n=12, wi=8, w=8), dict(n=4, wi=4, w=3), dict(n=3, wi=3, w=2)]
        cfgs += [dict(n=3, wi=2, w=4), dict(n=2, wi=1, w=3), dict(n=4, wi=1, w=2), dict(n=1, wi=2, w=4), dict(n=1, wi=4, w=2)][:(3 if cls == 'Xor' else 5)]
        # every input of its own width, result wider / narrower than some of them
        cfgs += [dict(n=n, ws=mixed(n), w=mrng.randint(1, 5)) for n in (2, 2, 3, 3, 4, 4, 5, 6) if n >= min_n]
        cfgs += [dict(n=3, ws=[1, 3, 2], w=3), dict(n=2, ws=[1, 3], w=2), dict(n=4, ws=[4, 8, 8, 8], w=8), dict(n=3, ws=[16, 3, 40], w=24)]
        if not quick: cfgs += [dict(n=n, wi=w, w=w) for n in (6, 10, 17, 33) for w in (1, 2, 6)] + [dict(n=n, ws=mixed(n, 1, 9), w=mrng.randint(1, 9)) for n in (7, 9, 12)]
        if cls == 'Nor':
            for c in cfgs:
                c['mid'] = mid_of(cls, lambda hw, c=c: L.Nor(hw, 'dut', wires(hw, 'i', iws(c)), hw.wire('r', c['w'])))
            cfgs = [c for c in cfgs if c['mid'] >= c['w'] or c['mid'] >= max(iws(c)) or nor_fixed]       # known finding C08-nor-mid-width otherwise
        B.append(Block(cls, build, lambda c: '(fun l : list Z => [%s])' % mfun(c), lambda c: '(fun l : list Z => [%s %d l])' % (sname, c['w']), iws, cfgs))
    nary('And', lambda c: 'And_m %d l' % c['w'], 'and_spec', 1)
    nary('Or', lambda c: 'Or_m %d l' % c['w'], 'or_spec', 1)
    nary('Xor', lambda c: 'XorW_m %s %d (combine %s l)' % (MID, c['w'], zlist(iws(c))), 'xor_spec', 2)
    nary('Nor', lambda c: 'Nor_m %d %d l' % (c['mid'], c['w']), 'nor_spec', 1)

    def redbits(cls, mname, sfun):
        def build(hw, c):
            a, r = hw.wire('a', c['wa']), hw.wire('r', c['wr']); getattr(L, cls)(hw, 'dut', a, r); return [a], [r]
        B.append(Block(cls, build, lambda c: lam(1, '[%s %d %d x0]' % (mname, c['wa'], c['wr'])), lambda c: lam(1, '[%s]' % sfun(c)),
                       lambda c: [c['wa']], [dict(wa=w, wr=1) for w in (1, 2, 3, 4, 5, 6, 9, 16, 64)] + [dict(wa=3, wr=2)]))
    redbits('AndBits', 'AndBits_m', lambda c: 'andbits_spec %d x0' % c['wa'])
    redbits('OrBits', 'OrBits_m', lambda c: 'orbits_spec x0')

    # ------------------------------------------------------------------ bit manipulation
    # bit-manipulation blocks are driven with result wires of the natural width AND wider / narrower ones: a body that relies on put()'s
    # truncation instead of its own mask is only visible on a result wire wider than the field
    def b_bit(hw, c):
        a, r = hw.wire('a', c['wa']), hw.wire('r', c.get('wr', 1)); L.Bit(hw, 'dut', a, c['bit'], r); return [a], [r]
    B.append(Block('Bit', b_bit, lambda c: lam(1, '[Bit_m %d %d x0]' % (c.get('wr', 1), c['bit'])), lambda c: lam(1, '[bit_spec x0 %d]' % c['bit']), lambda c: [c['wa']],
                   [dict(wa=w, bit=i) for w in (1, 2, 3, 4) for i in range(w)] + [dict(wa=32, bit=i) for i in (0, 15, 31)] + [dict(wa=70, bit=69), dict(wa=3, bit=5)] +
                   [dict(wa=w, bit=i, wr=wr) for w in (3, 4) for i in range(w) for wr in (2, 5)] + [dict(wa=32, bit=7, wr=8), dict(wa=64, bit=31, wr=40)]))

    def b_range(hw, c):
        a, r = hw.wire('a', c['wa']), hw.wire('r', c['wr']); L.Range(hw, 'dut', a, c['hi'], c['lo'], r); return [a], [r]
    B.append(Block('Range', b_range, lambda c: lam(1, '[Range_m %d %d %d x0]' % (c['wr'], c['hi'], c['lo'])),
                   lambda c: lam(1, '[range_spec %d %d x0 mod 2 ^ %d]' % (c['hi'], c['lo'], c['wr'])), lambda c: [c['wa']],
                   [dict(wa=w, hi=h, lo=l, wr=h - l + 1) for w in (1, 2, 3, 4) for h in range(w) for l in range(h + 1)] +
                   [dict(wa=32, hi=30, lo=23, wr=8), dict(wa=32, hi=22, lo=0, wr=23), dict(wa=64, hi=63, lo=32, wr=32), dict(wa=8, hi=6, lo=2, wr=3), dict(wa=8, hi=6, lo=2, wr=7)] +
                   # result wider (by 1 and by 3) and narrower than the field, every field of a 4- and a 5-bit operand; wide operands with bits above `high`
                   [dict(wa=w, hi=h, lo=l, wr=h - l + 1 + d) for w in (4, 5) for h in range(w) for l in range(h + 1) for d in (1, 3, -1) if h - l + 1 + d >= 1] +
                   [dict(wa=32, hi=30, lo=23, wr=16), dict(wa=32, hi=22, lo=0, wr=32), dict(wa=32, hi=15, lo=8, wr=5), dict(wa=64, hi=40, lo=9, wr=64), dict(wa=16, hi=7, lo=7, wr=4)]))

    def bits(cls, mname, sname):
        def build(hw, c):
            a = hw.wire('a', c['wa']); bs = wires(hw, 'b', [c.get('bw', 1)] * c['wa']); getattr(L, cls)(hw, 'dut', a, bs); return [a], bs
        def model(c):
            if 'bw' not in c: return lam(1, '%s %d x0' % (mname, c['wa']))
            prop = '%s_propagate %d (repeat %d %d%%nat) x0' % (cls, c['wa'], c['bw'], c['wa'])       # bit wires wider than 1 bit
            return lam(1, prop if cls == 'BitsLSBF' else 'rev (%s)' % prop)
        B.append(Block(cls, build, model, lambda c: lam(1, '%s %d x0' % (sname, c['wa'])),
                       lambda c: [c['wa']], [dict(wa=w) for w in (1, 2, 3, 4, 5, 8, 17)] + [dict(wa=3, bw=2), dict(wa=5, bw=3), dict(wa=9, bw=4)]))
    bits('BitsLSBF', 'BitsLSBF_m', 'bits_lsbf_spec')
    bits('BitsMSBF', 'BitsMSBF_m', 'bits_msbf_spec')

    def b_repeat(hw, c):
        i, r = hw.wire('i', 1), hw.wire('r', c['wr']); L.Repeat(hw, 'dut', i, r); return [i], [r]
    B.append(Block('Repeat', b_repeat, lambda c: lam(1, '[Repeat_m %d x0]' % c['wr']), lambda c: lam(1, '[replicate_spec %d x0]' % c['wr']), lambda c: [1],
                   [dict(wr=w) for w in (1, 2, 3, 7, 32, 100)]))

    def b_bufen(hw, c):
        a, en, r = hw.wire('a', c['w']), hw.wire('en', 1), hw.wire('r', c['w']); L.BufEnable(hw, 'dut', a, en, r); return [a, en], [r]
    B.append(Block('BufEnable', b_bufen, lambda c: lam(2, '[BufEnable_m %d x0 x1]' % c['w']), lambda c: lam(2, '[bufenable_spec %d x0 x1]' % c['w']),
                   lambda c: [c['w'], 1], [dict(w=w) for w in (1, 2, 3, 8, 33)]))

    def concat(cls, mname, sname):
        # 'ix' (optional): slot -> index of the DISTINCT wire that fills it, so one wire can fill several slots (sign replication [s,s,s,s,x],
        # byte duplication [a,a], [a,b,a]); the inputs of the case are the distinct wires
        def ix(c): return c.get('ix', list(range(len(c['ws']))))
        def dws(c):
            d = {}
            for slot, k in enumerate(ix(c)): d[k] = c['ws'][slot]
            return [d[k] for k in sorted(d)]
        def build(hw, c):
            dist = wires(hw, 'i', dws(c)); ins = [dist[k] for k in ix(c)]
            r = hw.wire('r', c['wr']); getattr(L, cls)(hw, 'dut', ins, r); return dist, [r]
        def pairs(c): return '[' + '; '.join('(%d, x%d)' % (w, k) for w, k in zip(c['ws'], ix(c))) + ']'
        wss = [[1], [3], [1, 1], [1, 2], [2, 1], [3, 3], [1, 2, 3], [3, 1, 2], [1, 1, 1, 1], [2, 2, 2, 2, 2], [1, 3, 1, 2, 1], [8, 23, 1], [1, 8, 23], [16, 16, 16, 16]]
        cfgs = [dict(ws=ws, wr=sum(ws)) for ws in wss] + [dict(ws=[1, 2], wr=5), dict(ws=[2, 1, 1], wr=7)] + [dict(ws=ws, wr=sum(ws) + d) for ws in wss[:9] for d in (1, 4)] + [dict(ws=[8, 23, 1], wr=64)]
        cfgs += [dict(ws=[1, 1, 1, 1, 4], ix=[0, 0, 0, 0, 1], wr=8), dict(ws=[4, 4], ix=[0, 0], wr=8), dict(ws=[2, 3, 2], ix=[0, 1, 0], wr=7),
                 dict(ws=[3, 1, 1, 1], ix=[1, 0, 0, 0], wr=6), dict(ws=[8, 8, 8], ix=[0, 0, 0], wr=32), dict(ws=[1, 2, 1, 2], ix=[0, 1, 0, 1], wr=6)]
        B.append(Block(cls, build, lambda c: lam(len(dws(c)), '[%s %d %s]' % (mname, c['wr'], pairs(c))),
                       lambda c: lam(len(dws(c)), '[%s %s mod 2 ^ %d]' % (sname, pairs(c), c['wr'])), dws, cfgs))
    concat('ConcatenateMSBF', 'ConcatenateMSBF_m', 'msbf_spec')
    concat('ConcatenateLSBF', 'ConcatenateLSBF_m', 'lsbf_spec')

    # ------------------------------------------------------------------ selection
    def b_mux2(hw, c):
        s, a, b, r = hw.wire('s', c['ws']), hw.wire('a', c.get('w0', c['w'])), hw.wire('b', c.get('w1', c['w'])), hw.wire('r', c['w']); L.Mux2(hw, 'dut', s, a, b, r); return [s, a, b], [r]
    B.append(Block('Mux2', b_mux2, lambda c: lam(3, '[Mux2_m %d x0 x1 x2]' % c['w']), lambda c: lam(3, '[mux2_spec %d x0 x1 x2]' % c['w']),
                   lambda c: [c['ws'], c.get('w0', c['w']), c.get('w1', c['w'])], [dict(ws=1, w=w) for w in (1, 2, 3, 8, 40)] + [dict(ws=2, w=2), dict(ws=3, w=1)] +
                   [dict(ws=1, w0=x, w1=y, w=z) for x, y, z in (mixed(3) for _ in range(6))] + [dict(ws=1, w0=4, w1=8, w=8), dict(ws=1, w0=8, w1=4, w=6)]))

    def mux_ws(c): return c['ws'] if 'ws' in c else [c['w']] * (1 << c['k'])
    def b_mux(hw, c):
        s = hw.wire('s', c['k']); ins = wires(hw, 'i', mux_ws(c)); r = hw.wire('r', c['w']); L.Mux(hw, 'dut', s, ins, r); return [s] + ins, [r]
    B.append(Block('Mux', b_mux, lambda c: '(fun l : list Z => [Mux_m %d %d (hd 0 l) (tl l)])' % (c['k'], c['w']),
                   lambda c: '(fun l : list Z => [mux_spec %d (hd 0 l) (tl l)])' % c['w'], lambda c: [c['k']] + mux_ws(c),
                   [dict(k=k, w=w) for k in (1, 2, 3) for w in (1, 2, 3)] + [dict(k=4, w=1), dict(k=4, w=5), dict(k=5, w=2), dict(k=2, w=32)] +
                   # data inputs of different widths (input 0 narrower / wider than the others), result wider / narrower than some inputs
                   [dict(k=2, ws=[4, 8, 8, 8], w=8), dict(k=2, ws=[8, 4, 2, 6], w=8), dict(k=1, ws=[2, 5], w=5), dict(k=3, ws=[1, 2, 3, 4, 4, 3, 2, 1], w=4)] +
                   [dict(k=k, ws=mixed(1 << k), w=mrng.randint(1, 5)) for k in (1, 2, 2, 2, 3, 3, 4)] +
                   ([] if quick else [dict(k=6, w=3), dict(k=7, w=1), dict(k=5, ws=mixed(32, 1, 9), w=9)])))

    def b_decoder(hw, c):
        a = hw.wire('a', c['wa']); bs = wires(hw, 'b', [1] * c['n']); L.Decoder(hw, 'dut', a, bs); return [a], bs
    B.append(Block('Decoder', b_decoder, lambda c: lam(1, 'Decoder_m %d %d x0' % (c['wa'], c['n'])), lambda c: lam(1, 'decoder_spec %d x0' % c['n']),
                   lambda c: [c['wa']], [dict(wa=w, n=1 << w) for w in (1, 2, 3, 4, 5)] + [dict(wa=3, n=5), dict(wa=4, n=10)]))

    def b_demux(hw, c):
        a, s = hw.wire('a', c['wa']), hw.wire('s', c['k']); rs = wires(hw, 'r', [c['wa']] * (1 << c['k'])); L.Demux(hw, 'dut', a, s, rs); return [a, s], rs
    B.append(Block('Demux', b_demux, lambda c: lam(2, 'Demux_m %d %d x0 x1' % (c['wa'], c['k'])), lambda c: lam(2, 'demux_spec %d x0 x1' % c['k']),
                   lambda c: [c['wa'], c['k']], [dict(wa=w, k=k) for k in (1, 2, 3) for w in (1, 2, 3)] + [dict(wa=8, k=4), dict(wa=16, k=2)]))

    def onehot(cls):
        def build(hw, c):
            ss = wires(hw, 's', [1] * c['n']); ins = wires(hw, 'i', iws(c)); r = hw.wire('r', c['w'])
            getattr(L, cls)(hw, 'dut', ss, ins, r); return ss + ins, [r]
        B.append(Block(cls, build, lambda c: '(fun l : list Z => [OneHotMuxW_m %d (firstn %d l) (combine %s (skipn %d l))])' % (c['w'], c['n'], zlist(iws(c)), c['n']),
                       lambda c: '(fun l : list Z => [onehot_mux_spec %d (firstn %d l) (skipn %d l)])' % (c['w'], c['n'], c['n']),
                       lambda c: [1] * c['n'] + iws(c),
                       [dict(n=n, wi=w, w=w) for n in (1, 2, 3, 4, 5) for w in (1, 2, 3)] + [dict(n=6, wi=8, w=8), dict(n=3, wi=32, w=32), dict(n=9, wi=2, w=2)] +
                       [dict(n=n, ws=mixed(n), w=mrng.randint(1, 5)) for n in (2, 2, 3, 3, 4, 5)] + [dict(n=3, ws=[2, 8, 4], w=8), dict(n=2, ws=[6, 3], w=4)]))
    onehot('Select')
    onehot('OneHotMux')

    def ohd_wos(c): return c['wos'] if 'wos' in c else [c['wa']] * c['n']
    def b_ohdemux(hw, c):
        ss = wires(hw, 's', [1] * c['n']); a = hw.wire('a', c['wa']); outs = wires(hw, 'o', ohd_wos(c))
        L.OneHotDemux(hw, 'dut', ss, a, outs); return ss + [a], outs
    B.append(Block('OneHotDemux', b_ohdemux, lambda c: '(fun l : list Z => OneHotDemuxW_m %d %s (nth %d l 0) (firstn %d l))' % (c['wa'], zlist(ohd_wos(c)), c['n'], c['n']),
                   lambda c: '(fun l : list Z => map (fun p => if snd p =? 0 then 0 else nth %d l 0 mod 2 ^ fst p) (combine %s (firstn %d l)))' % (c['n'], zlist(ohd_wos(c)), c['n']),
                   lambda c: [1] * c['n'] + [c['wa']], [dict(n=n, wa=w) for n in (1, 2, 3, 4, 5) for w in (1, 2, 3)] + [dict(n=7, wa=9)] +
                   [dict(n=n, wa=mrng.randint(1, 5), wos=mixed(n, 1, 6)) for n in (1, 2, 3, 3, 4)]))       # outputs wider / narrower than a

    def sd_ws(c): return c['ws'] if 'ws' in c else [c['w']] * c['n']
    def b_seldef(hw, c):
        ss = wires(hw, 's', [1] * c['n']); ins = wires(hw, 'i', sd_ws(c)); d = hw.wire('d', c.get('wd', c['w'])); r = hw.wire('r', c['w'])
        L.SelectDefault(hw, 'dut', ss, ins, d, r); return ss + ins + [d], [r]
    B.append(Block('SelectDefault', b_seldef,
                   lambda c: '(fun l : list Z => [SelectDefault_m %d (firstn %d l) (firstn %d (skipn %d l)) (nth %d l 0)])' % (c['w'], c['n'], c['n'], c['n'], 2 * c['n']),
                   lambda c: '(fun l : list Z => [select_default_spec %d (firstn %d l) (firstn %d (skipn %d l)) (nth %d l 0)])' % (c['w'], c['n'], c['n'], c['n'], 2 * c['n']),
                   lambda c: [1] * c['n'] + sd_ws(c) + [c.get('wd', c['w'])],
                   [dict(n=n, w=w) for n in (1, 2, 3, 4) for w in (1, 2, 3)] + [dict(n=5, w=1), dict(n=7, w=8), dict(n=3, w=32)] +
                   [dict(n=n, ws=mixed(n), wd=mrng.randint(1, 5), w=mrng.randint(1, 5)) for n in (1, 2, 2, 3, 3, 4)] + [dict(n=3, ws=[2, 8, 8], wd=4, w=8)]))

    def b_prio(hw, c):
        a = wires(hw, 'a', [1] * c['n']); r = wires(hw, 'r', [1] * c['n'])
        L.PriorityEncoder(hw, 'dut', a, r, inc_priority=c['inc']); return a, r
    B.append(Block('PriorityEncoder', b_prio, lambda c: '(fun l : list Z => PriorityEncoder_m 1 %s l)' % ('true' if c['inc'] else 'false'),
                   lambda c: '(fun l : list Z => prio_spec %s l)' % ('true' if c['inc'] else 'false'), lambda c: [1] * c['n'],
                   [dict(n=n, inc=inc) for n in (1, 2, 3, 4, 5, 6, 8, 11, 32) for inc in (True, False)]))

    def b_minterm(hw, c):
        bs = wires(hw, 'b', [1] * c['n']); r = hw.wire('r', 1); L.Minterm(hw, 'dut', bs, c['v'], r); return bs, [r]
    B.append(Block('Minterm', b_minterm, lambda c: '(fun l : list Z => [Minterm_m 1 %d l])' % c['v'], lambda c: '(fun l : list Z => [minterm_spec %d l])' % c['v'],
                   lambda c: [1] * c['n'], [dict(n=n, v=v) for n in (1, 2, 3, 4) for v in range(1 << n)] + [dict(n=9, v=v) for v in (0, 511, 0x155, 0xAA)]))

    def b_som(hw, c):
        a, r = hw.wire('a', c['wa']), hw.wire('r', 1); L.SumOfMinterms(hw, 'dut', a, c['ms'], r); return [a], [r]
    seg = [[0, 2, 3, 5, 6, 7, 8, 9, 0xA, 0xC, 0xE, 0xF], [0, 1, 2, 3, 4, 7, 8, 9, 0xA, 0xd], [2, 3, 4, 5, 6, 8, 9, 0xA, 0xb, 0xd, 0xE, 0xF]]
    B.append(Block('SumOfMinterms', b_som, lambda c: lam(1, '[SumOfMinterms_m %d 1 x0 %s]' % (c['wa'], zlist(c['ms']))),
                   lambda c: lam(1, '[sum_of_minterms_spec %d x0 %s]' % (c['wa'], zlist(c['ms']))), lambda c: [c['wa']],
                   [dict(wa=1, ms=[0]), dict(wa=1, ms=[1]), dict(wa=1, ms=[0, 1]), dict(wa=2, ms=[3]), dict(wa=2, ms=[1, 2]), dict(wa=2, ms=[0, 1, 2, 3]),
                    dict(wa=3, ms=[0, 7]), dict(wa=3, ms=[1, 2, 4]), dict(wa=3, ms=[5]), dict(wa=3, ms=[3, 3, 6])] + [dict(wa=4, ms=m) for m in seg] +
                   [dict(wa=8, ms=[0, 255, 17, 128])]))

    # ------------------------------------------------------------------ comparison
    def eqconst(cls, mname, sname):
        def build(hw, c):
            a, r = hw.wire('a', c['wa']), hw.wire('r', 1); getattr(L, cls)(hw, 'dut', a, c['v'], r); return [a], [r]
        B.append(Block(cls, build, lambda c: lam(1, '[%s %d 1 %d x0]' % (mname, c['wa'], c['v'])), lambda c: lam(1, '[%s x0 %d]' % (sname, c['v'] % (1 << c['wa']))),      # a constant that does not fit is compared modulo 2^wa
                       lambda c: [c['wa']], [dict(wa=w, v=v) for w in (1, 2, 3, 4) for v in range(1 << w)] + [dict(wa=1, v=2), dict(wa=1, v=3), dict(wa=1, v=6), dict(wa=2, v=6), dict(wa=3, v=13), dict(wa=8, v=257)] +
                       [dict(wa=8, v=v) for v in (0, 1, 127, 128, 255)] + [dict(wa=33, v=v) for v in (0, 1 << 32, (1 << 33) - 1)]))
    eqconst('EqualConstant', 'EqualConstant_m', 'equal_spec')
    eqconst('NotEqualConstant', 'NotEqualConstant_m', 'not_equal_spec')

    def b_equal(hw, c):
        a, b, r = hw.wire('a', c['w']), hw.wire('b', c.get('wb', c['w'])), hw.wire('r', 1); L.Equal(hw, 'dut', a, b, r); return [a, b], [r]
    eq_cfgs = [dict(w=w) for w in (1, 2, 3, 4, 5, 8, 16, 32, 64)] + [dict(w=3, wb=2), dict(w=4, wb=1), dict(w=2, wb=1)]      # b no wider than a
    if True:       # any two operand widths (legal since the repairs c94f404 + 3260a32)
        eq_cfgs += [dict(w=1, wb=2), dict(w=2, wb=3), dict(w=1, wb=4), dict(w=3, wb=5), dict(w=8, wb=11)]
    B.append(Block('Equal', b_equal, lambda c: lam(2, '[Equal_m %s %s %d %d x0 x1]' % (MID, EQW, c['w'], c.get('wb', c['w']))), lambda c: lam(2, '[equal_spec x0 x1]'),
                   lambda c: [c['w'], c.get('wb', c['w'])], eq_cfgs))

    def b_anyeq(hw, c):
        ins = wires(hw, 'i', ae_ws(c)); r = hw.wire('r', 1); L.AnyEqual(hw, 'dut', ins, r); return ins, [r]
    def ae_ws(c): return c['ws'] if 'ws' in c else [c['w']] * c['n']
    B.append(Block('AnyEqual', b_anyeq, lambda c: '(fun l : list Z => [AnyEqualW_m %s %s 1 (combine %s l)])' % (MID, EQW, zlist(ae_ws(c))), lambda c: '(fun l : list Z => [any_equal_spec l])',
                   ae_ws, [dict(n=n, w=w) for n in (2, 3, 4) for w in (1, 2, 3)] + [dict(n=5, w=2), dict(n=3, w=16), dict(n=6, w=4)] +
                   [dict(n=n, ws=mixed(n)) for n in (2, 2, 3, 3, 4)] + [dict(n=3, ws=[1, 3, 2])]))

    CW = (1, 2, 3, 4, 5, 8, 16, 32, 64)

    def b_cmp(hw, c):
        a, b = hw.wire('a', c['w']), hw.wire('b', c['w']); o = wires(hw, 'o', [1, 1, 1]); L.Comparator(hw, 'dut', a, b, o[0], o[1], o[2]); return [a, b], o
    B.append(Block('Comparator', b_cmp, lambda c: lam(2, t3('Comparator_m %d x0 x1' % c['w'])), lambda c: lam(2, t3('cmp_spec x0 x1')),
                   lambda c: [c['w'], c['w']], [dict(w=w) for w in CW]))

    def b_cmpsu(hw, c):
        a, b = hw.wire('a', c['w']), hw.wire('b', c['w']); o = wires(hw, 'o', [1] * 5)
        L.ComparatorSignedUnsigned(hw, 'dut', a, b, o[0], o[1], o[2], o[3], o[4]); return [a, b], o      # gtu, eq, ltu, gt, lt
    B.append(Block('ComparatorSignedUnsigned', b_cmpsu, lambda c: lam(2, t5('ComparatorSU_m %s %d x0 x1' % (MID, c['w']))), lambda c: lam(2, t5('cmp_su_spec %d x0 x1' % c['w'])),
                   lambda c: [c['w'], c['w']], [dict(w=w) for w in CW]))

    def minmax(cls, mname, sfun):
        def build(hw, c):
            a, b, r = hw.wire('a', c['w']), hw.wire('b', c['w']), hw.wire('r', c.get('wr', c['w'])); getattr(L, cls)(hw, 'dut', a, b, r); return [a, b], [r]
        B.append(Block(cls, build, lambda c: lam(2, '[%s %d %d x0 x1]' % (mname if not mname.startswith('Signed') else mname + ' ' + MID, c['w'], c.get('wr', c['w']))),
                       lambda c: lam(2, '[%s]' % sfun(c)), lambda c: [c['w'], c['w']],
                       [dict(w=w) for w in CW] + [dict(w=3, wr=5), dict(w=4, wr=2), dict(w=8, wr=12), dict(w=8, wr=5)]))      # result wider / narrower than the operands
    minmax('Max2', 'Max2_m', lambda c: 'max2_spec %d x0 x1' % c.get('wr', c['w']))
    minmax('Min2', 'Min2_m', lambda c: 'min2_spec %d x0 x1' % c.get('wr', c['w']))
    minmax('SignedMax2', 'SignedMax2_m', lambda c: 'smax2_spec %d %d x0 x1' % (c['w'], c.get('wr', c['w'])))
    minmax('SignedMin2', 'SignedMin2_m', lambda c: 'smin2_spec %d %d x0 x1' % (c['w'], c.get('wr', c['w'])))

    def b_swap(hw, c):
        a, b, s = hw.wire('a', c.get('wa', c['w'])), hw.wire('b', c.get('wb', c['w'])), hw.wire('s', 1); ra, rb = hw.wire('ra', c['w']), hw.wire('rb', c.get('wrb', c['w']))
        L.Swap(hw, 'dut', a, b, s, ra, rb); return [a, b, s], [ra, rb]
    B.append(Block('Swap', b_swap, lambda c: lam(3, t2('Swap_m %d %d x0 x1 x2' % (c['w'], c.get('wrb', c['w'])))), lambda c: lam(3, t2('swap_spec %d %d x0 x1 x2' % (c['w'], c.get('wrb', c['w'])))),
                   lambda c: [c.get('wa', c['w']), c.get('wb', c['w']), 1], [dict(w=w) for w in (1, 2, 3, 8, 32)] +
                   [dict(wa=x, wb=y, w=z, wrb=u) for x, y, z, u in (mixed(4, 1, 5) for _ in range(6))]))
    return B
