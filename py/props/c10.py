"""C10 — a clock domain advances exactly when its enable is active.

Proof: Properties/C10.v — per-domain reference (C10_domain_reference), gated_holds, enabled_same, other_domains over
       Model/SimKernel.v for every design / every enable wire (also one prepared inside the gated domain);
       nearest-ancestor lookup and topologicalSort's bucketing over the hand model Model/ClockTree.v.
Tie:   (a) random object hierarchies with 0-4 extra ClockDrivers at random depths: the real getObjectClockDriver of EVERY
           object (exception included) and the real Simulator.clockDrivers table are compared with the Coq model
           (getObjectClockDriver / clock_buckets evaluated by vm_compute) and with a harness-owned nearest-ancestor walk;
       (b) multi-domain designs (enables poked at random, derived from a register inside the gated subtree, from a
           register of another domain, or inside-OR-wake) are dumped with py/netlist.py (Dump emits d_enable) and the
           kernel model + the reference machine are run against the real simulator inside Coq;
       (c) Wire.put/prepare and the translated clock() methods are regenerated on every run.
Oracle / search: on the real simulator, edge by edge:  gated domain => its leaf states and out-port wires unchanged;
       enabled domains => identical to a deep copy in which those drivers are UNGATED (enable=None);
       frame => a deep copy in which every OTHER domain's gating is flipped leaves the target domain's post-edge
       state/out-ports unchanged;  plus the snapshot-then-apply per-domain reference simulator of the C05 harness."""
import copy, random, json
import common, netlist
from common import quiet, zlit
from props import c05_designs as D
from props import c10_designs as H
from props import c05

NEEDED = ['Wire_put', 'Wire_prepare', 'Reg_clock', 'SynchronousMemory_clock', 'AutoReset_clock']

TREE_PRELUDE = 'From V Require Import Base.PyInt Model.ClockTree Spec.C10Tree.\n'


# ------------------------------------------------------------------------------------------------ lookup tie
def obj_term(o, didx):
    """Coq term of Model.ClockTree.obj for a live object (its clockDriver field and its parent chain)"""
    d = o.__dict__.get('_vf_driver')          # the CONFIGURED driver (harness record), not whatever sits in o.clockDriver now
    ds = '(@None nat)' if d is None else '(Some %d%%nat)' % didx[id(d)]
    if o.parent is None:
        return '(@Top nat %s)' % ds
    return '(@Sub nat %s %s)' % (ds, obj_term(o.parent, didx))


def htree_term(o, didx):
    d = o.__dict__.get('_vf_driver')
    ds = '(@None nat)' if d is None else '(Some %d%%nat)' % didx[id(d)]
    ch = list(o.children.values())
    return '(HNode %s %s [%s])' % (ds, 'true' if (not ch and o.isClockable()) else 'false', '; '.join(htree_term(c, didx) for c in ch))


def _lookup_one(ctx, t):
    return lookup_tie(ctx, None, only=[t])


def lookup_tie(ctx, n_trees, only=None):
    """returns list of problems"""
    py4hw = common.quiet_import()
    items, meta = [], []
    for t in (only if only is not None else range(n_trees)):
        rng = random.Random(ctx.seed * 7727 + t)
        mode = rng.choice(['hw', 'hw', 'hw', 'hw_nodrv', 'bare'])
        root, objs, drivers = H.random_tree(rng, with_top_driver=None if mode == 'bare' else True)
        if mode == 'hw_nodrv':
            drivers = [d for d in drivers if d is not root._vf_driver]
            D.assign(root, None)
        didx = {id(d): i for i, d in enumerate(drivers)}
        real, ref = [], []
        for o in objs:
            try:
                with quiet():
                    r = py4hw.getObjectClockDriver(o)
                real.append(didx.get(id(r), -2))
            except Exception as ex:
                real.append(None if 'No clock driver' in str(ex) else 'exception %r' % ex)
            n = D.nearest_driver(o)
            ref.append(None if n is None else didx[id(n)])
            ctx.count(('lookup', t, len(objs), o.getFullPath()))
        buckets, ref_buckets = 'n/a', 'n/a'
        if mode != 'bare':
            # harness-owned reference table: allLeaves order, clockable leaves grouped by nearest driver, first-seen order
            ref_buckets, order = {}, []
            leaves0 = root.allLeaves()
            for i, l in enumerate(leaves0):
                if callable(getattr(l, 'clock', None)):
                    n = D.nearest_driver(l)
                    if n is None: ref_buckets = None; break
                    if id(n) not in ref_buckets: ref_buckets[id(n)] = (didx[id(n)], []); order.append(id(n))
                    ref_buckets[id(n)][1].append(i)
            if ref_buckets is not None: ref_buckets = [ref_buckets[k] for k in order]
            try:
                with quiet():
                    sim = root.getSimulator()
                leaves = root.allLeaves()
                lid = {id(l): i for i, l in enumerate(leaves)}
                buckets = [(didx[id(drv)], [lid[id(l)] for l in cds.clockables]) for drv, cds in sim.clockDrivers.items()]
            except Exception as ex:
                buckets = None if 'No clock driver' in str(ex) else 'exception %r' % ex
            ctx.count(('buckets', t))
        items.append(('t%d' % t, '(%s, clock_buckets %s)' % ('[' + '; '.join('getObjectClockDriver %s' % obj_term(o, didx) for o in objs) + ']',
                                                             htree_term(root, didx))))
        meta.append(dict(tree=t, mode=mode, n_objects=len(objs), n_drivers=len(drivers), real=real, ref=ref, buckets=buckets, ref_buckets=ref_buckets,
                         paths=[o.getFullPath() for o in objs],
                         fields=[None if o.__dict__.get('_vf_driver') is None else didx[id(o._vf_driver)] for o in objs],
                         names=[getattr(d, 'name', None) for d in drivers]))
    probs = []
    for m in meta:
        if m['real'] != m['ref']:
            k = next(i for i, (a, b) in enumerate(zip(m['real'], m['ref'])) if a != b)
            probs.append(dict(kind='impl', what='getObjectClockDriver does not return the nearest ancestor\'s driver', tree_seed=ctx.seed * 7727 + m['tree'],
                              object=m['paths'][k], returned=m['real'][k], nearest=m['ref'][k], configured_drivers=dict(zip(m['paths'], m['fields'])), driver_names=m['names']))
        if m['buckets'] != 'n/a':
            norm = lambda b: b if b is None or isinstance(b, str) else [(a, list(x)) for a, x in b]
            if norm(m['buckets']) != norm(m['ref_buckets']):
                probs.append(dict(kind='impl', what='Simulator.clockDrivers does not put every clockable leaf once under its nearest ancestor\'s driver',
                                  tree_seed=ctx.seed * 7727 + m['tree'], mode=m['mode'], simulator_table=norm(m['buckets']), expected=norm(m['ref_buckets']),
                                  configured_drivers=dict(zip(m['paths'], m['fields'])), driver_names=m['names']))
    try:
        res = common.coq_eval('C10_tree', TREE_PRELUDE, items, timeout=600)
    except RuntimeError as ex:
        return probs, str(ex)[-1200:]
    un = lambda v: None if v is None else v[1]
    for m in meta:
        r = res['t%d' % m['tree']]
        model_lookup = [un(v) for v in r[0]]
        model_b = None if r[1] is None else [(a, list(b)) for a, b in un(r[1])]
        if model_lookup != m['real'] and m['real'] == m['ref']:
            probs.append(dict(kind='model', what='Model/ClockTree.getObjectClockDriver disagrees with the real function', tree_seed=ctx.seed * 7727 + m['tree'],
                              model=model_lookup, real=m['real']))
        if m['buckets'] != 'n/a':
            real_b = m['buckets'] if m['buckets'] is None or isinstance(m['buckets'], str) else [(a, list(b)) for a, b in m['buckets']]
            if real_b != model_b and real_b == norm(m['ref_buckets']):
                probs.append(dict(kind='model',
                                  what='Simulator.clockDrivers (driver -> clockables) differs from Model/ClockTree.clock_buckets',
                                  tree_seed=ctx.seed * 7727 + m['tree'], real=real_b, model=model_b, mode=m['mode']))
    if meta:
        ctx.sample({'lookup_tree': {k: meta[0][k] for k in ('mode', 'paths', 'fields', 'real', 'buckets')}})
    return probs, None


# ------------------------------------------------------------------------------------------------ gating oracle
def clocked_leaves(hw):
    return [l for l in hw.allLeaves() if callable(getattr(l, 'clock', None))]


def snapshot(hw, sim=None):
    wires = netlist.all_wires(hw)
    vals = {w.getFullPath(): w.get() for w in wires}
    sts = {D.clockable_key(l): D.leaf_state(l) for l in clocked_leaves(hw)}
    return vals, sts


def domains_of(hw):
    """the clock domains as CONFIGURED (harness record of the driver assignments, nearest ancestor), independent of
    Simulator.clockDrivers, of obj.clockDriver and of driver names: [(driver object, [leaves])] in allLeaves order"""
    order, groups = [], {}
    for l in clocked_leaves(hw):
        d = D.nearest_driver(l)
        if id(d) not in groups: groups[id(d)] = (d, []); order.append(id(d))
        groups[id(d)][1].append(l)
    return [groups[k] for k in order]


def domain_table(hw):
    """[(label, driver, enabled before the edge?, leaf paths, out-port wire paths)]"""
    t = []
    for k, (drv, leaves) in enumerate(domains_of(hw)):
        en = drv is None or drv.enable is None or drv.enable.get() != 0
        t.append(('%s#%d' % (getattr(drv, 'name', None), k), drv, en, [D.clockable_key(l) for l in leaves],
                  [p.wire.getFullPath() for l in leaves for p in l.outPorts if p.wire is not None]))
    return t


def twin(hw):
    """a deep copy of the whole live design (wire values, leaf states, drivers) with its own fresh simulator.
    Simulator defines __new__(cls, sys) and cannot be deep-copied itself, so it is detached during the copy."""
    sim = hw.simulator
    hw.simulator = None
    try:
        with quiet():
            t = copy.deepcopy(hw)
    finally:
        hw.simulator = sim
    with quiet():
        t.getSimulator()
    return t


def gating_oracle(family, seed, domains, n_steps, steps=None):
    """edge-by-edge checks on the real simulator.  Returns (problem or None, steps, stats)"""
    b = D.build(family, seed, domains)
    rng = random.Random((seed * 7919 + 13) ^ 0x5bd1)
    if steps is None:
        steps = D.stimulus(b, rng, n_steps, max_clk=3)
    inst = D.Instance(b)
    bm = D.build(family, seed, domains); inst_m = D.Instance(bm)      # the same design driven with ONE clk(n) call per step (n up to 3)
    stats = {'edges': 0, 'gated_edges': 0, 'enabled_gated_domains': 0, 'domains': len(domains_of(b.hw))}
    for k, (pokes, n) in enumerate(steps):
        inst.poke(pokes)
        for c in range(n):
            with quiet():
                inst.sim.propagateAll()                       # clk() does this first; make the enables current
            pre_v, pre_s = snapshot(b.hw)
            tab = domain_table(b.hw)
            # twin A: every configured driver whose enable reads non-zero is UNGATED
            ta, tb = twin(b.hw), twin(b.hw)
            for drv, _ in domains_of(ta):
                if drv is not None and drv.enable is not None and drv.enable.get() != 0: drv.enable = None
            # twin B: every OTHER domain's gating is flipped; target domain unchanged
            ti = (k + c) % len(tab)
            with quiet():
                zero = tb.wire('c10_force0', 1)
            for j, (drv, _) in enumerate(domains_of(tb)):
                if j == ti or drv is None: continue
                en = drv.enable is None or drv.enable.get() != 0
                drv.enable = zero if en else None
            pr = inst.clk(1)
            with quiet():
                ta.simulator.clk(1); tb.simulator.clk(1)
            post_v, post_s = snapshot(b.hw)
            av, as_ = snapshot(ta)
            bv, bs = snapshot(tb)
            stats['edges'] += 1
            def fail(what, **kw):
                return dict(what=what, step=k, cycle_in_step=c, pokes=pokes, enables_before_edge={m[0]: m[2] for m in tab},
                            domains={m[0]: m[3] for m in tab}, **kw), steps, stats
            if pr: return fail('bookkeeping after clk(1): ' + '; '.join(pr))
            for name, drv, en, leaves, outs in tab:
                if not en:
                    stats['gated_edges'] += 1
                    for l in leaves:
                        if post_s[l] != pre_s[l]:
                            return fail('a sequential block of a gated domain changed state although its enable read 0 before the edge',
                                        domain=name, leaf=l, before=pre_s[l], after=post_s[l])
                    for w in outs:
                        if post_v[w] != pre_v[w]:
                            return fail('an output of a gated domain changed although its enable read 0 before the edge',
                                        domain=name, wire=w, before=pre_v[w], after=post_v[w])
                elif drv is not None and drv.enable is not None:
                    stats['enabled_gated_domains'] += 1
            for w in post_v:
                if av.get(w) != post_v[w]:
                    return fail('with the enabled drivers replaced by ungated ones the edge gives a different value', wire=w, gated=post_v[w], ungated=av.get(w))
            for l in post_s:
                if as_.get(l) != post_s[l]:
                    return fail('with the enabled drivers replaced by ungated ones the edge gives a different leaf state', leaf=l, gated=post_s[l], ungated=as_.get(l))
            name, drv, en, leaves, outs = tab[ti]
            for l in leaves:
                if bs.get(l) != post_s[l]:
                    return fail('the post-edge state of a domain depends on the gating of the OTHER domains', domain=name, leaf=l,
                                here=post_s[l], others_flipped=bs.get(l))
            for w in outs:
                if bv.get(w) != post_v[w]:
                    return fail('an output of a domain depends on the gating of the OTHER domains', domain=name, wire=w,
                                here=post_v[w], others_flipped=bv.get(w))
        # the enables are looked at before EVERY edge also inside a multi-cycle call: clk(n) on a second instance of the design must
        # leave it exactly where the n single edges (each checked above against its own pre-edge enables) left the first
        inst_m.poke(pokes)
        prm = inst_m.clk(n)
        if n >= 1:
            mv, ms = snapshot(bm.hw)
            sv, ss = snapshot(b.hw)
            def failm(what, **kw):
                return dict(what=what, step=k, pokes=pokes, ncycles=n, domains={m[0]: m[3] for m in domain_table(b.hw)}, **kw), steps, stats
            if prm: return failm('bookkeeping after clk(%d): ' % n + '; '.join(prm))
            for l in ss:
                if ms.get(l) != ss[l]:
                    return failm('clk(n) in one call leaves a sequential block in a different state than n single edges, each gated by the enable read before it',
                                 leaf=l, single_edges=ss[l], one_call=ms.get(l))
            for w in sv:
                if mv.get(w) != sv[w]:
                    return failm('clk(n) in one call leaves a wire at a different value than n single edges, each gated by the enable read before it',
                                 wire=w, single_edges=sv[w], one_call=mv.get(w))
    return None, steps, stats


# ------------------------------------------------------------------------------------------------ run
def plan(ctx):
    if ctx.quick:
        return [('hier', 1), ('hier', 2), ('hier', 3), ('hier', 4), ('chain', 3), ('mem', 2), ('fsm', 2), ('swap', 3)], 4, 14
    return [('hier', d) for d in (1, 2, 3, 4)] + [(f, d) for f in ('chain', 'swap', 'mem', 'counter', 'fsm') for d in (2, 3, 4)], 14, 24


def report(ctx, fam, seed, dom, info, steps, p):
    ctx.violation({'what': p['what'], 'family': fam, 'seed': seed, 'domains': dom, 'design': info, 'steps': steps[:p['step'] + 1],
                   'failing_step': p['step'], 'detail': {k: v for k, v in p.items() if k != 'what'},
                   'replay_hint': './check --replay <this file>  (rebuilds the design from (family, seed, domains) and re-applies the steps)'})


def run(ctx):
    ctx.cov['rule'] = ('obligations: theorems of Properties/C10.v; correspondence cases: (hierarchy x object) lookups, (hierarchy) driver tables, and '
                       '(design family x seed x number of drivers x edge) gating checks; an edge is non-trivial when at least one gated driver exists; '
                       'distinct by (family, seed, domains, step)')
    missing = ctx.regen(NEEDED)
    r = ctx.prove(['Properties/C10.v'])
    tie_ok = (not missing) and r['ok']
    ctx.log('proofs built: %s' % r['ok'])
    found = False
    # ---- (a) lookup / bucketing
    probs, err = lookup_tie(ctx, 40 if ctx.quick else 300)
    if err:
        ctx.notes['tree_coq_error'] = err
        if tie_ok and not probs:
            ctx.violation({'what': 'the lookup/bucketing model could not be evaluated in Coq, correspondence with getObjectClockDriver unchecked', 'coq_error': err},
                          found_input=False); found = True
    for p in probs[:3]:
        kind = p.pop('kind')
        ctx.violation(p, found_input=(kind == 'impl')); found = True
    # ---- (b) gating, edge by edge on the real simulator + snapshot reference + kernel model
    ctx.log('lookup tie done (%d problems)' % len(probs))
    fams, n_seeds, n_steps = plan(ctx)
    dumped, agg = [], {'edges': 0, 'gated_edges': 0, 'enabled_gated_domains': 0}
    for fi, (fam, dom) in enumerate(fams):
        if found: break
        for sd in range(n_seeds):
            seed = ctx.seed * 1000003 + 77 + fi * 1009 + sd
            p, steps, st = gating_oracle(fam, seed, dom, n_steps)
            for k in agg: agg[k] += st[k]
            for k in range(len(steps)): ctx.count((fam, seed, dom, k), nontrivial=st['domains'] > 1)
            if p is not None:
                report(ctx, fam, seed, dom, D.build(fam, seed, dom).info, steps, p); found = True; break
            res = c05.run_case(fam, seed, dom, n_steps, ['random'], want_dump=True, steps=steps)
            if res['problem'] is not None:
                report(ctx, fam, seed, dom, res['info'], steps, res['problem']); found = True; break
            if sd == 0 and len(ctx.cov['samples']) < 7:
                ctx.sample({'family': fam, 'domains': dom, 'design': res['info'], 'schedule': res['schedules']['natural'], 'edge_stats': st})
            if res['dump'] is not None: dumped.append(res)
    ctx.notes['gating_stats'] = agg
    ctx.log('gating oracle done: %s' % agg)
    if not found and dumped:
        try:
            probs = []
            for off in range(0, len(dumped), 24):
                probs += c05.coq_compare(ctx, 'C10_kernel_%d' % (off // 24), dumped[off:off + 24])
            ctx.notes['kernel_model_designs_compared'] = len(dumped)
            for p in probs[:3]:
                kind = p.pop('kind')
                ctx.violation(p if kind == 'spec' else dict(p, note='correspondence between Model/SimKernel.v (or a theorem hypothesis) and the real simulator is broken'),
                              found_input=(kind == 'spec')); found = True
        except RuntimeError as ex:
            if tie_ok: raise
            ctx.notes['coq_compare_error'] = str(ex)[-1500:]
    if not found and not tie_ok:
        for fi, (fam, dom) in enumerate([('hier', d) for d in (2, 3, 4)] + [('chain', 3), ('mem', 3), ('fsm', 3)]):
            for sd in range(8):
                seed = ctx.seed * 1000003 + 600000 + fi * 1009 + sd
                p, steps, st = gating_oracle(fam, seed, dom, 20)
                ctx.count((fam, seed, dom, 'wide'), n=len(steps))
                if p is not None:
                    report(ctx, fam, seed, dom, D.build(fam, seed, dom).info, steps, p); found = True; break
            if found: break
        if not found:
            what = ('translator rejected %s: %s' % (missing, {k: ctx.gen['errors'].get(k) for k in missing}) if missing else
                    'proof obligation no longer checks: %s in %s' % (r.get('lemma'), r.get('file')))
            ctx.violation({'what': what, 'theorem': r.get('lemma'), 'file': r.get('file'), 'coq_error': r.get('msg')}, found_input=False)
    ctx.assumptions += ['Model/ClockTree.v mirrors getObjectClockDriver and the clockDrivers bucketing of Simulator.topologicalSort (compared on random hierarchies on every run)',
                        'Model/SimKernel.v mirrors the per-driver enable test of Simulator._clk_cycle (run against the real simulator inside Coq on multi-domain designs)',
                        'registered_once (every clockable leaf in exactly one driver bucket) is evaluated on every dumped design and proved of the bucketing model (C10_buckets_partition)',
                        'ClockDriver objects are compared by identity (no __eq__/__hash__ override) - checked by the bucket comparison']


def replay(rp):
    fam, seed, dom = rp.get('family'), rp.get('seed'), rp.get('domains', 1)
    if fam is None and 'tree_seed' in rp:
        ts = rp['tree_seed']
        c2 = common.Ctx('C10', 'quick', 0)      # lookup_tie derives tree seeds as ctx.seed*7727 + t: seed 0, t = tree_seed
        probs, err = _lookup_one(c2, ts)
        if probs:
            print('replay: STILL FAILING'); print(json.dumps(probs[0], indent=1, default=str)[:3000]); return 1
        print('replay: tree %d: every object resolves to its nearest ancestor\'s driver and the driver table matches' % ts); return 0
    if fam is None:
        print(json.dumps(rp, indent=1)[:4000]); return 0
    steps = [([tuple(p) for p in pokes], n) for pokes, n in rp['steps']]
    p, _, st = gating_oracle(fam, seed, dom, len(steps), steps=steps)
    if p is None:
        res = c05.run_case(fam, seed, dom, len(steps), ['reverse', 'random'], want_dump=False, steps=steps)
        p = res['problem']
    if p is None:
        print('replay: %s seed %s domains %s: gating / frame / ungated-twin / reference checks all pass on the %d recorded steps (%s)' % (fam, seed, dom, len(steps), st))
        return 0
    print('replay: STILL FAILING'); print(json.dumps(p, indent=1, default=str)[:3000])
    return 1
