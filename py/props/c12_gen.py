"""C12 — structured input generators (exhaustive small widths + boundary values + random), shared by the oracle sweep
(= the search for a failing input) and by the Coq correspondence cases."""
import math, struct
from props.c12_ops import FMT, BITS, bits_to_float, float_to_bits, fields


def c2_cases(rng, quick):
    """(v, w): exhaustive for small widths over a range wider than the width, boundary + random for large widths"""
    out = []
    for w in range(1, 7 if quick else 12):
        for v in range(-(1 << (w + 1)) - 1, (1 << (w + 1)) + 2):
            out.append((v, w))
    for w in (7, 8, 15, 16, 31, 32, 33, 63, 64, 65, 127, 128, 200):
        h = 1 << (w - 1)
        vs = {0, 1, -1, 2, -2, h - 1, h, h + 1, -h, -h - 1, -h + 1, 2 * h - 1, 2 * h, 2 * h + 1, -2 * h, -2 * h - 1, 3 * h, -3 * h, (1 << (w + 9)) + 5}
        for _ in range(6 if quick else 60):
            vs.add(rng.randrange(-4 * h, 4 * h))
        out += [(v, w) for v in sorted(vs)]
    return out


def sext_cases(rng, quick):
    out = []
    for w in range(1, 5 if quick else 7):
        for nw in range(w, w + 4):
            for v in range(-(1 << w) - 1, (1 << (w + 1)) + 1):
                out.append((v, w, nw))
    for (w, nw) in ((8, 16), (8, 8), (16, 32), (31, 64), (32, 64), (33, 66), (64, 128), (1, 64), (100, 200)):
        h = 1 << (w - 1)
        vs = {0, 1, h - 1, h, h + 1, 2 * h - 1, 2 * h, 2 * h + 1, -1, -h, (1 << (w + 5)) + h}
        for _ in range(4 if quick else 40):
            vs.add(rng.randrange(-4 * h, 4 * h))
        out += [(v, w, nw) for v in sorted(vs)]
    return out


def fx_formats_small(quick):
    maxw = 5 if quick else 7
    return [(sw, iw, fw) for sw in (0, 1) for iw in (1, 2, 3) for fw in (0, 1, 2, 3) if sw + iw + fw <= maxw]

FX_BIG = [(1, 16, 16), (1, 8, 8), (0, 8, 8), (1, 1, 62), (1, 32, 0), (1, 20, 44), (0, 1, 15), (1, 5, 15), (1, 3, 10), (1, 30, 70)]
FX_NO_INT_BITS = [(1, 0, 3), (0, 0, 4), (1, 0, 0), (1, 0, 1), (0, 0, 1), (0, 0, 3), (1, 0, 2), (1, 0, 15), (0, 0, 16)]      # pure fractions (finding #23)


def fx_cases(rng, quick):
    """(sw, iw, fw, a, b)"""
    out = []
    for (sw, iw, fw) in fx_formats_small(quick):
        w = sw + iw + fw
        for a in range(1 << w):
            for b in range(1 << w):
                out.append((sw, iw, fw, a, b))
    for (sw, iw, fw) in FX_BIG:
        w = sw + iw + fw; h = 1 << (w - 1); f1 = 1 << fw
        vs = sorted({0, 1, f1 % (2 * h), (f1 >> 1), h - 1, h, h + 1, 2 * h - 1, 2 * h - 2, (3 * f1 // 2) % (2 * h), (2 * h - f1) % (2 * h)})
        for a in vs:
            for b in vs:
                out.append((sw, iw, fw, a, b))
        for _ in range(10 if quick else 200):
            out.append((sw, iw, fw, rng.randrange(2 * h), rng.randrange(2 * h)))
    return out


def mant_boundary(mw):
    s = {0, 1, 2, 3, (1 << mw) - 1, (1 << mw) - 2}
    for k in range(mw):
        s |= {1 << k, (1 << k) - 1, ((1 << k) + 1) % (1 << mw)}
    return sorted(s)


def mant_small(mw, rng):
    s = {0, 1, 2, 1 << (mw - 1), (1 << (mw - 1)) + 1, (1 << (mw - 1)) - 1, (1 << mw) - 1, (1 << mw) - 2, 0x555555555555555 % (1 << mw)}
    s |= {rng.randrange(1 << mw) for _ in range(2)}
    return sorted(s)


def patterns(fmt, rng, quick):
    """bit patterns of a format: all 2^16 for half; exponent x mantissa boundaries x sign (+ random) for single/double"""
    ew, mw, _, _ = FMT[fmt]
    if fmt == 'hp':
        return list(range(1 << 16))
    bias = (1 << (ew - 1)) - 1; emax = (1 << ew) - 1
    edge = {0, 1, 2, 3, bias - 1, bias, bias + 1, bias + mw, bias + mw + 1, emax - 2, emax - 1, emax}
    full = mant_boundary(mw)
    out = []
    for e in range(emax + 1):
        ms = full if (e in edge or not quick or fmt == 'sp' or e % 8 == 5) else mant_small(mw, rng)
        for m in ms:
            for s in (0, 1):
                out.append((s << (ew + mw)) | (e << mw) | m)
    for _ in range(10000 if quick else 1000000):
        out.append(rng.getrandbits(1 + ew + mw))
    return out


def tie_patterns(fmt, rng, n):
    """a few hundred patterns for the in-Coq comparison: boundaries of every class + random"""
    ew, mw, _, _ = FMT[fmt]
    bias = (1 << (ew - 1)) - 1; emax = (1 << ew) - 1
    es = sorted({0, 1, 2, bias - 1, bias, bias + 1, emax - 1, emax, rng.randrange(emax), rng.randrange(emax)})
    ms = sorted({0, 1, 2, 3, 1 << (mw - 1), (1 << (mw - 1)) + 1, (1 << mw) - 1, (1 << mw) - 2, 1 << (mw // 2), (1 << (mw // 2)) - 1,
                 0x5555555555555 % (1 << mw), rng.randrange(1 << mw)})
    out = [(s << (ew + mw)) | (e << mw) | m for e in es for m in ms for s in (0, 1)]
    while len(out) < n:
        out.append(rng.getrandbits(1 + ew + mw))
    return out[:max(n, len(es) * len(ms) * 2)]


def nextafter(x, y):
    return math.nextafter(x, y)


def encode_floats(fmt, rng, quick):
    """doubles handed to sp/dp_to_ieee754: representable values, exact ties between neighbours, just above/below a tie,
    around overflow and underflow, double subnormals, extremes"""
    xs = [0.0, -0.0, 1.0, -1.0, 2.0, -2.0, 4.0, 0.5, 0.25, 8.0, 2.0 ** 52, 2.0 ** 53, 2.0 ** -3, 0.1, -0.1, 3.0, 5e-324, -5e-324, 2.2250738585072014e-308, 1.7976931348623157e308, -1.7976931348623157e308,
          math.inf, -math.inf, math.nan, 2.0 ** -1074, 2.0 ** -1022, 2.0 ** 1023, 1.9999999999999998, 4.9406564584124654e-324 * 3]
    if fmt == 'dp':
        return xs
    ew, mw, _, _ = FMT[fmt]
    emax = (1 << ew) - 1
    es = list(range(emax)) if not quick else sorted(set(list(range(0, 6)) + list(range(emax - 6, emax)) + [rng.randrange(emax) for _ in range(24)] + [126, 127, 128, 150, 151]))
    ms = mant_boundary(mw) if not quick else [0, 1, 2, (1 << mw) - 1, (1 << mw) - 2, 1 << (mw - 1), (1 << (mw - 1)) - 1, rng.randrange(1 << mw)]
    for e in es:
        for m in ms:
            v = (e << mw) | m
            a = bits_to_float(fmt, v)
            nb = bits_to_float(fmt, v + 1)
            b = nb if not math.isinf(nb) else 2.0 ** 128
            mid = (a + b) / 2
            for x in (a, mid, nextafter(mid, math.inf), nextafter(mid, -math.inf), a + (b - a) / 4, a + 3 * (b - a) / 4):
                xs.append(x); xs.append(-x)
    xs += [1.5 * 2.0 ** 128, -1.25 * 2.0 ** 128, nextafter(2.0 ** 129, 0.0), 2.0 ** 129, 1.0000001 * 2.0 ** 128,
           2.0 ** -150, nextafter(2.0 ** -150, 1.0), nextafter(2.0 ** -150, 0.0), 2.0 ** -151, 1.5 * 2.0 ** -149, 2.0 ** -149, 3.0 * 2.0 ** -150,
           2.0 ** 128, nextafter(2.0 ** 128, 0.0), 2.0 ** 127 * (2 - 2.0 ** -24), nextafter(2.0 ** 127 * (2 - 2.0 ** -24), 0.0), 2.0 ** 200, 1e39, -1e39]
    for _ in range(2000 if quick else 400000):
        xs.append(rng.uniform(-1, 1) * 10.0 ** rng.randint(-46, 39))
    return xs


def arith_pool(rng, quick):
    """operand descriptors for the FPNum arithmetic: patterns of the three formats (no half subnormals: finding #21 is
    reported by the decode sweep, not here), Python floats, and raw (s, e, m, p) with p a power of two"""
    pool = [['hp', v] for v in (0x0000, 0x8000, 0x0400, 0x3C00, 0x3C01, 0xBC00, 0x7BFF, 0xFBFF, 0x7C00, 0xFC00, 0x7E00, 0x3555, 0x4100)]
    pool += [['sp', v] for v in (0x00000000, 0x80000000, 0x00000001, 0x807FFFFF, 0x00800000, 0x3F800000, 0x3F800001, 0xBF800000, 0x7F7FFFFF,
                                  0xFF7FFFFF, 0x7F800000, 0xFF800000, 0x7FC00000, 0xC49A6333, 0x3F8CCCCD, 0x4B800000, 0x33800000)]
    pool += [['dp', v] for v in (0x0000000000000001, 0x8000000000000001, 0x000FFFFFFFFFFFFF, 0x0010000000000000, 0x3FF0000000000000,
                                  0x3FF0000000000001, 0xBFEFFFFFFFFFFFFF, 0x7FEFFFFFFFFFFFFF, 0xFFEFFFFFFFFFFFFF, 0x7FF0000000000000,
                                  0x400921FB53C8D4F1, 0x4005BF0A89F1B0DD, 0x4340000000000000, 0x3CA0000000000000)]
    pool += [['f', x.hex()] for x in (0.0, -0.0, 1.0, -1.0, 0.1, -0.3, 3.0, 2.9999999999998197, 3.0000000000001803, 1e308, -1e-308, 123456789.125)]
    pool += [['semp', 1, 0, 12, 4], ['semp', -1, 3, 1, 1024], ['semp', 1, -2000, 12345678901234567890, 1 << 70], ['semp', -1, 1500, 7, 1],
             ['semp', 1, 0, 0, 8], ['semp', -1, 5, 0, 1], ['semp', 1, -3, (1 << 90) + 1, 1 << 90], ['semp', -1, 0, 1, 1 << 100]]
    n = 10 if quick else 90
    for _ in range(n):
        pool.append(['sp', rng.getrandbits(32)]); pool.append(['dp', rng.getrandbits(64)])
        pool.append(['semp', rng.choice((1, -1)), rng.randint(-50, 50), rng.getrandbits(rng.randint(1, 80)), 1 << rng.randint(0, 80)])
    pool += history_operands(rng, quick)
    return pool


def _finite_leaf(rng, fmt):
    """a finite, non-zero pattern of the format with a full significand (odd mantissa), moderate exponent"""
    eb, mb = {'hp': (5, 10), 'sp': (8, 23), 'dp': (11, 52)}[fmt]
    bias = (1 << (eb - 1)) - 1
    e = bias + rng.randint(-3, 3)
    return [fmt, (rng.getrandbits(1) << (eb + mb)) | (e << mb) | rng.getrandbits(mb) | 1]


def history_operands(rng, quick):
    """operands that are RESULTS of earlier FPNum operations (descriptor ['expr', op, d1, d2]): running products of k factors, balanced
    products, squares of 1 + 2^-k given as (s, e, m, p), alternating multiply / add / subtract chains, and raw components whose precision
    is far beyond a double's.  The claim is exactness on the rationals for EVERY operand an FPNum can hold, and the only way to a
    long significand is through a history of operations."""
    out = []
    for fmt, ks in (('dp', (2, 3, 4, 5, 8)), ('sp', (4, 9, 10, 14)), ('hp', (8, 21, 24))):
        for k in (ks if not quick else ks[:3] + ks[-1:]):
            d = _finite_leaf(rng, fmt)
            for _ in range(k - 1): d = ['expr', 'mul', d, _finite_leaf(rng, fmt)]
            out.append(d)
    a, b, c, e = (_finite_leaf(rng, 'dp') for _ in range(4))
    out.append(['expr', 'mul', ['expr', 'mul', a, b], ['expr', 'mul', c, e]])
    for k in (60, 101, 120, 150, 260):
        one_eps = ['semp', 1, 0, (1 << k) + 1, 1 << k]
        out.append(one_eps)
        out.append(['expr', 'mul', one_eps, one_eps])
    out.append(['semp', -1, 7, (1 << 330) + (1 << 165) + 1, 1 << 330])
    out.append(['semp', 1, -40, (1 << 401) - 1, 1 << 400])
    for _ in range(3 if quick else 12):
        d = _finite_leaf(rng, rng.choice(('sp', 'dp')))
        for i in range(rng.randint(5, 14)):
            d = ['expr', rng.choice(('mul', 'mul', 'add', 'sub')), d, _finite_leaf(rng, rng.choice(('hp', 'sp', 'dp')))]
            if rng.random() < 0.3: d = ['expr', 'mul', d, d]
        out.append(d)
    return out
