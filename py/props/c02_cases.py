"""C02 — hand-written behavioural blocks: minimal reproductions of the known findings (each is also a `C02_refuted_*`
witness in coq/Properties/C02.v) and a few in-subset blocks that exercise corners the repository classes do not.
A real file, so that inspect.getsource (what the transpiler reads) works."""
from py4hw.base import Logic


class NarrowCond(Logic):
    """`if a + b` with 1-bit ports: Verilog evaluates the condition in 1 bit (1+1 = 0), Python in Z (2, true)"""
    def __init__(self, parent, name, a, b, o):
        super().__init__(parent, name)
        self.a = self.addIn('a', a)
        self.b = self.addIn('b', b)
        self.o = self.addOut('o', o)

    def clock(self):
        if self.a.get() + self.b.get():
            self.o.prepare(1)
        else:
            self.o.prepare(0)


class NarrowShift(Logic):
    """(a + b) >> 1 with 8-bit ports into an 8-bit port: the carry is lost before the shift"""
    def __init__(self, parent, name, a, b, o):
        super().__init__(parent, name)
        self.a = self.addIn('a', a)
        self.b = self.addIn('b', b)
        self.o = self.addOut('o', o)

    def clock(self):
        self.o.prepare((self.a.get() + self.b.get()) >> 1)


class OrValue(Logic):
    """x = a or b as a VALUE: Python gives a (or b), Verilog's || gives 1"""
    def __init__(self, parent, name, a, b, o):
        super().__init__(parent, name)
        self.a = self.addIn('a', a)
        self.b = self.addIn('b', b)
        self.o = self.addOut('o', o)
        self.x = 0

    def clock(self):
        self.x = self.a.get() or self.b.get()
        self.o.prepare(self.x)


class TernaryComb(Logic):
    """a ternary in a combinational propagate: emitted as a statement `if` in expression position"""
    def __init__(self, parent, name, a, b, o):
        super().__init__(parent, name)
        self.a = self.addIn('a', a)
        self.b = self.addIn('b', b)
        self.o = self.addOut('o', o)

    def propagate(self):
        t = self.a.get() if self.b.get() else self.a.get() + 1
        self.o.put(t)


class TernarySeq(Logic):
    """the same in clock(): ReplaceIf has already turned the IfExp into a VerilogIf when ReplaceIfExp runs"""
    def __init__(self, parent, name, a, b, o):
        super().__init__(parent, name)
        self.a = self.addIn('a', a)
        self.b = self.addIn('b', b)
        self.o = self.addOut('o', o)
        self.x = 0

    def clock(self):
        self.x = self.a.get() if self.b.get() else 3
        self.o.prepare(self.x)


class PortName(Logic):
    """the port is called `res`, the attribute holding it `result`: the transpiler writes `result` (undeclared)"""
    def __init__(self, parent, name, a, b, res):
        super().__init__(parent, name)
        self.a = self.addIn('a', a)
        self.b = self.addIn('b', b)
        self.result = self.addOut('res', res)

    def clock(self):
        self.result.prepare(self.a.get() + self.b.get())


class CmpRhs(Logic):
    """5 == (a & 7): the right operand of a comparison loses its parentheses -> (5 == a) & 7"""
    def __init__(self, parent, name, a, b, o):
        super().__init__(parent, name)
        self.a = self.addIn('a', a)
        self.b = self.addIn('b', b)
        self.o = self.addOut('o', o)

    def clock(self):
        if 5 == (self.a.get() & 7):
            self.o.prepare(1)
        else:
            self.o.prepare(0)


class MatchNoDefault(Logic):
    """match without `case _`: `default:` is emitted with no statement before `endcase`"""
    def __init__(self, parent, name, a, b, o):
        super().__init__(parent, name)
        self.a = self.addIn('a', a)
        self.b = self.addIn('b', b)
        self.o = self.addOut('o', o)
        self.s = 0

    def clock(self):
        match self.s:
            case 0:
                self.s = 1
            case 1:
                self.s = 0


class AugPort(Logic):
    """`self.o += 1` on a port attribute: a TypeError in Python, accepted as `o<=o+1`"""
    def __init__(self, parent, name, a, b, o):
        super().__init__(parent, name)
        self.a = self.addIn('a', a)
        self.b = self.addIn('b', b)
        self.o = self.addOut('o', o)

    def clock(self):
        self.o += 1


class MatchGuard(Logic):
    """a guarded case whose guard is false falls through to `case _` in Python; the emitted `1: if (g) ...` does not"""
    def __init__(self, parent, name, a, b, o):
        super().__init__(parent, name)
        self.a = self.addIn('a', a)
        self.b = self.addIn('b', b)
        self.o = self.addOut('o', o)
        self.s = 0

    def clock(self):
        match self.a.get():
            case 1 if self.b.get() == 1:
                self.o.prepare(5)
            case _:
                self.o.prepare(3)


# ---------------------------------------------------------------- outside the subset: the transpiler must refuse
class MatchCapture(Logic):
    """`case other:` binds the subject to a name used in the body: nothing in Verilog does that"""
    def __init__(self, parent, name, a, b, o):
        super().__init__(parent, name)
        self.a = self.addIn('a', a)
        self.b = self.addIn('b', b)
        self.o = self.addOut('o', o)
        self.last = 0

    def clock(self):
        match self.a.get():
            case 0:
                self.o.prepare(self.b.get())
            case other:
                self.last = other
                self.o.prepare(other + 1)


# ---------------------------------------------------------------- in-subset corner blocks (must validate)
class MatchFsm(Logic):
    def __init__(self, parent, name, a, b, o):
        super().__init__(parent, name)
        self.a = self.addIn('a', a)
        self.b = self.addIn('b', b)
        self.o = self.addOut('o', o)
        self.s = 0
        self.acc = 0

    def clock(self):
        match self.s:
            case 0:
                if self.b.get():
                    self.s = 1
                    self.acc = self.a.get()
            case 1:
                self.acc = (self.acc * 3 + self.a.get()) & 0xFFFF
                self.o.prepare(self.acc >> 2)
                self.s = 2
            case 2:
                self.o.prepare(self.acc % 7)
                self.s = 0
            case _:
                self.s = 0


class LastWriteWins(Logic):
    """two prepares of the same port in one cycle, a blocking update visible to a later `if`"""
    def __init__(self, parent, name, a, b, o):
        super().__init__(parent, name)
        self.a = self.addIn('a', a)
        self.b = self.addIn('b', b)
        self.o = self.addOut('o', o)
        self.s = 0

    def clock(self):
        self.o.prepare(self.a.get())
        self.s = self.s ^ 1
        if self.s == 1 and not self.b.get():
            self.o.prepare(self.a.get() + 1)


class ReadAfterPrepare(Logic):
    """get() after prepare() of the same port in one cycle still sees the OLD value (non-blocking `<=`, not `=`)"""
    def __init__(self, parent, name, a, b, o):
        super().__init__(parent, name)
        self.a = self.addIn('a', a)
        self.b = self.addIn('b', b)
        self.o = self.addOut('o', o)
        self.s = 0

    def clock(self):
        self.o.prepare(self.a.get())
        self.s = self.o.get()
        if self.b.get():
            self.o.prepare((self.o.get() + self.s) & 15)


class Chain3(Logic):
    """three-operand and / or chains: the LAST operand decides"""
    def __init__(self, parent, name, a, b, o):
        super().__init__(parent, name)
        self.a = self.addIn('a', a)
        self.b = self.addIn('b', b)
        self.o = self.addOut('o', o)
        self.s = 0

    def clock(self):
        if (self.a.get() & 1) and (self.a.get() & 2) and self.b.get():
            self.o.prepare(1)
        else:
            self.o.prepare(0)
        if (self.a.get() & 4) or (self.a.get() & 8) or self.b.get() == 3:
            self.s = 1
        else:
            self.s = 0


class NestRight(Logic):
    """the same non-associative operator nested as the RIGHT operand: the parentheses are essential"""
    def __init__(self, parent, name, a, b, o):
        super().__init__(parent, name)
        self.a = self.addIn('a', a)
        self.b = self.addIn('b', b)
        self.o = self.addOut('o', o)
        self.s0 = 0
        self.s1 = 0
        self.s2 = 0
        self.s3 = 0
        self.s4 = 0

    def clock(self):
        self.s0 = (self.a.get() - (self.b.get() - 3)) & 255
        self.s1 = self.a.get() // ((self.b.get() | 16) // 4)
        self.s2 = self.a.get() % (((self.b.get() * 2) + 1) % 4)
        self.s3 = self.a.get() >> (self.b.get() >> 1)
        self.s4 = (self.a.get() & 15) << ((self.b.get() & 1) << 1)
        self.o.prepare(self.s0 ^ self.s3)


class AugThenRead(Logic):
    """an augmented assignment takes effect immediately: later statements of the same call see the new value"""
    def __init__(self, parent, name, a, b, o):
        super().__init__(parent, name)
        self.a = self.addIn('a', a)
        self.b = self.addIn('b', b)
        self.o = self.addOut('o', o)
        self.n = 0
        self.m = 1

    def clock(self):
        self.n += self.a.get()
        self.o.prepare(self.n)
        if self.n > 20:
            self.n = 0
        self.m <<= 1
        self.m |= self.b.get()
        self.m &= 255
        t = 3
        t += self.m
        self.m = t & 255


class CombMux(Logic):
    def __init__(self, parent, name, a, b, o):
        super().__init__(parent, name)
        self.a = self.addIn('a', a)
        self.b = self.addIn('b', b)
        self.o = self.addOut('o', o)

    def propagate(self):
        t = (self.a.get() >> 1) & 3
        if self.b.get() == 1 or t == 2:
            self.o.put(t + 5)
        else:
            self.o.put(self.a.get() ^ 9)


FINDINGS = [('NarrowCond', (1, 1, 1)), ('NarrowShift', (8, 8, 8)), ('OrValue', (4, 4, 4)), ('TernaryComb', (4, 1, 8)),
            ('TernarySeq', (4, 1, 8)), ('PortName', (4, 4, 5)), ('CmpRhs', (4, 1, 1)), ('MatchNoDefault', (1, 1, 1)), ('AugPort', (1, 1, 4)), ('MatchGuard', (2, 1, 3))]
REFUSED = [('MatchCapture', (3, 2, 4))]
CORNERS = [('ReadAfterPrepare', (4, 1, 4)), ('AugThenRead', (4, 1, 8)), ('Chain3', (4, 2, 1)), ('NestRight', (8, 3, 8)), ('MatchFsm', (8, 1, 16)), ('LastWriteWins', (6, 1, 7)), ('CombMux', (5, 2, 8)), ('MatchFsm', (32, 1, 12))]
