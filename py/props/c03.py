"""C03 — emitted Verilog is self-consistent: it parses, resolves and elaborates.

Technique: translation validation with a Coq-PROVED checker.
  * Properties/C03.v:  wf_design ext d = true -> WF ext d   (WF = declarative spec, Spec/C03.v)
                       WF [] d -> (VSem fragment) -> every module elaborates with the stated fuel.
  * per run: a stream of designs built from REAL py4hw objects, emitted by the REAL VerilogGenerator, parsed by the
    fail-closed round-trip parser (py/vparse.py) and decided by `wf_design` under vm_compute.  `wf_report` (diagnostics,
    unproved) names the failing clause / module / identifier; consistency (wf_design = true <-> report = []) is checked
    on every text.
  * a failing clause that matches a NARROW signature of known_findings/C03.json -> KNOWN-FINDING; anything else -> VIOLATION
    (replay = text + clause).  Parse failures of returned text are violations unless they match a known signature."""
import os, re, json, ast, inspect, textwrap, time, collections
import common, vparse, vlog
from common import quiet
from props import c03_designs as D

PRELUDE = 'From V Require Import Model.VSyntax Model.VWf.\nOpen Scope string_scope.\n'
CHUNK = 120


# ------------------------------------------------------------------------------------------------ emission / evaluation
def normalise(astm):
    """memory word ranges may be written [0:N-1] or [N-1:0] (both legal); vparse.cq_design computes depth as hi-lo+1 of
    the second form only, so order the bounds here (request to the owner of vparse.py noted in docs/C03.md)."""
    out = []
    for (k, name, params, ports, items) in astm:
        its = [(('mem', it[1], it[2], min(it[3], it[4]), max(it[3], it[4])) if it[0] == 'mem' else it) for it in items]
        out.append((k, name, params, ports, its))
    return out


def materialise(p, case):
    """build the real objects, run the real generator, parse.  Sets case.top/text/ast/error/stage."""
    case.stage = 'ctor'
    try:
        with quiet():
            case.top = case.build(p)
    except Exception as ex:
        case.error = '%s: %s' % (type(ex).__name__, ex); return
    case.stage = 'gen'
    try:
        case.text = case.emit(p, case.top) if case.emit else vlog.emit(case.top)
    except Exception as ex:
        case.error = '%s: %s' % (type(ex).__name__, str(ex)[:200]); return
    case.stage = 'parse'
    try:
        case.ast = normalise(vparse.parse(case.text))
    except vparse.VParseError as ex:
        case.error = str(ex); return
    case.stage = 'ok'
    case.required, case.ext = requested(p, case)


def requested(p, case):
    """(name of the module the request is for, black-box list): a hierarchy request must define the requested block's module and
    everything it instantiates (ext = []); a getVerilog request returns ONE module, whose non-inlined children are black boxes"""
    import py4hw.rtl_generation as R
    top = case.top
    if case.mode == 'single':
        gen = p.VerilogGenerator(top)
        ext = sorted({R.getVerilogModuleName(ch) for ch in top.children.values() if not gen.isInlinable(ch)})
        return R.getVerilogModuleName(top), ext
    return R.getVerilogModuleName(top, noInstanceNumber=True), []


def decode(v):
    """coq_eval value of (bool, list (string*string*string)) -> (bool, [(clause, module, ident)])"""
    b, rep = v
    out = []
    for d in rep:
        out.append(tuple(x[1] if isinstance(x, tuple) else str(x) for x in d))
    return b, out


def evaluate(tag, texts_ast):
    """[(key, ast, ext)] -> {key: (wf_design, report)}; one Coq case file per CHUNK designs"""
    res = {}
    for s in range(0, len(texts_ast), CHUNK):
        chunk = texts_ast[s:s + CHUNK]
        body, items = [PRELUDE], []
        for i, (key, a, ext) in enumerate(chunk):
            extl = '[' + '; '.join(vparse.cq_str(x) for x in ext) + ']'
            body.append('Definition dsg%d : design := %s.' % (i, vparse.cq_design(a)))
            items.append(('r%d' % i, '(wf_design %s dsg%d, wf_report %s dsg%d)' % (extl, i, extl, i)))
        out = common.coq_eval('%s_%d' % (tag, s // CHUNK), '\n'.join(body), items, timeout=1200)
        try: os.remove(os.path.join(common.CASES, '%s_%d.v' % (tag, s // CHUNK)))      # large; the replay file carries the text
        except OSError: pass
        for i, (key, a, ext) in enumerate(chunk):
            res[key] = decode(out['r%d' % i])
    return res


# ------------------------------------------------------------------------------------------------ attribution of a diagnostic
class Scope:
    """the py4hw objects behind the module names of one emitted hierarchy"""
    def __init__(self, p, top):
        import py4hw.rtl_generation as R
        self.p, self.R, self.top = p, R, top
        self.gen = p.VerilogGenerator(top)
        self.smap = collections.OrderedDict()          # module name -> objects in emission order ([0] is the emitted body)
        self.walk(top, True)

    def walk(self, obj, is_top=False):
        name = self.R.getVerilogModuleName(obj, noInstanceNumber=is_top)
        self.smap.setdefault(name, []).append(obj)
        for ch in obj.children.values():
            if not self.gen.isInlinable(ch):
                self.walk(ch)

    def obj(self, module):
        l = self.smap.get(module)
        return l[0] if l else None

    def name_in(self, o, wire):
        self.R.clearWireNamesCache()
        try:
            return self.R.getWireNames(o).get(wire)
        finally:
            self.R.clearWireNamesCache()

    def ports(self, o):
        return list(o.inPorts) + list(o.outPorts) + list(o.inOutPorts)

    def clkname(self, o):
        from py4hw.base import getObjectClockDriver
        try: return getObjectClockDriver(o).name
        except Exception: return None

    def transpiled(self, o):
        return (o.isPropagatable() or o.isClockable()) and not self.gen.isProvidingBody(o) and not self.gen.isInlinable(o)

    def child_port(self, o, ident):
        """'i_<child>.<port>' -> (child object, port name)"""
        m = re.fullmatch(r'i_(.+)\.([^.]+)', ident)
        if not m: return None, None
        return o.children.get(m.group(1)), m.group(2)


def has_ifexp(o):
    for meth in ('propagate', 'clock'):
        f = getattr(type(o), meth, None)
        if f is None: continue
        try:
            tree = ast.parse(textwrap.dedent(inspect.getsource(f)))
        except Exception:
            continue
        if any(isinstance(n, ast.IfExp) for n in ast.walk(tree)): return True
    return False


def all_objects(o):
    yield o
    for ch in o.children.values():
        yield from all_objects(ch)


# signature predicates: (scope, module object, clause, ident, diagnostics of the same text) -> bool
def sig_scalar_select(sc, o, clause, ident, diags):
    if clause != 'scalar_select': return False
    for c in o.children.values():
        if type(c).__name__ in ('Bit', 'Range', 'SignExtend') and c.a.getWidth() == 1 and sc.name_in(o, c.a) == ident:
            return True
    return False

def sig_replication(sc, o, clause, ident, diags):
    return clause == 'replication_count' and any(type(c).__name__ == 'SignExtend' and c.r.getWidth() <= c.a.getWidth() for c in o.children.values())

def sig_w_collision(sc, o, clause, ident, diags):
    if not ident.startswith('w_'): return False
    ports = {q.name for q in sc.ports(o)}
    locs = {w.name for w in sc.R.collectLocalWires(o)}
    return ident in ports and ident[2:] in locs

def sig_clock_port(sc, o, clause, ident, diags):
    if clause not in ('unknown_port', 'port_unconnected'): return False
    c, port = sc.child_port(o, ident)
    if c is None or not sc.gen.anyClockableDescendant(c): return False
    first = sc.obj(sc.R.getVerilogModuleName(c))
    a, b = sc.clkname(c), sc.clkname(first)
    return first is not None and a != b and port in (a, b)

def sig_attr_port(sc, o, clause, ident, diags):
    if clause != 'undeclared' or not sc.transpiled(o): return False
    w = getattr(o, ident, None)
    for q in sc.ports(o):
        if q.wire is w and w is not None and q.name != ident: return True
    return False

def sig_msgseq(sc, o, clause, ident, diags):
    return clause == 'declared_width' and ident == 'count' and type(o).__name__ == 'MsgSequencer' and len(o.msg) == 1

def sig_missing_keyword(sc, o, clause, ident, diags):
    return clause == 'reserved_word' and ident in ('design', 'uwire') and ident in {q.name for q in sc.ports(o)}

def sig_reserved_prefix(sc, o, clause, ident, diags):
    if not ident.startswith('reserved_'): return False
    ports = {q.name for q in sc.ports(o)}
    return ident in ports and ident[9:] in ports and sc.R.isReservedVerilogKeyword(ident[9:])

def sig_abs_inverted(sc, o, clause, ident, diags):
    if clause in ('unknown_port', 'port_unconnected'):
        c, port = sc.child_port(o, ident)
        if c is None or type(c).__name__ != 'Abs' or port != 'inverted': return False
        first = sc.obj(sc.R.getVerilogModuleName(c))
        has = lambda x: 'inverted' in {q.name for q in x.outPorts}
        return first is not None and has(c) != has(first)
    if clause == 'undriven':        # follow-on: the net hangs on the unknown port
        for (cl, mod, idn) in diags:
            if cl == 'unknown_port' and sig_abs_inverted(sc, o, cl, idn, diags):
                c, port = sc.child_port(o, idn)
                for q in c.outPorts:
                    if q.name == port and sc.name_in(o, q.wire) == ident: return True
    return False

def clock_named_ports(sc, c):
    """the data ports of c that carry the name of c's implicit clock port"""
    ck = sc.clkname(c)
    if ck is None or not sc.gen.anyClockableDescendant(c): return []
    return [q for q in sc.ports(c) if q.name == ck]


def variables_of(o):
    """names the transpiler turns into Verilog variables: locals assigned in propagate/clock and integer state attributes"""
    names = {k for k, v in vars(o).items() if isinstance(v, int) and not isinstance(v, bool)}
    for meth in ('propagate', 'clock'):
        f = getattr(type(o), meth, None)
        if f is None: continue
        try:
            tree = ast.parse(textwrap.dedent(inspect.getsource(f)))
        except Exception:
            continue
        names |= {n.id for n in ast.walk(tree) if isinstance(n, ast.Name) and isinstance(n.ctx, ast.Store)}
        names |= {n.attr for n in ast.walk(tree) if isinstance(n, ast.Attribute) and isinstance(n.ctx, ast.Store) and isinstance(n.value, ast.Name) and n.value.id == 'self'}
    return names


def sig_keyword_variable(sc, o, clause, ident, diags):
    # a VARIABLE (never a port: a keyword-named port must be renamed consistently) of a transpiled block is a keyword
    return clause == 'reserved_word' and sc.transpiled(o) and ident in variables_of(o) and ident not in {q.name for q in sc.ports(o)}

def sig_variable_port_collision(sc, o, clause, ident, diags):
    names = {sc.R.getPortName(q) for q in sc.ports(o)}
    if sc.gen.anyClockableDescendant(o): names.add(sc.clkname(o))          # the implicit clock port
    return sc.transpiled(o) and ident in variables_of(o) and ident in names

def sig_port_named_clock(sc, o, clause, ident, diags):
    # seen from the parent: a connection of an instance whose module has a data port named like its implicit clock port
    c, port = sc.child_port(o, ident)
    if c is not None and port == sc.clkname(c) and clock_named_ports(sc, c): return True
    if clause == 'undriven':
        for c in o.children.values():
            if any(sc.name_in(o, q.wire) == ident for q in clock_named_ports(sc, c)): return True
    ck = sc.clkname(o)
    if ck is None or not sc.gen.anyClockableDescendant(o): return False
    mine = [q for q in sc.ports(o) if q.name == ck]
    if not mine: return False
    if ident == ck: return True
    if clause == 'port_width':
        c, port = sc.child_port(o, ident)
        if c is not None:
            return any(q.name == port and q.wire is mine[0].wire for q in sc.ports(c))
    return False

def sig_subborrowin(sc, o, clause, ident, diags):
    return clause == 'undeclared' and ident == 'ci' and type(o).__name__ == 'SubBorrowIn' and not hasattr(o, 'ci')

def sig_inst_prefix(sc, o, clause, ident, diags):
    if not ident.startswith('i_'): return False
    names = {q.name for q in sc.ports(o)} | {'w_' + w.name for w in sc.R.collectLocalWires(o)}
    return ident in names and ident[2:] in o.children and not sc.gen.isInlinable(o.children[ident[2:]])

def sig_stack_flags(sc, o, clause, ident, diags):
    if clause == 'undriven' and type(o).__name__ == 'Stack_ShiftRegister' and ident in ('empty', 'full'): return True
    if clause == 'multiple_drivers':
        # follow-on seen from the parent: nothing inside drives the two flags, so py4hw cannot refuse one wire on both of them
        for c in o.children.values():
            if type(c).__name__ == 'Stack_ShiftRegister':
                fl = [q for q in c.outPorts if q.name in ('empty', 'full')]
                if len(fl) == 2 and fl[0].wire is fl[1].wire and sc.name_in(o, fl[0].wire) == ident: return True
    return False

def sig_memory_clock(sc, o, clause, ident, diags):
    return clause == 'event' and ident == 'clk' and type(o).__name__ in ('SynchronousMemory', 'DualPortSynchronousMemory') and sc.clkname(o) != 'clk'

SIGNATURES = {
    'scalar-bit-select': sig_scalar_select,
    'signextend-replication-count': sig_replication,
    'w-prefix-collision': sig_w_collision,
    'shared-module-clock-port': sig_clock_port,
    'transpiler-attribute-name': sig_attr_port,
    'msgsequencer-count-width': sig_msgseq,
    'keyword-list-incomplete': sig_missing_keyword,
    'reserved-prefix-collision': sig_reserved_prefix,
    'abs-structure-name-ignores-inverted': sig_abs_inverted,
    'port-named-like-implicit-clock': sig_port_named_clock,
    'stack-flags-undriven': sig_stack_flags,
    'memory-body-hardcoded-clock': sig_memory_clock,
    'transpiler-keyword-variable': sig_keyword_variable,
    'transpiler-variable-port-collision': sig_variable_port_collision,
    'subborrowin-undefined-attribute': sig_subborrowin,
    'i-prefix-collision': sig_inst_prefix,
}


def classify(ctx, sc, diag, diags):
    """-> id of the known finding (status 'known') whose signature the diagnostic matches, else None"""
    clause, module, ident = diag
    o = sc.obj(module)
    if o is None: return None
    for f in ctx.known:
        if f.get('status') != 'known': continue
        pred = SIGNATURES.get(f['id'])
        if pred is None: continue
        try:
            if pred(sc, o, clause, ident, diags): return f['id']
        except Exception:
            continue
    return None


def psig_ternary(case):
    return "'if' in expression" in case.error and any(has_ifexp(o) for o in all_objects(case.top))

def psig_negative_replication(case):
    return 'replication count must be a literal' in case.error and \
        any(type(o).__name__ == 'SignExtend' and o.r.getWidth() < o.a.getWidth() for o in all_objects(case.top))

def psig_empty_concat(case):
    return "unexpected token '}' in expression" in case.error and \
        any(type(o).__name__ in ('ConcatenateMSBF', 'ConcatenateLSBF') and len(o.ins) == 0 for o in all_objects(case.top))

def psig_negative_reset_value(case):
    return "identifier expected, got '-'" in case.error and \
        any(type(o).__name__ == 'Reg' and isinstance(o.reset_value, int) and o.reset_value < 0 for o in all_objects(case.top))

def psig_keyword_variable(case):
    import py4hw.rtl_generation as R
    m = re.search(r"identifier expected, got '(\w+)'", case.error)
    if not m or not R.isReservedVerilogKeyword(m.group(1)): return False
    kw = m.group(1)
    gen = common.quiet_import().VerilogGenerator(case.top)
    for o in all_objects(case.top):
        if (o.isPropagatable() or o.isClockable()) and not gen.isProvidingBody(o) and not gen.isInlinable(o):
            if kw in variables_of(o) and kw not in {q.name for q in list(o.inPorts) + list(o.outPorts) + list(o.inOutPorts)}: return True
    return False

PARSE_SIGNATURES = {
    'transpiler-keyword-variable': psig_keyword_variable,
    'reg-negative-reset-value-module-name': psig_negative_reset_value,
    'ternary-emitted-as-statement': psig_ternary,
    'signextend-replication-count': psig_negative_replication,
    'empty-concatenation': psig_empty_concat,
}


def classify_parse(ctx, case):
    """a parse failure is known only when the error AND the objects of the hierarchy match a signature"""
    for f in ctx.known:
        pred = PARSE_SIGNATURES.get(f['id'])
        if f.get('status') == 'known' and pred is not None:
            try:
                if pred(case): return f['id']
            except Exception:
                continue
    return None


# ------------------------------------------------------------------------------------------------ tie of Model/Naming.v
NAME_VOCAB = ['a', 'b', 'c', 'w_a', 'w_b', 'w_w_a', 'x', 'i_x', 'wire', 'reg', 'reserved_wire', 'reserved_reg', 'reserved_reserved_wire', 'design',
              'output', 'logic', 'w_wire', 'clk2', 'q', 'w_', 'reserved_', 'module', 'w_reserved_wire']


def py4hw_keywords():
    """the string literals of isReservedVerilogKeyword's lists (source of the real function)"""
    import py4hw.rtl_generation as R
    tree = ast.parse(textwrap.dedent(inspect.getsource(R.isReservedVerilogKeyword)))
    out = []
    for n in ast.walk(tree):
        if isinstance(n, ast.List):
            out += [e.value for e in n.elts if isinstance(e, ast.Constant) and isinstance(e.value, str)]
    return out


def naming_tie(ctx, p, n_scopes):
    """Model/Naming.v (emitted_names) against the real getWireNames/getPortName on real scopes; kw_ok on the real keyword list"""
    import random
    import py4hw.rtl_generation as R
    kws = py4hw_keywords()
    bad_kw = [k for k in kws if k.startswith('w_') or k.startswith('reserved_') or not R.isReservedVerilogKeyword(k)]
    if bad_kw or len(kws) < 50:
        ctx.violation({'what': 'premise kw_ok of C03_names_injective_partial fails on py4hw\'s keyword list (or the list could not be read)', 'keywords': bad_kw[:10],
                       'n_keywords': len(kws)}, found_input=False)
        return
    rng = random.Random(ctx.seed * 31 + 7)
    scopes, items = [], []
    for i in range(n_scopes):
        names = rng.sample(NAME_VOCAB, rng.randint(2, 7))
        k = rng.randint(1, len(names) - 1)
        ports, locs = names[:k], names[k:]
        if i == 0: ports, locs = ['w_a', 'x'], ['a']
        inames = [n for n in rng.sample(NAME_VOCAB, rng.randint(0, 3)) if not n.startswith('g') and n != 'last'] if i else ['x', 'i_x']
        def build(ports=ports, locs=locs, inames=inames):
            def body(t, I, O):
                prev = I[0]
                ws = []
                for j, n in enumerate(locs):
                    w = t.wire(n, 4); p.Not(t, 'g%d' % j, prev, w); prev = w; ws.append(w)
                p.Not(t, 'last', prev, O[0])
                t._c03_locals = ws
                # instantiated (not inlined) children under adversarial names, and sometimes a register (=> implicit clock port)
                t._c03_insts = []
                for j, n in enumerate(inames):
                    sink = t.wire('zz_s%d' % j, 4)
                    t._c03_insts.append(p.Add(t, n, I[0], prev, sink) if j % 2 == 0 else p.Reg(t, n, prev, sink))
            return D.make_top(p, [(n, 4) for n in ports[:-1]] or [('zz_in', 4)], [(ports[-1], 4)], body)
        try:
            with quiet():
                top = build()
        except Exception:
            continue
        pnames = [q.name for q in list(top.inPorts) + list(top.outPorts)]
        R.clearWireNamesCache()
        wn = R.getWireNames(top)
        R.clearWireNamesCache()
        real = [wn[q.wire] for q in list(top.inPorts) + list(top.outPorts)] + [wn[w] for w in top._c03_locals]
        kw = sorted({n for n in pnames + locs if R.isReservedVerilogKeyword(n)})
        sl = lambda l: '[' + '; '.join(vparse.cq_str(x) for x in l) + ']'
        # the whole name space of the module (C03_names_injective): implicit clock + ports + locals + instance names, read from the generator's own functions
        gen = R.VerilogGenerator(top)
        insts = [c for c in top._c03_insts if not gen.isInlinable(c)]
        clk = R.getClockPortName(top) if gen.anyClockableDescendant(top) else None
        real_full = ([clk] if clk is not None else []) + real + [R.getInstanceName(c) for c in insts]
        R.clearWireNamesCache()
        scopes.append((pnames, locs, kw, real, [c.name for c in insts], clk, real_full))
        items.append(('n%d' % (len(scopes) - 1), 'emitted_names %s %s %s' % (sl(kw), sl(pnames), sl(locs))))
        items.append(('f%d' % (len(scopes) - 1), 'emitted_names_full %s %s %s %s %s' % (sl(kw), 'None' if clk is None else '(Some %s)' % vparse.cq_str(clk), sl(pnames), sl(locs), sl([c.name for c in insts]))))
        ctx.count(('naming', tuple(pnames), tuple(locs)))
    out = common.coq_eval('C03_naming', 'From V Require Import Model.VSyntax Model.Naming.\nOpen Scope string_scope.\n', items)
    for j, (pnames, locs, kw, real, inames, clk, real_full) in enumerate(scopes):
        model = [x[1] if isinstance(x, tuple) else x for x in out['n%d' % j]]
        if model != real:
            ctx.violation({'what': 'Model/Naming.v disagrees with the real getWireNames/getPortName (correspondence broken)', 'ports': pnames, 'locals': locs,
                           'impl': real, 'model': model}, found_input=False)
            return
        modelf = [x[1] if isinstance(x, tuple) else x for x in out['f%d' % j]]
        if modelf != real_full:
            ctx.violation({'what': 'Model/Naming.v emitted_names_full disagrees with the real getClockPortName / getWireNames / getInstanceName (correspondence broken)',
                           'ports': pnames, 'locals': locs, 'instances': inames, 'clock': clk, 'impl': real_full, 'model': modelf}, found_input=False)
            return
    ctx.notes['naming_scopes_compared'] = len(scopes)
    if scopes: ctx.sample({'naming_scope': {'ports': scopes[0][0], 'locals': scopes[0][1], 'instances': scopes[0][4], 'clock': scopes[0][5], 'emitted': scopes[0][6]}})


# ------------------------------------------------------------------------------------------------ the stream
def stream(ctx):
    q = ctx.quick
    cases = D.library(q)
    if q:
        # quick tier: a deterministic 1-in-3 sample of the width grid (every class stays represented) + everything else
        by = collections.OrderedDict()
        for c in cases: by.setdefault(c.cls, []).append(c)
        cases = []
        for cls, l in by.items():
            cases += [c for i, c in enumerate(l) if i % 3 == 0 or len(l) <= 4]
    cases += D.random_netlists(ctx.seed, 12 if q else 400)
    cases += D.behavioural()
    cases += D.behavioural_names(q, ctx.seed)
    cases += D.adversarial(q)
    base = list(cases)
    cases += D.own_domain(base, q)
    cases += D.aliased_outputs(base, q)
    cases += D.regenerate(base, q)
    cases += D.generator_reuse(q)      # order matters inside this group: consecutive calls on one generator object
    return cases


MAX_REPORTED = 25


def violate(ctx, replay):
    """every failing program is a violation; only the first MAX_REPORTED get a replay file and a line (the rest are counted)"""
    n = ctx.notes.get('failing_programs', 0) + 1
    ctx.notes['failing_programs'] = n
    if n <= MAX_REPORTED:
        ctx.violation(replay)
    else:
        ctx.notes.setdefault('further_failing_cases', []).append(replay.get('case'))


def run(ctx):
    ctx.level = 'translation_validation'
    ctx.cov['rule'] = ('program = one hierarchy emitted by the real VerilogGenerator for a design built from real py4hw objects (library block x width '
                       'grid wrapped in a top Logic, random netlists, transpiled behavioural blocks, adversarial names, optional-port reuse, two clock '
                       'domains, one generator object asked for several texts in sequence); distinct by (class, parameters); non-trivial = the generator returned text (>= 1 module) that was decided by wf_design; plus the '
                       'naming scopes (port names, local wire names) compared between Model/Naming.v and the real getWireNames')
    p = common.quiet_import()
    r = ctx.prove(['Properties/C03.v'])
    if not r['ok']:
        ctx.log('proof build failed: %s' % (r.get('msg') or '')[:500])
    naming_tie(ctx, p, 40 if ctx.quick else 400)
    cases = stream(ctx)
    t0 = time.time()
    for c in cases:
        materialise(p, c)
    stages = collections.Counter(c.stage for c in cases)
    ctx.log('built %d cases in %.1fs: %s' % (len(cases), time.time() - t0, dict(stages)))
    ok = [c for c in cases if c.stage == 'ok']
    res = evaluate('C03_wf', [(i, c.ast, c.ext) for i, c in enumerate(ok)])
    programs = disagreements = 0
    by_clause = collections.Counter()
    per_finding = collections.Counter()
    for c in cases:
        if c.stage == 'parse':
            programs += 1; disagreements += 1
            ctx.count(c.key())
            fid = classify_parse(ctx, c)
            if fid:
                per_finding[fid] += 1
                ctx.known_finding(fid, '%s: %s returned text that does not parse (%s)' % (fid, c.id, c.error[:80]))
            else:
                violate(ctx, {'what': 'the generator returned text outside the Verilog subset / unparsable', 'case': c.id, 'class': c.cls,
                              'params': c.params, 'parse_error': c.error, 'text': c.text})
    for i, c in enumerate(ok):
        programs += 1
        ctx.count(c.key())
        good, rep = res[i]
        if c.required not in [m[1] for m in c.ast]:
            disagreements += 1
            violate(ctx, {'what': 'the returned text does not define the module of the requested block (%s); modules defined: %s' % (c.required, [m[1] for m in c.ast]),
                          'case': c.id, 'class': c.cls, 'params': c.params, 'requested_module': c.required, 'text': c.text})
            continue
        if good != (len(rep) == 0):
            ctx.violation({'what': 'harness: wf_design and wf_report disagree', 'case': c.id, 'wf_design': good, 'report': rep, 'text': c.text}, found_input=False)
            continue
        if good:
            if len(ctx.cov['samples']) < 3:
                ctx.sample({'case': c.id, 'modules': [m[1] for m in c.ast], 'wf_design': True, 'text_head': c.text[:300]})
            continue
        disagreements += 1
        sc = Scope(p, c.top)
        unknown = []
        for dg in rep:
            by_clause[dg[0]] += 1
            fid = classify(ctx, sc, dg, rep)
            if fid:
                per_finding[fid] += 1
                f = next(f for f in ctx.known if f['id'] == fid)
                ctx.known_finding(fid, '%s: %s  [first seen: %s, clause %s, module %s, identifier %s]' % (fid, f['text'][:140], c.id, dg[0], dg[1], dg[2]))
            else:
                unknown.append(dg)
        if unknown:
            violate(ctx, {'what': 'emitted Verilog is not well-formed: clause %s, module %s, identifier %s' % unknown[0], 'case': c.id, 'class': c.cls,
                          'params': c.params, 'failing_clauses': unknown, 'all_diagnostics': rep, 'black_boxes': c.ext, 'text': c.text})
        elif len(ctx.cov['samples']) < 6:
            ctx.sample({'case': c.id, 'wf_design': False, 'diagnostics': rep[:3], 'known_finding': classify(ctx, sc, rep[0], rep)})
    ctx.cov['programs'] = programs
    ctx.cov['disagreements_checked'] = disagreements
    ctx.notes['stages'] = dict(stages)
    ctx.notes['not_programs'] = {'constructor_rejected': [c.id for c in cases if c.stage == 'ctor'][:40],
                                 'generator_raised': collections.Counter(c.cls for c in cases if c.stage == 'gen')}
    ctx.notes['failing_clauses'] = dict(by_clause)
    ctx.notes['known_finding_hits'] = dict(per_finding)
    if not r['ok']:
        ctx.violation({'what': 'proof obligation no longer checks: %s in %s' % (r.get('lemma'), r.get('file')), 'coq_error': r.get('msg')}, found_input=False)
    ctx.assumptions += ['py/vparse.py maps the text to the Coq term faithfully (its print-back token stream must equal the text\'s, checked per text)',
                        'wf_report (diagnostics) is unproved; only wf_design decides, and their agreement is checked on every text',
                        'black-box list is empty for the design stream (no vendor IP instantiated)']


def replay(rp):
    """re-decide the stored text"""
    text = rp.get('text')
    if not text:
        print(json.dumps(rp, indent=1)[:3000]); return 0
    try:
        a = normalise(vparse.parse(text))
    except vparse.VParseError as ex:
        print('replay: text does not parse: %s' % ex); return 1
    good, rep = evaluate('C03_replay', [(0, a, rp.get('black_boxes') or [])])[0]
    print('replay: wf_design = %s' % good)
    for d in rep: print('   clause %s  module %s  identifier %s' % d)
    return 0 if good else 1
