"""C16 — AXI4-Stream adapters never lose, duplicate or corrupt a beat.
Proof: Properties/C16.v (refinement of the gate-level models of Axi2Reg / Reg2Axi, built from the REGENERATED And2/Or2/Not/Buf/
       Range/Constant/Reg_clock, to the reference machines and to the history reading; protocol clauses for every schedule).
Tie:   the REAL Axi2Reg / Reg2Axi objects under schedules, every cycle compared
       (a) with the gate-level model, the reference machine and the history reading evaluated inside Coq,
       (b) with the dumped netlist run by the kernel model (netlist.compare),
       (c) with the protocol monitors (c16_blocks.py) = impl-vs-spec oracle;
       plus an exhaustive closure: every reachable snapshot of the real block x every input over small data, one-step
       comparison with model and reference machine in Coq (covers every schedule of every length over those values).
Search: the same sweeps (monitor on the real block); the failing schedule is the replay."""
import itertools, random, json, sys, gc
import common, netlist
from common import quiet, zlit
from props import c16_blocks as B

NEEDED = ['Wire_put', 'Wire_prepare', 'And2_propagate', 'Or2_propagate', 'Not_propagate', 'Buf_propagate', 'Range_propagate',
          'Constant_propagate', 'Reg_clock', 'Axi2ClkFSM_clock', 'VitisKernelFSM_clock']
PRELUDE = 'From V Require Import Base.PyInt Spec.C16 Model.Axi.\n'
WIDTHS = [(1, 8), (5, 8), (8, 8), (13, 16), (32, 64), (64, 64), (7, 64), (3, 24)]

F_DUP = 'C16-F1'      # done in the middle of a transfer (outside the property's assumption): beat offered again after acceptance
F_A2C = 'C16-F2'      # Axi2ClkFSM: handshake in the first idle cycle after a run starts from a stale clk_count


def tup(t):
    return '(' + ', '.join(zlit(x) for x in t) + ')'

def zl(xs):
    return '[' + '; '.join(zlit(x) for x in xs) + ']'

def sched_term(sched, mk):
    return '(map %s [%s])' % (mk, '; '.join(tup(i) for i in sched))

def trace_term(tr):
    return '[' + '; '.join(zl(o) for o in tr) + ']'


class Stop(Exception):
    pass


def build_block(ctx, cls, *args):
    """legal configurations only (1 <= W <= DW, DW multiple of 8): the constructor must succeed"""
    try:
        return cls(*args)
    except Exception as ex:
        ctx.violation({'what': 'constructing %s%s (a legal configuration) raised %s: %s' % (cls.name, args, type(ex).__name__, ex),
                       'block': cls.name, 'config(W, DW)': list(args)})
        raise Stop()


def known(ctx, fid):
    for f in ctx.known:
        if f['id'] == fid and f.get('status') == 'known': return f
    return None


# ------------------------------------------------------------------ running a schedule on the real block + monitor
def run_monitored(blk, sched, mon, ctx, tag):
    """returns (trace of outputs, violation dict | None).  The monitor sees only inputs and outputs."""
    tr, prev = [], blk.obs()
    viol = None
    for k, i in enumerate(sched):
        cb = blk.dut._wires['clk_count'].get() if isinstance(blk, B.A2C) else None
        new = blk.step(i)
        if isinstance(blk, B.R2A):
            msg, outside = mon.check(prev, i, new)
            if outside and viol is None:
                f = known(ctx, F_DUP)
                if f: ctx.known_finding(F_DUP, f['text'])
                else: msg = outside + ' [after done in the middle of a transfer]'
        elif isinstance(blk, B.A2C):
            msg = mon.check(prev, i, new, cb)
            if msg and mon.stale:
                f = known(ctx, F_A2C)
                if f: ctx.known_finding(F_A2C, f['text']); msg = None; mon.phase = 'lost'
        else:
            msg = mon.check(prev, i, new)
        if isinstance(blk, B.A2C) and mon.phase == 'lost':
            tr.append(new); prev = new; continue
        if msg and viol is None:
            viol = {'what': '%s violates C16: %s' % (blk.name, msg), 'block': blk.name, 'W': getattr(blk, 'W', None), 'DW': blk.DW,
                    'interface_options': getattr(blk, 'opts', {}), 'placement(top | nested | staged = simulated before the adapter was added | staged_nested)': getattr(blk, 'place', 'top'),
                    'inputs': ctx_inputs(blk), 'schedule': [list(x) for x in sched[:k + 1]], 'cycle': k,
                    'outputs_before': prev, 'outputs_after': new, 'source': tag}
        tr.append(new); prev = new
    return tr, viol


def ctx_inputs(blk):
    return {'Axi2Reg': '(ap_start, ap_reset, ap_done, tvalid, tdata)', 'Axi2Clk': '(ap_start, ap_reset, ap_done, tvalid, tdata)',
            'Reg2Axi': '(ap_start, ap_reset, ap_done, load_outs, tready, reg_in)',
            'VitisKernelFSM': '(ap_start, ap_reset, load_outs, all_sent)'}[blk.name]


# ------------------------------------------------------------------ random / patterned schedules: tie (a) (b) (c)
def random_sweep(ctx, n_sched, n_cycles, with_coq, n_coq=10 ** 9):
    rng = random.Random(ctx.seed * 7919 + 16)
    a_cases, b_cases, dumps, opts_of = [], [], [], {}
    a_kinds = ['random', 'session', 'back2back', 'midreset']
    b_kinds = ['random', 'session', 'backpressure', 'loadpending', 'midtransfer']
    for k in range(n_sched):
        W, DW = WIDTHS[k % len(WIDTHS)]
        for cls, kinds in ((B.A2R, a_kinds), (B.R2A, b_kinds)):
            kind = kinds[(k // len(WIDTHS) + k) % len(kinds)]
            # the first round of widths uses the plain interface, later rounds draw its optional signals (TID/TDEST/TUSER/TSTRB/...)
            opts = B.draw_opts(rng, W, cls is B.A2R) if k >= len(WIDTHS) else {}
            will_dump = with_coq and k < (4 if ctx.quick else 2 * len(WIDTHS))
            if not will_dump:       # construction histories: nested containers, and containers that were simulated before the adapter was added to them
                opts = dict(opts); opts['_place'] = B.PLACES[(k + (cls is B.R2A)) % len(B.PLACES)]
            blk = build_block(ctx, cls, W, DW, opts)
            ctx.count(('place', blk.name, blk.place))
            blk.noise = random.Random(rng.getrandbits(32))
            n = rng.randint(n_cycles // 2, n_cycles)
            sched = B.a2r_schedule(rng, DW, n, kind) if cls is B.A2R else B.r2a_schedule(rng, W, n, kind)
            mon = B.A2RMonitor(W) if cls is B.A2R else B.R2AMonitor(W, DW)
            dp = blk.dump() if with_coq and k < (4 if ctx.quick else 2 * len(WIDTHS)) else None
            iv = dp.values() if dp else None
            full = []
            if dp: blk.noise = None        # the recorded stimulus of the netlist comparison contains the adapter's inputs only
            if dp:      # run through the dump so that the complete wire vector of every cycle is recorded for tie (b)
                orig_step = blk.step
                def step(i, blk=blk, dp=dp, full=full, orig=orig_step):
                    o = orig(i); full.append(dp.values()); return o
                blk.step = step
            tr, viol = run_monitored(blk, sched, mon, ctx, 'random_sweep kind=%s index=%d' % (kind, k))
            ctx.count(hash((blk.name, W, DW, kind, tuple(sched))), n=len(sched))
            if viol:
                ctx.violation(viol); raise Stop()
            if k < 2: ctx.sample({'block': blk.name, 'W': W, 'DW': DW, 'kind': kind, 'first_cycles': [list(x) for x in sched[:4]], 'outputs': tr[:4]})
            if k < n_coq:
                lst = a_cases if cls is B.A2R else b_cases
                opts_of[('a' if cls is B.A2R else 'b', len(lst))] = blk.opts
                lst.append((W, DW, sched, tr))
            if dp:
                ids = [dp.wid[id(w)] for w in blk.inw]
                steps = [([(wid, v) for wid, v in zip(ids, i)], 1) for i in sched]
                dumps.append((dp, steps, iv, full, blk.name, W, DW, sched))
    ctx.log('random sweep: real blocks driven')
    if not with_coq: return True
    # (a) model / reference machine / history reading in Coq against the recorded traces
    items = []
    for j, (W, DW, sched, tr) in enumerate(a_cases):
        ins, t = sched_term(sched, 'mkA'), trace_term(tr)
        items.append(('a%d' % j, '(trace_diff 0 %s (a2r_trace %d %s), trace_diff 0 %s (a2r_ref_trace_from %d a2r_ref0 %s), trace_diff 0 %s (a2r_hist_trace %d [] %s))'
                      % (t, W, ins, t, W, ins, t, W, ins)))
    for j, (W, DW, sched, tr) in enumerate(b_cases):
        ins, t = sched_term(sched, 'mkB'), trace_term(tr)
        items.append(('b%d' % j, '(trace_diff 0 %s (r2a_trace %d %d %d %s), trace_diff 0 %s (r2a_ref_trace_from %d %d r2a_ref0 %s), @None nat)'
                      % (t, W, DW, DW // 8, ins, t, W, DW, ins)))
    res = {}
    for c in range(0, len(items), 80):
        res.update(common.coq_eval('C16_traces_%d' % (c // 80), PRELUDE, items[c:c + 80]))
    for name, cases in (('a', a_cases), ('b', b_cases)):
        for j, (W, DW, sched, tr) in enumerate(cases):
            dm, dr, dh = res['%s%d' % (name, j)]
            blkname = 'Axi2Reg' if name == 'a' else 'Reg2Axi'
            for d, what, spec in ((dr, 'reference machine (Spec/C16.v)', True), (dh, 'history reading (Spec/C16.v)', True), (dm, 'gate-level model (Model/Axi.v)', False)):
                if d is not None:
                    cyc, impl_o, other_o = d[1]
                    rp = {'what': '%s: real block and %s disagree' % (blkname, what), 'block': blkname, 'W': W, 'DW': DW, 'interface_options': opts_of.get((name, j), {}),
                          'schedule': [list(x) for x in sched[:cyc + 1]], 'cycle': cyc, 'impl_outputs': impl_o, 'expected_outputs': other_o,
                          'inputs': '(ap_start, ap_reset, ap_done, tvalid, tdata)' if name == 'a' else '(ap_start, ap_reset, ap_done, load_outs, tready, reg_in)'}
                    # a disagreement with the spec is a failing input; with the model only, the tie is broken (the monitors found nothing)
                    ctx.violation(rp, found_input=spec); raise Stop()
    ctx.log('random sweep: traces compared with model / reference / history in Coq')
    # (b) dumped netlist under the kernel model
    for c in range(0, len(dumps), 8):
        part = dumps[c:c + 8]
        diffs = netlist.compare('C16_kernel_%d' % (c // 8), [(dp, steps, iv, full) for dp, steps, iv, full, *_ in part])
        for (dp, steps, iv, full, bn, W, DW, sched), df in zip(part, diffs):
            if df is not None:
                ctx.violation({'what': '%s: kernel model of the dumped netlist and the real simulator disagree (correspondence broken)' % bn,
                               'W': W, 'DW': DW, 'diff(step,(wire,impl,model))': df, 'schedule': [list(x) for x in sched]}, found_input=False)
                raise Stop()
    ctx.log('random sweep compared in Coq')
    ctx.notes['random_schedules'] = {'per_block_under_monitor': n_sched, 'Axi2Reg_in_Coq': len(a_cases), 'Reg2Axi_in_Coq': len(b_cases), 'netlists_under_kernel_model': len(dumps)}
    return True


# ------------------------------------------------------------------ exhaustive closure over small data
def closure(ctx, cls, W, DW, data, depth):
    """breadth-first over (snapshot of the real block, monitor state): from every reached pair apply EVERY input once
    (the real block is restored to the snapshot, stepped, observed).  Each schedule of length <= depth over `data` is a path
    of this graph; when the frontier empties before `depth` the graph is closed and every longer schedule is covered too.
    Each transition is checked by the monitor (c) and collected for the one-step comparison in Coq (a)."""
    blk = build_block(ctx, cls, W, DW)
    nctl = 4 if cls is B.A2R else 5
    inputs = [bits + (d,) for bits in itertools.product((0, 1), repeat=nctl) for d in data]
    def mk_mon(state=None):
        m = B.A2RMonitor(W, history=False) if cls is B.A2R else B.R2AMonitor(W, DW, counts=False)
        if state is not None and cls is B.R2A: m.env_ok, m.latest = state
        return m
    s0 = blk.snapshot()
    m0 = mk_mon().state() if cls is B.R2A else None
    seen = {(s0, m0): []}                       # -> schedule that reaches it
    frontier = [(s0, m0)]
    trans = {}
    level = 0
    while frontier and level < depth:
        nxt = []
        for (snap, ms) in frontier:
            path = seen[(snap, ms)]
            for i in inputs:
                blk.restore(snap)
                prev = blk.obs(); msnap = blk.model_snapshot()
                new = blk.step(i)
                after = blk.model_snapshot()
                mon = mk_mon(ms)
                if cls is B.A2R:
                    msg, outside = mon.check(prev, i, new), None       # (the history reading is checked on whole paths: random_sweep, explicit_paths)
                else:
                    msg, outside = mon.check(prev, i, new)
                ctx.count(hash((blk.name, W, DW, snap, i)))
                if outside:
                    f = known(ctx, F_DUP)
                    if f: ctx.known_finding(F_DUP, f['text'])
                    else: msg = outside + ' [after done in the middle of a transfer]'
                if msg:
                    ctx.violation({'what': '%s violates C16: %s' % (blk.name, msg), 'block': blk.name, 'W': W, 'DW': DW, 'inputs': ctx_inputs(blk),
                                   'schedule': [list(x) for x in path + [i]], 'cycle': len(path), 'outputs_before': prev, 'outputs_after': new,
                                   'source': 'exhaustive closure'})
                    raise Stop()
                trans[(msnap, i)] = list(after) + list(new)
                key = (blk.snapshot(), mon.state() if cls is B.R2A else None)
                if key not in seen:
                    seen[key] = path + [i]; nxt.append(key)
        frontier = nxt; level += 1
    info = {'block': blk.name, 'W': W, 'DW': DW, 'data': list(data), 'snapshots': len(seen), 'transitions': len(trans),
            'closed_at_depth': level if not frontier else None, 'depth_bound': depth}
    ctx.notes.setdefault('closure', []).append(info)
    ctx.log('closure %s' % info)
    info['_data'] = (blk, cls, inputs, trans, seen)
    return info


def closure_coq(ctx, infos):
    """one Coq evaluation for all closures: Coq tabulates, for every reached state and every input, the state and outputs after
    one edge of the gate-level model and the outputs of the reference machine; compared here with what the real block did."""
    items, metas = [], []
    for n, info in enumerate(infos):
        blk, cls, inputs, trans, seen = info.pop('_data')
        snaps = sorted({s for (s, i) in trans})
        sl = '[' + '; '.join(tup(x) for x in snaps) + ']'
        il = '[' + '; '.join(tup(x) for x in inputs) + ']'
        if cls is B.A2R: items.append(('t%d' % n, 'a2r_table %d %s %s' % (blk.W, sl, il)))
        else: items.append(('t%d' % n, 'r2a_table %d %d %d %s %s' % (blk.W, blk.DW, blk.DW // 8, sl, il)))
        metas.append((blk, cls, inputs, trans, seen, snaps))
    if not items: return
    res = common.coq_eval('C16_tables', PRELUDE, items)
    for n, (blk, cls, inputs, trans, seen, snaps) in enumerate(metas):
        table = res['t%d' % n]
        ns, no = (6, 4) if cls is B.A2R else (8, 6)
        for a, sn in enumerate(snaps):
            for b, i in enumerate(inputs):
                if (sn, i) not in trans: continue
                e = trans[(sn, i)]
                row = table[a][b]
                bad = ('reference machine (Spec/C16.v)', True) if row[ns + no:] != e[ns:] else \
                      ('gate-level model (Model/Axi.v)', False) if row[:ns + no] != e else None
                if bad:
                    path = next((p for (full, _), p in seen.items() if snapshot_matches(blk, full, sn)), None)
                    ctx.violation({'what': '%s: one clock edge of the real block differs from the %s' % (blk.name, bad[0]), 'block': blk.name, 'W': blk.W, 'DW': blk.DW,
                                   'schedule': [list(x) for x in (path or []) + [i]], 'cycle': len(path or []),
                                   'state_before(Reg.value..., wires...)': list(sn), 'input': list(i), 'impl_after(state ++ outputs)': e,
                                   'model_after(state ++ outputs)': row[:ns + no], 'reference_outputs': row[ns + no:], 'inputs': ctx_inputs(blk)},
                                  found_input=bad[1])
                    raise Stop()
    ctx.log('closure tables compared with Coq (%d tables)' % len(items))


def snapshot_matches(blk, full_snapshot, model_snapshot):
    blk.restore(full_snapshot)
    return tuple(blk.model_snapshot()) == tuple(model_snapshot)


def explicit_paths(ctx, cls, W, DW, data, depth):
    """every schedule of length <= depth over `data`, explicitly (depth-first, restoring the real block's snapshot), each
    whole path under the monitor including its history reading.  No memoisation."""
    blk = build_block(ctx, cls, W, DW)
    nctl = 4 if cls is B.A2R else 5
    inputs = [bits + (d,) for bits in itertools.product((0, 1), repeat=nctl) for d in data]
    count = [0]
    def rec(snap, mon_state, path, d):
        for i in inputs:
            blk.restore(snap)
            prev = blk.obs()
            new = blk.step(i)
            if cls is B.A2R:
                mon = B.A2RMonitor(W); mon.hist = list(mon_state)
                msg, outside = mon.check(prev, i, new), None
                ms = mon.hist
            else:
                mon = B.R2AMonitor(W, DW); mon.env_ok, mon.latest, mon.acc, mon.lds = mon_state
                msg, outside = mon.check(prev, i, new)
                ms = (mon.env_ok, mon.latest, mon.acc, mon.lds)
            count[0] += 1
            if outside:
                f = known(ctx, F_DUP)
                if f: ctx.known_finding(F_DUP, f['text'])
                else: msg = outside + ' [after done in the middle of a transfer]'
            if msg:
                ctx.violation({'what': '%s violates C16: %s' % (blk.name, msg), 'block': blk.name, 'W': W, 'DW': DW, 'inputs': ctx_inputs(blk),
                               'schedule': [list(x) for x in path + [i]], 'cycle': len(path), 'outputs_before': prev, 'outputs_after': new,
                               'source': 'all schedules of length <= %d' % depth})
                raise Stop()
            if d > 1:
                rec(blk.snapshot(), ms, path + [i], d - 1)
    rec(blk.snapshot(), [] if cls is B.A2R else (True, 0, 0, 0), [], depth)
    ctx.count((blk.name, 'explicit', W, DW, depth), n=count[0])
    ctx.log('explicit paths %s depth %d: %d edges' % (blk.name, depth, count[0]))
    ctx.notes.setdefault('explicit_paths', []).append({'block': blk.name, 'W': W, 'data': list(data), 'max_length': depth,
                                                       'schedules': len(inputs) ** depth, 'clock_edges': count[0]})


# ------------------------------------------------------------------ compositions of the two adapters
LINK_INPUTS = '(ap_start_p, ap_start_c, ap_reset, ap_done, load_outs, x, dut_en, cycles_of_this_clk_call); x = reg_in, or the data input of the gated register that drives reg_in'
LINK_OUTPUTS = '[tvalid, tdata, tlast, tkeep, sent, p_active, q, loaded, c_active, tready, reg_in]'

def run_link(blk, sched):
    """drive a Link; the oracle is the composition of the property's two reference machines stepped once per elapsed cycle
    (and, on single-step schedules, the two protocol monitors on each adapter's side of the stream).
    returns (observations, expanded per-cycle inputs for Coq, observation indices, violation | None)"""
    ref = B.LinkRef(blk.W, blk.Q, blk.DW, blk.source != 'poke')
    single = all(i[7] == 1 for i in sched)
    ma, mb = (B.A2RMonitor(blk.Q), B.R2AMonitor(blk.W, blk.DW)) if single else (None, None)
    tr, idx, viol, prev = [], [], None, blk.obs()
    cyc = 0
    for k, i in enumerate(sched):
        new = blk.step(i[:7], i[7])
        for _ in range(i[7]): ref.cycle(i[:7])
        cyc += i[7]; idx.append(cyc - 1)
        exp = ref.obs()
        msg = None
        if new != exp:
            names = LINK_OUTPUTS.strip('[]').split(', ')
            bad = [n for n, a, b in zip(names, new, exp) if a != b]
            msg = 'after clk(%d): %s differ from the composition of the reference machines: block %s, expected %s' % (i[7], bad, new, exp)
            if new[4] == 1 and exp[7] == 1 and new[7] == 0: msg = 'BEAT LOST: producer reports sent, consumer has nothing loaded; ' + msg
            if new[1] != exp[1]: msg = 'BEAT CORRUPTED: tdata offered %d, reg_in at the load pulse was %d; ' % (new[1], exp[1]) + msg
        elif single:
            sp, sc, rs, dn, lo, x, en = i[:7]
            m1 = ma.check([prev[6], prev[7], prev[8], prev[9]], (sc, rs, dn, prev[0], prev[1]), [new[6], new[7], new[8], new[9]])
            shown = prev[10] if blk.source != 'poke' else x & ((1 << blk.W) - 1)      # what reg_in carries during this cycle
            m2, _outside = mb.check(prev[:6], (sp, rs, dn, lo, prev[9], shown), new[:6])
            msg = ('consumer side: ' + m1) if m1 else ('producer side: ' + m2) if m2 else None
        if msg and viol is None:
            viol = {'what': '%s (order %s, reg_in %s) violates C16: %s' % (blk.name, blk.order, blk.source, msg), 'block': 'Link', 'W': blk.W, 'Q': blk.Q, 'DW': blk.DW,
                    'order': blk.order, 'source': blk.source, 'gated_driver_name': blk.clkname, 'twin_gated_driver': blk.twin, 'inputs': LINK_INPUTS, 'outputs': LINK_OUTPUTS,
                    'schedule': [list(x) for x in sched[:k + 1]], 'call': k, 'outputs_before': prev, 'outputs_after': new, 'expected': exp}
        tr.append(new); prev = new
    per_cycle = []
    for i in sched: per_cycle += [i] * i[7]
    coq_ins = [(i[0], i[1], i[2], i[3], i[4], r) for i, r in zip(per_cycle, ref.trace_regin)]
    return tr, coq_ins, idx, viol


def link_sweep(ctx, n_sched, n_calls, with_coq, n_coq):
    rng = random.Random(ctx.seed * 104729 + 61)
    cases, dumps = [], []
    kinds = ['late_consumer', 'random', 'streaming']
    k = 0
    for rep in range(n_sched):
        for order in ('pc', 'cp'):
            for source in ('poke', 'gated_first', 'gated_last'):
                W, DW = WIDTHS[k % len(WIDTHS)]
                Q = rng.choice([W, max(1, W - 2), min(DW, W + 3), DW])
                multi = (k // 2) % 2 == 1
                kind = kinds[k % len(kinds)]
                # gated driver names from a colliding pool: its own name, or the system clock's name; optionally a second gated driver of the same name
                clkname, twin = (rng.choice(['clk_dut', 'clk', 'clk']), rng.random() < 0.5) if source != 'poke' else ('clk_dut', False)
                blk = build_block(ctx, B.Link, W, Q, DW, order, source, clkname, twin)
                dp = blk.dump() if with_coq and len(dumps) < (3 if ctx.quick else 12) and k % 5 == 0 else None
                iv = dp.values() if dp else None
                full = []
                if dp:
                    orig = blk.step
                    def step(i, n=1, orig=orig, dp=dp, full=full):
                        o = orig(i, n); full.append(dp.values()); return o
                    blk.step = step
                sched = B.link_schedule(rng, W, rng.randint(n_calls // 2, n_calls), kind, multi)
                tr, coq_ins, idx, viol = run_link(blk, sched)
                ctx.count(hash(('Link', W, Q, DW, order, source, kind, multi, tuple(sched))), n=sum(i[7] for i in sched))
                if viol:
                    ctx.violation(viol); raise Stop()
                if k < 2: ctx.sample({'block': 'Link', 'order': order, 'source': source, 'first_calls': [list(x) for x in sched[:4]], 'outputs': tr[:4]})
                if len(cases) < n_coq: cases.append((W, Q, DW, order, source, sched, tr, coq_ins, idx))
                if dp:
                    ids = [dp.wid[id(w)] for w in blk.inw + [blk.aux_en]]      # the bench also drives aux_en = not dut_en
                    dumps.append((dp, [([(wid, v) for wid, v in zip(ids, i[:7] + (1 - i[6],))], i[7]) for i in sched], iv, full, order, source, sched))
                k += 1
    ctx.notes['link_schedules'] = {'run': k, 'in_Coq': len(cases) if with_coq else 0, 'netlists_under_kernel_model': len(dumps)}
    if not with_coq: return
    items = []
    for j, (W, Q, DW, order, source, sched, tr, coq_ins, idx) in enumerate(cases):
        items.append(('l%d' % j, 'trace_diff 0 %s (pick (link_trace %d %d %d %d [%s]) [] [%s])' % (
            trace_term([o[:10] for o in tr]), W, Q, DW, DW // 8, '; '.join(tup(i) for i in coq_ins), '; '.join('%d%%nat' % a for a in idx))))
    res = common.coq_eval('C16_link', PRELUDE, items) if items else {}
    for j, (W, Q, DW, order, source, sched, tr, coq_ins, idx) in enumerate(cases):
        d = res['l%d' % j]
        if d is not None:
            call, impl_o, model_o = d[1]
            ctx.violation({'what': 'Reg2Axi->Axi2Reg (order %s, reg_in %s): real composition and the composed gate-level models (Model/Axi.v link_step) disagree' % (order, source),
                           'block': 'Link', 'W': W, 'Q': Q, 'DW': DW, 'order': order, 'source': source, 'inputs': LINK_INPUTS, 'outputs': LINK_OUTPUTS,
                           'schedule': [list(x) for x in sched[:call + 1]], 'call': call, 'impl_outputs': impl_o, 'model_outputs': model_o}, found_input=False)
            raise Stop()
    if dumps:
        diffs = netlist.compare('C16_kernel_link', [(dp, steps, iv, full) for dp, steps, iv, full, *_ in dumps])
        for (dp, steps, iv, full, order, source, sched), df in zip(dumps, diffs):
            if df is not None:
                ctx.violation({'what': 'Reg2Axi->Axi2Reg (order %s, reg_in %s): kernel model of the dumped netlist and the real simulator disagree (correspondence broken)' % (order, source),
                               'diff(step,(wire,impl,model))': df, 'schedule': [list(x) for x in sched]}, found_input=False)
                raise Stop()
    ctx.log('link sweep compared in Coq')


# ------------------------------------------------------------------ control FSMs (extension)
def fsm_sweep(ctx, n_sched, with_coq):
    rng = random.Random(ctx.seed * 31 + 5)
    dumps = []
    # Axi2Clk: handshakes with small targets, sometimes back to back
    for k in range(n_sched):
        blk = build_block(ctx, B.A2C, 64)
        dp = blk.dump() if with_coq and k < 2 else None
        iv = dp.values() if dp else None
        sched = [(1, 0, 0, 0, 1)]
        b2b = k % 3 == 2
        while len(sched) < 60:
            n = rng.randint(1, 4)
            sched.append((0, 0, 0, 1, n))
            gap = 2 * n + 1 + (0 if b2b else rng.randint(1, 4))
            sched += [(0, 0, 0, 0, rng.randint(1, 9))] * gap
        full = []
        if dp:
            orig = blk.step
            def step(i, orig=orig, dp=dp, full=full):
                o = orig(i); full.append(dp.values()); return o
            blk.step = step
        tr, viol = run_monitored(blk, sched, B.A2CMonitor(), ctx, 'fsm_sweep axi2clk index=%d' % k)
        ctx.count(('Axi2Clk', b2b, hash(tuple(sched))), n=len(sched))
        if viol:
            ctx.violation(viol); raise Stop()
        if dp:
            ids = [dp.wid[id(w)] for w in blk.inw]
            dumps.append((dp, [([(wid, v) for wid, v in zip(ids, i)], 1) for i in sched], iv, full, 'Axi2Clk', sched))
    # VitisKernelFSM: ap_done wire high after a cycle iff the FSM was in state 2 and saw all_sent; high exactly one cycle
    for k in range(n_sched):
        blk = build_block(ctx, B.VKF)
        dp = blk.dump() if with_coq and k < 2 else None
        iv = dp.values() if dp else None
        sched = [tuple(B._bits(rng, p) for p in (0.4, 0.0, 0.4, 0.4)) for _ in range(50)]
        full, prev_done = [], 0
        for t, i in enumerate(sched):
            st_before = blk.fsm.state
            o = blk.step(i)
            if dp: full.append(dp.values())
            exp = 1 if (st_before == 2 and i[3]) else 0
            if o[0] != exp or (o[0] == 1) != (blk.fsm.state == 3):
                ctx.violation({'what': 'VitisKernelFSM: ap_done=%d after a cycle started in state %d with all_sent=%d (expected %d)' % (o[0], st_before, i[3], exp),
                               'block': 'VitisKernelFSM', 'inputs': ctx_inputs(blk), 'schedule': [list(x) for x in sched[:t + 1]], 'cycle': t})
                raise Stop()
        ctx.count(('VitisKernelFSM', hash(tuple(sched))), n=len(sched))
        if dp:
            ids = [dp.wid[id(w)] for w in blk.inw]
            dumps.append((dp, [([(wid, v) for wid, v in zip(ids, i)], 1) for i in sched], iv, full, 'VitisKernelFSM', sched))
    if dumps:
        diffs = netlist.compare('C16_kernel_fsm', [(dp, steps, iv, full) for dp, steps, iv, full, *_ in dumps])
        for (dp, steps, iv, full, bn, sched), df in zip(dumps, diffs):
            if df is not None:
                ctx.violation({'what': '%s: generated clock() under the kernel model and the real simulator disagree (correspondence broken)' % bn,
                               'diff(step,(wire,impl,model))': df, 'schedule': [list(x) for x in sched]}, found_input=False)
                raise Stop()


def interface_oracle(ctx):
    """AXI4StreamInterface (axi.py): for every combination of the optional signals, each AXI4-Stream signal is its own wire of the
    declared width, reachable under its own attribute, listed once in the right direction list, and named <interface>_<signal>."""
    py4hw, AXIS, vw = B._imports()
    grid = []
    for dw in (8, 32, 64):
        for flags in itertools.product((False, True), repeat=3):
            for iw, rw, uw in ((None, None, None), (3, None, None), (None, 4, None), (None, None, 5), (2, 3, 1), (16, 1, 8), (8, 8, 8)):
                grid.append((dw, flags, iw, rw, uw))
    for dw, (tl, tk, ts), iw, rw, uw in grid:
        cfg = {'dw': dw, 'has_tlast': tl, 'has_tkeep': tk, 'has_tstrb': ts, 'iw': iw, 'rw': rw, 'uw': uw}
        try:
            with quiet():
                hw = py4hw.HWSystem()
                s = AXIS(hw, 'axis', **cfg)
        except Exception as ex:
            ctx.violation({'what': 'AXI4StreamInterface(%s) raised %s: %s' % (cfg, type(ex).__name__, ex), 'block': 'AXI4StreamInterface', 'config': cfg}); raise Stop()
        exp = [('tvalid', 1), ('tdata', dw)] + ([('tlast', 1)] if tl else []) + ([('tkeep', dw // 8)] if tk else []) + ([('tstrb', dw // 8)] if ts else []) \
              + ([('tuser', uw)] if uw is not None else []) + ([('tid', iw)] if iw is not None else []) + ([('tdest', rw)] if rw is not None else [])
        got = [(n, w.getWidth()) for n, w in s.sourceToSink]
        back = [(n, w.getWidth()) for n, w in s.sinkToSource]
        msg = None
        if sorted(got) != sorted(exp): msg = 'source->sink signals %s, expected %s' % (got, exp)
        elif back != [('tready', 1)]: msg = 'sink->source signals %s, expected [tready:1]' % back
        else:
            seen = {}
            for n, w in list(s.sourceToSink) + list(s.sinkToSource):
                a = getattr(s, n, None)
                if a is not w: msg = 'attribute %s is not the wire registered as %s (it is %s, %s bits)' % (n, n, getattr(a, 'name', a), a.getWidth() if a is not None else '-'); break
                if w.name != 'axis_' + n: msg = 'wire of %s is named %s' % (n, w.name); break
                if id(w) in seen: msg = '%s and %s share one wire' % (n, seen[id(w)]); break
                seen[id(w)] = n
            for n in ('tlast', 'tkeep', 'tstrb', 'tuser', 'tid', 'tdest'):
                if msg is None and hasattr(s, n) and n not in dict(exp): msg = 'optional signal %s exists although not requested' % n
        ctx.count(hash(('AXI4StreamInterface', tuple(sorted(cfg.items(), key=str)))))
        if msg:
            ctx.violation({'what': 'AXI4StreamInterface: %s' % msg, 'block': 'AXI4StreamInterface', 'config': cfg}); raise Stop()


def port_directions(ctx):
    """AXI4StreamInterface + addInterfaceSink / addInterfaceSource: the sink reads tvalid/tdata(/tlast/tkeep) and drives tready,
    the source drives tvalid/tdata/tlast/tkeep and reads tready."""
    full = {'has_tlast': True, 'has_tkeep': True, 'has_tstrb': True, 'iw': 3, 'rw': 2, 'uw': 5}
    for cls, ins0, outs0, opts in ((B.A2R, {'ap_start', 'ap_reset', 'ap_done', 'tvalid', 'tdata'}, {'tready', 'q', 'loaded', 'active'}, {}),
                                   (B.R2A, {'ap_start', 'ap_reset', 'ap_done', 'load_outs', 'reg_in', 'tready'}, {'tvalid', 'tdata', 'tlast', 'tkeep', 'sent', 'active'}, {}),
                                   (B.A2R, {'ap_start', 'ap_reset', 'ap_done', 'tvalid', 'tdata'}, {'tready', 'q', 'loaded', 'active'}, full),
                                   (B.R2A, {'ap_start', 'ap_reset', 'ap_done', 'load_outs', 'reg_in', 'tready'}, {'tvalid', 'tdata', 'tlast', 'tkeep', 'sent', 'active'}, full)):
        blk = build_block(ctx, cls, 8, 8, opts)
        side = {n for n, w in blk.stream.sourceToSink} - {'tvalid', 'tdata'}
        ins = ins0 | (side if cls is B.A2R else set()); outs = outs0 | (side if cls is B.R2A else set())
        gi, go = {p.name for p in blk.dut.inPorts}, {p.name for p in blk.dut.outPorts}
        ctx.count((cls.name, 'ports', bool(opts)))
        if gi != ins or go != outs:
            ctx.violation({'what': '%s: stream port directions differ from the AXI4-Stream roles' % cls.name, 'block': cls.name, 'interface_options': opts,
                           'in_ports': sorted(gi), 'out_ports': sorted(go), 'expected_in': sorted(ins), 'expected_out': sorted(outs)})
            raise Stop()
        # each stream wire must be the very wire object of the interface (no copies)
        for p in blk.dut.inPorts + blk.dut.outPorts:
            if p.name in (('tvalid', 'tready', 'tdata') if cls is B.A2R else ('tvalid', 'tready', 'tdata', 'tlast', 'tkeep')):
                w = {'tvalid': 0, 'tdata': 1, 'tlast': 2, 'tkeep': 3}
                exp = blk.inw[3 if p.name == 'tvalid' else 4] if (cls is B.A2R and p.name != 'tready') else \
                      blk.outw[3] if cls is B.A2R else blk.inw[4] if p.name == 'tready' else blk.outw[w[p.name]]
                if p.wire is not exp:
                    ctx.violation({'what': '%s: port %s is not connected to the interface wire' % (cls.name, p.name), 'block': cls.name})
                    raise Stop()


# ------------------------------------------------------------------ entry points
def run(ctx):
    ctx.cov['rule'] = ('obligations: theorems of Properties/C16.v over the gate-level models built from the regenerated primitives; '
                       'evaluations: clock edges of the REAL Axi2Reg/Reg2Axi/Axi2Clk/VitisKernelFSM objects, each checked by the protocol monitor; '
                       'distinct: (block, widths, schedule) for patterned/random schedules and (block, full snapshot, input) for the exhaustive closure; '
                       'all non-trivial (each drives at least one control or handshake wire)')
    missing = ctx.regen(NEEDED)
    r = ctx.prove(['Properties/C16.v'])
    model_ok = not missing
    if model_ok:        # the model must at least compile for the Coq-side comparisons
        b = common.build(['Model/Axi.vo'])
        model_ok = b['ok']
        if not model_ok: ctx.notes['model_build'] = b['msg']
    tie_ok = r['ok'] and model_ok
    q = ctx.quick
    gc.disable()        # hundreds of thousands of small tuples are alive during the sweeps; collections only cost time
    ctx.log('proofs built: %s' % r['ok'])
    try:
        interface_oracle(ctx)
        port_directions(ctx)
        random_sweep(ctx, 32 if q else 320, 36 if q else 60, with_coq=model_ok, n_coq=32 if q else 128)
        infos = []
        for cls in (B.A2R, B.R2A):
            infos.append(closure(ctx, cls, 1, 8, (0, 1), 64))                      # 1-bit data: closes, i.e. all schedules of every length
            if True:
                infos.append(closure(ctx, cls, 2, 8, (0, 1, 2, 3, 5) if cls is B.A2R else (0, 1, 2, 3), 64))
            explicit_paths(ctx, cls, 1, 8, (0, 1), 3 if q else (5 if cls is B.A2R else 4))
        if not q:
            infos.append(closure(ctx, B.A2R, 3, 8, tuple(range(8)) + (8, 255), 64))
        if model_ok: closure_coq(ctx, infos)
        link_sweep(ctx, 8 if q else 60, 24 if q else 40, with_coq=model_ok, n_coq=18 if q else 60)
        fsm_sweep(ctx, 6 if q else 60, with_coq=model_ok)
        if not tie_ok:
            # proof or model no longer checks and the sweeps above found no failing schedule: widen once, then report
            random_sweep(ctx, 300, 60, with_coq=False)
            what = ('translator rejected %s: %s' % (missing, {k: ctx.gen['errors'].get(k) for k in missing}) if missing else
                    'proof obligation no longer checks: %s in %s' % (r.get('lemma'), r.get('file')))
            ctx.violation({'what': what, 'theorem': r.get('lemma'), 'file': r.get('file'), 'coq_error': r.get('msg')}, found_input=False)
    except Stop:
        pass
    ctx.assumptions += ['control wires of the adapters are 1 bit wide and q / reg_in are not wider than stream.tdata (the legal configurations; createHILVitis builds exactly these)',
                        'Reg2Axi withdrawal / no-duplicate clauses: done is only signalled after a completed transfer (r2a_env_ok); the other clauses hold for every schedule',
                        'one model step = poke the inputs, Simulator.clk(1); checked every run against the real simulator (traces, one-step closure, dumped netlist under Model/SimKernel.v)']


def replay(rp):
    """re-run a recorded schedule on the real block under the monitor and print what happens"""
    class C:        # minimal ctx for run_monitored
        known = common.load_known('C16'); prop = 'C16'
        def known_finding(self, fid, text): print('KNOWN-FINDING: property=C16 %s' % text)
    name = rp.get('block')
    sched = [tuple(x) for x in rp.get('schedule', [])]
    if name == 'Link' and sched:
        blk = B.Link(rp['W'], rp['Q'], rp['DW'], rp['order'], rp['source'], rp.get('gated_driver_name', 'clk_dut'), rp.get('twin_gated_driver', False))
        tr, _, _, viol = run_link(blk, sched)
        print('inputs %s\noutputs %s' % (LINK_INPUTS, LINK_OUTPUTS))
        for i, o in zip(sched, tr): print('  in %s -> out %s' % (list(i), o))
        print(('REPRODUCED: ' + viol['what']) if viol else 'not reproduced'); return 1 if viol else 0
    if name not in ('Axi2Reg', 'Reg2Axi', 'Axi2Clk') or not sched:
        print(json.dumps(rp, indent=1)[:3000]); return 0
    opts = dict(rp.get('interface_options') or {})
    for k, v in rp.items():
        if k.startswith('placement'): opts['_place'] = v
    if name == 'Axi2Reg': blk, mon = B.A2R(rp['W'], rp['DW'], opts), B.A2RMonitor(rp['W'])
    elif name == 'Reg2Axi': blk, mon = B.R2A(rp['W'], rp['DW'], opts), B.R2AMonitor(rp['W'], rp['DW'])
    else: blk, mon = B.A2C(rp.get('DW') or 64), B.A2CMonitor()
    tr, viol = run_monitored(blk, sched, mon, C(), 'replay')
    print('inputs %s' % ctx_inputs(blk))
    for i, o in zip(sched, tr): print('  in %s -> out %s' % (list(i), o))
    if viol:
        print('REPRODUCED: %s (cycle %d)' % (viol['what'], viol['cycle'])); return 1
    if 'expected_outputs' in rp:
        print('monitor is silent; recorded disagreement at cycle %s: impl %s vs expected %s' % (rp.get('cycle'), rp.get('impl_outputs'), rp.get('expected_outputs')))
        return 1 if tr and tr[-1] == rp.get('impl_outputs') else 0
    print('not reproduced'); return 0
