"""C07 — integer arithmetic blocks compute their mathematical function for all inputs and widths.
Proof:  Properties/C07.v  (primitives REGENERATED from py4hw/logic/{arithmetic,bitwise}.py and helper.py on every run;
        structural generators as width-parametric models in Model/StructArith.v; specs in Spec/C07.v).
Tie:    every block is built for real and driven through Wire.put / propagateAll; the same (widths, inputs) are evaluated
        by the Coq model and the Coq spec (vm_compute): impl vs model = correspondence, impl vs spec = the property.
Search: the same sweep (exhaustive small mixed widths, boundary + random up to 128 bits) is the oracle when a proof,
        the translator or the tie breaks."""
import random, time
import common
from props import c07_blocks as B, c07_sweep as S

KNOWN_TEXT = {
    'C07-SAR-WIDE': 'ShiftRight(arithmetic=True|wire): result wider than wa+1 gets zeros instead of the sign '
                    '(pre-extension stops at wa+2**wb bits); e.g. a=1 on 1 bit, shift 1, 3-bit result: 3, expected 7',
    'C07-ROT-NARROW': 'RotateRight/RotateLeft with a result narrower than the operand lose bits between stages '
                      '(stage wires have the width of r); e.g. wa=3, wr=1, a=1, b=3: 0, expected 1',
    'C07-ROTC-WIDE': 'RotateLeftConstant/RotateRightConstant with a result wider than the operand leak the un-masked '
                     'left-shifted part above bit wa; e.g. wa=1, wr=2, n=0, a=1: 3, expected 1',
}


def known_match(blk, W, I):
    """narrow signatures of the findings recorded in known_findings/C07.json (culprit block + predicate on widths/input)"""
    n = blk.name
    if n in ('ShiftRightA', 'ShiftRightW'):
        a, b = I[0], I[1]
        arith = True if n == 'ShiftRightA' else bool(I[2] & 1)
        if arith and (a >> (W['wa'] - 1)) & 1 and W['wr'] + b > W['wa'] + (1 << W['wb']):
            return 'C07-SAR-WIDE'
    if n in ('RotateRight', 'RotateLeft') and W['wr'] < W['wa'] and bin(I[1]).count('1') >= 2:
        return 'C07-ROT-NARROW'
    if n in ('RotateLeftConstant', 'RotateRightConstant') and W['wr'] > W['wa']:
        return 'C07-ROTC-WIDE'
    return None


class Verdict:
    def __init__(self, ctx):
        self.ctx = ctx
        self.spec_fail = {}       # block -> first failing case
        self.tie_fail = {}
        self.known = {}
        self.reported = set()

    def wdict(self, job):
        return {k: job.W[k] for k in job.blk.wparams}

    def judge(self, jobs):
        ctx = self.ctx
        active = {f['id'] for f in ctx.known if f.get('status') == 'known'}
        for job in jobs:
            blk = job.blk
            ctx.count((blk.name,) + tuple(blk.wlist(job.W)), n=len(job.inputs))
            for k, I in enumerate(job.inputs):
                im = job.impl[k]
                if im is None: continue                       # unspecified input (zero divisor)
                sp = job.spec[k] if job.spec else None
                mo = job.model[k] if job.model else None
                if isinstance(im, tuple):
                    self.fail(job, I, None, sp, mo, 'the real block raised ' + im[1]); continue
                if sp is not None and im != sp:
                    fid = known_match(blk, job.W, I)
                    if fid in active:
                        self.known.setdefault(fid, (blk.name, self.wdict(job), I, im, sp))
                    else:
                        self.fail(job, I, im, sp, mo, 'output differs from the specified integer function')
                if mo is not None and im != mo and blk.name not in self.tie_fail:
                    self.tie_fail[blk.name] = {'block': blk.name, 'W': self.wdict(job), 'inputs': I, 'impl': im, 'model': mo, 'spec': sp}

    def fail(self, job, I, im, sp, mo, what):
        name = job.blk.name
        if name in self.spec_fail: return
        self.spec_fail[name] = d = {'what': what, 'block': name, 'anchor': job.blk.anchor, 'W': self.wdict(job),
                                    'input_ports': [p for p, _ in job.blk.ins], 'inputs': I, 'observed': im, 'expected': sp, 'model': mo,
                                    'spec_term': 'st_%s %s %s  (Spec/C07Tab.v)' % (name, common.zlist(job.blk.wlist(job.W)), common.zlist(I)),
                                    'recipe': 'props.c07_blocks.Inst(BY_NAME[block], W).eval(inputs)'}
        if len(self.reported) < 6:
            self.reported.add(name)
            self.ctx.violation(d)

    def report_known(self):
        for fid, (name, W, I, im, sp) in sorted(self.known.items()):
            self.ctx.known_finding(fid, '%s [%s W=%s I=%s impl=%s spec=%s]' % (KNOWN_TEXT[fid], name, W, I, im, sp))


# ------------------------------------------------------------------------------------------------- job generators
def corpus_jobs(ctx):
    """witnesses of the known findings and minimised failures of earlier mutation runs: always first"""
    jobs = []
    for f in ctx.known:
        w = f.get('witness') or {}
        if w.get('block') in B.BY_NAME:
            W = dict(w['W']); W['one'] = 1
            jobs.append(S.Job(B.BY_NAME[w['block']], W, [list(w['I'])]))
    C = [('SignedDiv', {'wa': 4, 'wb': 4, 'wr': 4}, [[8, 15], [8, 1], [7, 9], [15, 15]]),
         ('Abs', {'wa': 8, 'wr': 8}, [[128], [255], [127]]),
         ('Add_ci_co', {'wa': 8, 'wb': 8, 'wci': 1, 'wr': 8}, [[255, 255, 1], [255, 0, 1], [128, 128, 0]]),
         ('ShiftRightA', {'wa': 8, 'wb': 4, 'wr': 8}, [[128, 7], [128, 8], [128, 9], [128, 15], [127, 15]]),
         ('ShiftRightL', {'wa': 8, 'wb': 4, 'wr': 8}, [[255, 8], [255, 15], [255, 7]]),
         ('ShiftLeft', {'wa': 8, 'wb': 4, 'wr': 8}, [[255, 8], [1, 7], [255, 15]]),
         ('RotateLeft', {'wa': 8, 'wb': 4, 'wr': 8}, [[129, 8], [129, 7], [129, 15], [1, 9]]),
         ('RotateRight', {'wa': 8, 'wb': 4, 'wr': 8}, [[129, 8], [129, 7], [129, 15], [1, 9]]),
         ('SignedMul', {'wa': 4, 'wb': 4, 'wr': 8}, [[8, 8], [8, 15], [15, 15]]),
         ('SignedSub', {'wa': 4, 'wb': 4, 'wr': 5}, [[8, 7], [7, 8], [0, 8]]),
         ('CountLeadingZeros', {'wa': 24, 'wr': 5}, [[0], [1], [1 << 23], [(1 << 24) - 1], [1 << 11], [(1 << 12) + 1]]),
         ('BinaryToBCD', {'wa': 16, 'wr': 20}, [[0], [9], [10], [65535], [9999], [10000]]),
         ('BinaryToBCD', {'wa': 16, 'wr': 8}, [[65535], [100], [99]])]
    for name, W, ins in C:
        W = dict(W); W['one'] = 1
        jobs.append(S.Job(B.BY_NAME[name], W, ins))
    return jobs


def small_jobs(maxw, maxr, names=None):
    jobs = []
    for blk in B.BLOCKS:
        if names is not None and blk.name not in names: continue
        for W in B.small_configs(blk, maxw, maxr):
            jobs.append(S.Job(blk, W))
    return jobs


def big_jobs(rng, nconf, ninp, names=None):
    jobs = []
    for blk in B.BLOCKS:
        if names is not None and blk.name not in names: continue
        for _ in range(nconf):
            W = B.big_config(blk, rng)
            if W is None: continue
            jobs.append(S.Job(blk, W, B.big_inputs(blk, W, rng, ninp)))
    return jobs


# ------------------------------------------------------------------------------------------------- the check
MINE = ('Spec/C07', 'Model/StructArith', 'Proofs/C07/', 'Properties/C07', 'Gen/', 'Base/')


def prove_retry(ctx):
    """other properties are built concurrently in the same tree while the suite is developed: a failure of `make` that is
    not located in a file this property depends on (e.g. a vanished scratch file in .Makefile.d) is retried"""
    for attempt in range(4):
        r = ctx.prove(['Properties/C07.v'])
        if r['ok'] or (r.get('file') and r['file'].startswith(MINE)) or 'forbidden vernacular' in (r.get('msg') or ''):
            return r
        ctx.log('build failed outside this property (%s); retrying' % (r.get('msg') or '')[:200].replace('\n', ' '))
        time.sleep(5 + 10 * attempt)
    return r


def run(ctx):
    ctx.cov['rule'] = ('obligations = theorems of Properties/C07.v over the regenerated primitives and the structural models; '
                       'correspondence case = (block, width configuration, input tuple) evaluated on the REAL block, the Coq model and the Coq spec; '
                       'distinct = (block, width configuration); every case is non-trivial (a full propagate of the real block); '
                       'inputs with a zero divisor are skipped (unspecified)')
    B.HEAVY = not ctx.quick
    missing = ctx.regen(B.ALL_GEN)
    r = prove_retry(ctx)
    if missing: ctx.log('translator rejected: %s' % missing)
    if not r['ok']: ctx.log('proof obligations broken: %s in %s: %s' % (r.get('lemma'), r.get('file'), (r.get('msg') or '')[:300]))
    proof_ok = r['ok'] and not missing
    rng = random.Random(ctx.seed)
    v = Verdict(ctx)
    merrs, serrs = [], []

    def stage(tag, jobs):
        merr, serr = S.sweep(ctx, tag, jobs, with_model=True)
        if merr: merrs.append(merr)
        if serr: serrs.append(serr)
        v.judge(jobs)
        return jobs

    corpus = corpus_jobs(ctx)
    if ctx.quick:
        stage('C07_q', corpus + small_jobs(3, 4) + big_jobs(rng, 5, 24))
    else:
        stage('C07_t1', corpus + small_jobs(4, 5))
        stage('C07_t2', big_jobs(rng, 40, 60))
        stage('C07_t3', small_jobs(5, 6, names={'Add_ci_co', 'SignedAdd_ci_co', 'SignedSub', 'SignedDiv', 'SignedMul', 'ShiftRightA', 'ShiftRightW',
                                                 'ShiftLeft', 'RotateLeft', 'RotateRight', 'Abs', 'CountLeadingZeros', 'BinaryToBCD'}))
    for j in corpus[:40:6]:
        ctx.sample({'block': j.blk.name, 'W': v.wdict(j), 'input': j.inputs[0], 'impl': j.impl[0], 'model': j.model[0] if j.model else None,
                    'spec': j.spec[0] if j.spec else None})
    ctx.notes['distribution'] = ('exhaustive inputs for every legal mixed width combination up to %d-bit operands / %d-bit results; '
                                 'boundary values (0,1,2^(w-1)-1,2^(w-1),2^w-1,...) and random values on widths from %s (amount ports up to 7 bits)'
                                 % ((3, 4, B.BIG) if ctx.quick else (4, 5, B.BIG)))

    # ---- proof / translator / tie broken: the sweep above is the oracle; widen it before giving up
    tie_only = {n: d for n, d in v.tie_fail.items() if n not in v.spec_fail}
    broken = (not proof_ok) or merrs or tie_only
    if broken and not v.spec_fail and ctx.quick:
        ctx.log('obligation or tie broken and no failing input yet: widening the search')
        stage('C07_small4', small_jobs(4, 5))
        stage('C07_big2', big_jobs(rng, 25, 40))
        tie_only = {n: d for n, d in v.tie_fail.items() if n not in v.spec_fail}
    v.report_known()
    if serrs:
        ctx.violation({'what': 'the specification case files do not evaluate (harness / Spec/C07Tab.v problem)', 'coq_error': serrs[0][-1500:]}, found_input=False)
    if broken and not v.spec_fail:
        if not proof_ok:
            what = ('translator rejected %s: %s' % (missing, {k: ctx.gen['errors'].get(k) for k in missing}) if missing else
                    'proof obligation no longer checks: %s in %s' % (r.get('lemma'), r.get('file')))
            ctx.violation({'what': what, 'theorem': r.get('lemma'), 'file': r.get('file'), 'coq_error': r.get('msg'),
                           'model_vs_impl': list(tie_only.values())[:3]}, found_input=False)
        elif tie_only:
            ctx.violation({'what': 'the Coq model of a structural block no longer mirrors the real constructor (impl = spec on everything run, impl != model)',
                           'cases': list(tie_only.values())[:4]}, found_input=False)
        else:
            ctx.violation({'what': 'the model case files do not evaluate', 'coq_error': merrs[0][-1500:]}, found_input=False)
    ctx.notes['tie_mismatches'] = list(v.tie_fail.values())[:6]
    ctx.notes['spec_failures'] = list(v.spec_fail.values())[:6]
    ctx.assumptions += ['port values satisfy 0 <= v < 2**width (property C06)',
                        'Model/StructArith.v wires the regenerated primitives as the constructors of arithmetic.py do (checked on every run by the impl-vs-model column)',
                        'Div/Mod/SignedDiv with divisor 0 are unspecified (random in the implementation) and excluded',
                        'Rotate*: every stage amount 2**i <= data width (otherwise the real block raises ValueError: negative shift count)']


# ------------------------------------------------------------------------------------------------- replay
def replay(rp):
    if rp.get('kind') != 'failing-input' or rp.get('block') not in B.BY_NAME:
        print('replay: broken obligation (no input): %s' % rp.get('what')); print(rp.get('coq_error') or ''); return 0
    blk = B.BY_NAME[rp['block']]
    W = dict(rp['W']); W['one'] = 1
    try:
        got = B.Inst(blk, W).eval(rp['inputs'])
    except Exception as ex:
        got = 'raised %s: %s' % (type(ex).__name__, ex)
    still = got != rp.get('expected')
    print('replay %s W=%s inputs=%s: observed %s, expected (Coq spec) %s -> %s' % (rp['block'], rp['W'], rp['inputs'], got, rp.get('expected'),
                                                                                'STILL FAILS' if still else 'passes now'))
    return 1 if still else 0
