"""C04 — combinational settling is complete and independent of construction order.
Proof:  Properties/C04.v (sorter: sound / terminates on every ranked graph / cycles >= 2 refused; propagateAll over an
        ordered single-driver list reaches the unique fixpoint, order independence, sorter+evaluation end to end;
        every cyclic netlist, self-feeding leaves included, refused; one refuted clause: the pass limit refuses long
        sink-first chains).
Tie:    real py4hw netlists (random DAGs / cyclic graphs / register-broken loops / late additions / all small labelled
        digraphs) instantiated in adversarial orders; Model/Sort.v's result must equal Simulator.propagatables ELEMENT FOR
        ELEMENT (LimitError / LoopError x <-> the two documented exceptions, same leaf named); Model/SimKernel.v + regenerated leaf functions must reproduce every
        wire value; the dumped design must satisfy the theorems' hypotheses (orderedb, single driver) and every row read
        from the real simulator must satisfy Spec.C04.settledb.
Oracle: denotational value of every wire by recursion on the DAG (own semantics of the blocks) vs Wire.get()."""
import ast, itertools, json, os, random, subprocess, sys, time, types
import common, netlist
from common import quiet
from props import c04_net as N

LIMIT = 1000                     # the constant of the pinned commit; the limit actually used is probed from the source


def probe_limit():
    """the pass limit of Simulator.topologicalSort as the code computes it: (expression text, n -> number of passes allowed).
    Read from the `if (loopcount > <expr>): raise` test in /repo's current simulation.py, evaluated with a stub self whose
    propagatables list has n entries (so both the constant 1000 and a limit derived from the number of leaves are followed)."""
    src = open(os.path.join(common.REPO, 'py4hw', 'simulation.py'), encoding='utf-8').read()
    for cls in [c for c in ast.walk(ast.parse(src)) if isinstance(c, ast.ClassDef) and c.name == 'Simulator']:
        for fn in [f for f in cls.body if isinstance(f, ast.FunctionDef) and f.name == 'topologicalSort']:
            for node in ast.walk(fn):
                if (isinstance(node, ast.If) and isinstance(node.test, ast.Compare) and isinstance(node.test.left, ast.Name)
                        and node.test.left.id == 'loopcount' and len(node.test.ops) == 1 and isinstance(node.test.ops[0], (ast.Gt, ast.GtE))
                        and any(isinstance(b, ast.Raise) for b in node.body)):
                    expr = node.test.comparators[0]; strict = isinstance(node.test.ops[0], ast.Gt)
                    code = compile(ast.Expression(expr), '<pass limit>', 'eval')
                    def f(n, code=code, strict=strict):
                        v = eval(code, {'__builtins__': {}, 'max': max, 'min': min, 'len': len, 'int': int},
                                 {'self': types.SimpleNamespace(propagatables=[None] * n)})
                        return int(v) if strict else int(v) - 1
                    f(3)
                    return ast.unparse(node.test), f
    raise LookupError('no `if loopcount > <limit>: raise` test found in Simulator.topologicalSort')


LIMIT_FN = [None]
def limit_of(n):
    return LIMIT_FN[0](n) if LIMIT_FN[0] else LIMIT
SORT_PRELUDE = 'From Coq Require Import List Arith.\nImport ListNotations.\nFrom V Require Import Model.Sort.\nOpen Scope nat_scope.\n'
KERNEL_PRELUDE = netlist.PRELUDE + 'From V Require Import Spec.C04.\n'


def known(ctx, fid):
    return any(f['id'] == fid and f.get('status') == 'known' for f in ctx.known)


# ------------------------------------------------------------------ one netlist on the real simulator
def exercise(spec, rng=None, n_steps=0, want_dump=False, fixed_steps=None):
    """build the netlist block by block in spec['order'], request the simulator (twice when spec['split']), drive it.
    returns dict(sort_cases=[(tbl, impl_result)], problems=[...], notes=[...], dump=None|(...))"""
    net = N.Net(spec)
    res = {'sort_cases': [], 'problems': [], 'notes': [], 'dump': None, 'truth': None, 'n': 0}
    order = [tuple(i) for i in spec['order']]
    sp = spec.get('split')
    cuts = sorted(set([c for c in ([sp] if isinstance(sp, int) else list(sp or [])) if 0 < c < len(order)])) + [len(order)]
    start = 0
    for ph, cut in enumerate(cuts):
        net.instantiate(order[start:cut]); start = cut
        tbl = net.port_graph()                      # from the leaves' InPort / OutPort objects, leaves numbered in allLeaves() order
        wires_tbl = net.live_graph()                # from Wire.source / Wire.sinks (what the sorter is given)
        n = len(tbl); res['n'] = n
        sinks_bad = None; res.setdefault('sinks_bad', None)
        if [sorted(set(x)) for x in wires_tbl] != [sorted(set(x)) for x in tbl]:
            sinks_bad = ('sinks', 'Wire.source / Wire.sinks do not record every (driver leaf, reader leaf) pair the ports of the leaves define',
                         {'from_wires': wires_tbl, 'from_ports': tbl})
            res['sinks_bad'] = res['sinks_bad'] or sinks_bad
        if net.has_struct:
            tbl_spec = tbl          # structural library blocks (Xor2 = 8 leaves, Add = 2): the leaf graph is the one the ports define
        else:
            # the netlist that was described, renumbered to the live leaf order (blocks inside a structural child are
            # listed at their parent's position by allLeaves())
            t0 = N.spec_graph(spec, net.done); pos = net.node_leaf_index()
            tbl_spec = [[] for _ in range(n)]
            if None in pos or sorted(pos) != list(range(n)):
                res['problems'].append(('tie', 'HWSystem.allLeaves() does not list exactly the instantiated combinational blocks', {'positions': pos}))
                tbl_spec = tbl
            else:
                for a, row in enumerate(t0): tbl_spec[pos[a]] = [pos[b] for b in row]
                if [sorted(set(x)) for x in tbl] != [sorted(set(x)) for x in tbl_spec]:
                    res['problems'].append(('tie', 'the ports of the live leaves do not match the netlist that was built (harness)', {'live': tbl, 'built': tbl_spec}))
                if not net.has_box and pos != list(range(n)):
                    res['problems'].append(('tie', 'HWSystem.allLeaves() is not the instantiation order', {'allLeaves': pos}))
        truth, detail = N.classify(tbl_spec); res['truth'] = truth
        impl = net.get_simulator()
        res['sort_cases'].append((tbl, impl))
        if impl[0] == 'raise':
            if impl[2] == 'other':
                res['problems'].append(('exception', 'getSimulator raised something other than the two documented refusals', {'exception': impl[1]}))
            elif impl[2] == 'loop' and not (0 <= impl[3] < n and impl[3] in tbl_spec[impl[3]]):
                res['problems'].append(('exception', 'the loop error names a block that does not drive its own input', {'exception': impl[1], 'leaf': impl[3], 'succ': tbl_spec}))
            elif truth == 'dag':
                if impl[2] == 'limit' and n > LIMIT and limit_of(n) < n: res['notes'].append('passlimit')   # C04_pass_count_chain: fewer passes than leaves
                else: res['problems'].append(('refused', 'an acyclic netlist was refused', {'exception': impl[1]}))
            return res
        if truth == 'cycle2':
            res['problems'].append(('accepted', 'a netlist with a combinational cycle through leaves %s was accepted' % detail, {'propagatables': impl[1]}))
            return res
        if truth == 'selfloop':
            res['problems'].append(('accepted', 'a netlist in which leaf %s drives its own input was accepted (finding C04-selfloop, fixed in /repo 04873f4, is back)' % detail, {'propagatables': impl[1]}))
            return res
        if not N.is_strict_topo(tbl_spec, impl[1]):
            res['problems'].append(('order', 'Simulator.propagatables is not a topological order of the leaf dependencies', {'propagatables': impl[1], 'succ': tbl_spec}))
        present = [it[1] for it in net.done if it[0] == 'n']
        if ph == 0:
            bad = compare_values(spec, net, present)
            if bad: res['problems'].append(('value', 'after Simulator construction a wire differs from its block\'s function of the inputs', bad))
        if cut != cuts[-1] and rng is not None and fixed_steps is None and not res['problems']:
            # build - SIMULATE - extend: use the simulator before the circuit grows
            pk = [(k, rng.randrange(1 << w)) for k, w in enumerate(spec['inputs'])]
            for k, v in pk: net.wire[('i', k)].put(v)
            with quiet(): net.sim.clk(1)
            bad = compare_values(spec, net, present)
            if bad:
                bad['after'] = {'pokes': pk, 'clk': 1, 'phase': ph}
                res['problems'].append(('value', 'after clk(1) on the partly built circuit a wire differs from its block\'s function of the current inputs', bad))
    if res['problems']: return res
    dp = None
    if want_dump:
        try: dp = netlist.Dump(net.hw)
        except netlist.NotDumpable: dp = None
    rows, steps = [], []
    start_vals = dp.values() if dp else None
    present = [it[1] for it in net.done if it[0] == 'n']
    res['steps'] = []
    for t in range(len(fixed_steps) if fixed_steps is not None else n_steps):
        if fixed_steps is not None:
            pokes, ncl = [tuple(p) for p in fixed_steps[t][0]], fixed_steps[t][1]
        else:
            pokes = []
            for k, w in enumerate(spec['inputs']):
                if rng.random() < .8:
                    pokes.append((k, rng.choice([0, 1, (1 << w) - 1, rng.randrange(1 << w), rng.randrange(-64, 256)])))
            ncl = rng.choice([0, 1, 1, 2])
        res['steps'].append([pokes, ncl])
        for k, v in pokes: net.wire[('i', k)].put(v)
        q_exp = expected_q(spec, net, present) if ncl == 1 else {}
        with quiet(): net.sim.clk(ncl)
        bad = compare_values(spec, net, present)
        for k, v in q_exp.items():
            if not bad and net.wire[('q', k)].get() != v:
                bad = {'wire': ['q', k], 'impl': net.wire[('q', k)].get(), 'spec': v, 'note': 'register output after one clock edge = its d input settled before the edge'}
        if dp:
            steps.append(([(dp.w(net.wire[('i', k)]), v) for k, v in pokes], ncl)); rows.append(dp.values())
        if bad:
            bad['after'] = {'pokes': pokes, 'clk': ncl, 'step': t}
            res['problems'].append(('value', 'after clk(%d) a wire differs from its block\'s function of the current inputs' % ncl, bad))
            return res
    if dp: res['dump'] = (dp, steps, start_vals, rows, not spec.get('split'))
    return res


def expected_q(spec, net, present):
    """what each instantiated Reg (no enable / reset) must show after ONE clock edge: its d input, settled on the current inputs"""
    base = net.values(); exp = N.denote(spec, set(present), base); out = {}
    for it in net.done:
        if it[0] == 'r':
            rg = spec['regs'][it[1]]; d = tuple(rg['d'])
            out[it[1]] = N.mask(exp[d] if d in exp else base[d], rg['w'])
    return out


def compare_values(spec, net, present):
    base = net.values()
    exp = N.denote(spec, set(present), base)
    for key, v in exp.items():
        if base[key] != v:
            return {'wire': list(key), 'impl': base[key], 'spec': v,
                    'undriven_values': {str(list(k)): x for k, x in base.items() if k[0] != 'n' or k[1] not in present}}
    return None


# ------------------------------------------------------------------ the model side, inside Coq
def coq_eval(tag, prelude, items, timeout=900):
    """common.coq_eval; the dependency build is retried when it fails for a reason outside this property (another
    process adding/removing sources in the shared tree while make computes dependencies)"""
    for attempt in range(3):
        try:
            return common.coq_eval(tag, prelude, items, timeout=timeout)
        except RuntimeError as ex:
            if 'cannot build the libraries' not in str(ex) or 'C04' in str(ex) or attempt == 2: raise
            time.sleep(5)


def nat_tbl(tbl):
    return '[' + '; '.join('[' + '; '.join(str(x) for x in row) + ']' for row in tbl) + ']'


def model_sort(tag, tbls):
    """Model/Sort.v topologicalSort_with (the probed pass limit for that many leaves) on each table:
    ('sorted', [leaf indices]) | ('loop', leaf) | ('limit', None)"""
    out = []
    for a in range(0, len(tbls), 1500):
        chunk = tbls[a:a + 1500]
        r = coq_eval('%s_%d' % (tag, a // 1500), SORT_PRELUDE,
                     [('all', '[' + ';\n '.join('encode (topologicalSort_with %d %s)' % (limit_of(len(t)), nat_tbl(t)) for t in chunk) + ']')], timeout=900)
        for code, lst in r['all']:
            out.append(('sorted', lst) if code == 0 else ('loop', lst[0]) if code == 1 else ('limit', None))
    return out


def pokes_term(dp):
    return '[' + '; '.join('(%d%%nat, %s)' % (w, common.zlit(v)) for w, v in getattr(dp, 'init_pokes', [])) + ']'


def model_kernel(tag, dumps):
    """per dumped design: (first difference impl/model trace, all impl rows settled, hypotheses ordered+single driver hold,
    construction row equals init)"""
    body, items = [KERNEL_PRELUDE,
                   'Fixpoint nodupb (l : list nat) : bool := match l with [] => true | x :: t => negb (existsb (Nat.eqb x) t) && nodupb t end.\n'], []
    for i, (dp, steps, start_vals, rows, single) in enumerate(dumps):
        body.append(dp.coq_design('d%d' % i))
        st = '(@Build_state AnySt %s [] d%d_st0 0%%nat)' % (common.zlist(start_vals), i)
        exp = '[' + '; '.join(common.zlist(v) for v in [start_vals] + rows) + ']'
        items.append(('r%d' % i, '(first_diff %s (run_trace d%d %s %s), forallb (settledb d%d) %s, orderedb (combs d%d) && nodupb (flat_map c_out (combs d%d)), %s)' % (
            exp, i, st, netlist.steps_term(steps), i, exp if single else '[' + '; '.join(common.zlist(v) for v in rows) + ']', i, i,
            ('list_eqb (vals (init_poked d%d d%d_st0 %s)) %s' % (i, i, pokes_term(dp), common.zlist(start_vals))) if single else 'true')))
    return coq_eval(tag, '\n'.join(body), items, timeout=900)


# ------------------------------------------------------------------ sweeps
class Sweep:
    def __init__(self, ctx):
        self.ctx = ctx
        self.cases = []            # (label, spec, result)
        self.violated = False
        self.tie_broken = None

    def add(self, label, spec, rng=None, n_steps=0, want_dump=False):
        ctx = self.ctx
        if self.violated: return None          # one failing input is enough
        r = exercise(spec, rng, n_steps, want_dump)
        return self.record(label, spec, r)

    def record(self, label, spec, r):
        ctx = self.ctx
        if self.violated: return None
        self.cases.append((label, spec, r))
        for tbl, impl in r['sort_cases']:
            ctx.count(('sort', tuple(map(tuple, tbl)), impl[0]), nontrivial=len(tbl) > 1)
        if r['dump']: ctx.count(('values', label), n=len(r['dump'][3]) + 1)
        if r.get('sinks_bad') and not [p for p in r['problems'] if p[0] != 'tie']:
            kind, text, detail = r['sinks_bad']
            self.tie_broken = self.tie_broken or {'what': text, 'detail': detail, 'netlist': spec, 'case': label}
        for kind, text, detail in r['problems']:
            if kind == 'tie':
                self.tie_broken = self.tie_broken or {'what': text, 'detail': detail, 'netlist': spec}
                continue
            self.violated = True
            ctx.violation({'what': text, 'clause': kind, 'netlist': spec, 'detail': detail, 'case': label, 'steps(pokes by input, clk)': r.get('steps', []),
                           'replay_hint': './check --replay <this file> rebuilds the netlist on the real simulator and re-evaluates the oracle'})
            break
        if 'passlimit' in r['notes']:
            if known(ctx, 'C04-passlimit'):
                ctx.known_finding('C04-passlimit', 'an acyclic netlist of %d leaves instantiated sink-first is refused: the pass limit (%d for this size) is hit, one pass per leaf is needed' % (r['n'], limit_of(r['n'])))
            else:
                self.violated = True
                ctx.violation({'what': 'an acyclic netlist was refused (pass limit)', 'clause': 'refused', 'netlist': 'N.chain(%d)' % r['n'], 'case': label})
        return r

    def check_model(self, tag, max_leaves=64):
        """Model/Sort.v vs Simulator.propagatables, element for element; kernel model + settledb on the dumped designs"""
        ctx = self.ctx
        todo = []
        for label, spec, r in self.cases:
            for tbl, impl in r['sort_cases']:
                lim = max_leaves if impl[0] == 'ok' else 16          # a refusal costs 1000 passes in the model too
                if len(tbl) <= lim and all(x >= 0 for row in tbl for x in row): todo.append((label, spec, tbl, impl))
        got = model_sort(tag + '_sort', [t[2] for t in todo]) if todo else []
        ctx.log('%s: %d sorter cases evaluated by Model/Sort.v' % (tag, len(todo)))
        nm = 0
        oc = ctx.notes.setdefault('model_outcomes', {'sorted': 0, 'loop': 0, 'limit': 0})
        for (label, spec, tbl, impl), m in zip(todo, got):
            oc[m[0]] += 1
            same = ((m[0] == 'sorted' and impl[0] == 'ok' and m[1] == impl[1]) or (m[0] == 'limit' and impl[0] == 'raise' and impl[2] == 'limit')
                    or (m[0] == 'loop' and impl[0] == 'raise' and impl[2] == 'loop' and impl[3] == m[1]))
            if not same:
                nm += 1
                self.tie_broken = self.tie_broken or {'what': 'Model/Sort.v and Simulator.topologicalSort disagree', 'case': label, 'succ': tbl,
                                                      'model': list(m), 'impl': list(impl), 'netlist': spec}
        ctx.notes.setdefault('sort_cases_compared_with_model', 0); ctx.notes['sort_cases_compared_with_model'] += len(todo)
        dumps = [(label, spec, r['dump']) for label, spec, r in self.cases if r['dump']]
        for a in range(0, len(dumps), 40):
            chunk = dumps[a:a + 40]
            res = model_kernel('%s_kernel_%d' % (tag, a // 40), [d for _, _, d in chunk])
            for i, (label, spec, d) in enumerate(chunk):
                diff, settled, hyps, initeq = res['r%d' % i]
                if not settled:
                    self.violated = True
                    ctx.violation({'what': 'a wire value read from the real simulator is not its block\'s (regenerated) function of the current inputs (Spec.C04.settledb false)',
                                   'clause': 'value', 'netlist': spec, 'steps(pokes by wire id, clk)': d[1], 'rows': d[3], 'case': label})
                    return
                if diff is not None or not hyps or not initeq:
                    self.tie_broken = self.tie_broken or {
                        'what': 'kernel model vs real simulator: first_diff=%s, hypotheses ordered/single_driver hold on the dumped design=%s, construction equals init=%s' % (diff, hyps, initeq),
                        'case': label, 'netlist': spec, 'steps': d[1]}
        ctx.notes.setdefault('designs_compared_with_kernel_model', 0); ctx.notes['designs_compared_with_kernel_model'] += len(dumps)
        self.cases = []
        return nm


def random_sweep(ctx, sw, count, tagseed, with_dump=True, steps=4):
    for i in range(count):
        rng = random.Random(ctx.seed * 7919 + tagseed * 1000003 + i)
        m = i % 10
        flavour = 'dag' if m < 6 else 'cycle' if m < 9 else 'selfloop'
        struct = (i % 4 == 1)
        itf = (i % 3 == 2)                       # leaves that are sinks / sources of a py4hw.Interface (back-channel wires)
        boxes = rng.choice([0, 0, 1, 2])         # blocks inside user-defined structural children
        n = rng.randint(2, 6 if struct else 12)
        spec = N.rand_netlist(rng, n, flavour, n_in=rng.randint(1, 3), n_regs=rng.choice([0, 0, 1, 2]), lib_only=(i % 4 != 3), struct=struct,
                              itf=itf, boxes=boxes, inherit=(i % 2 == 1))
        if spec is None: continue
        if flavour == 'dag' and i % 5 in (0, 1) and len(spec['order']) > 2:
            # build - simulate - extend - simulate histories (one or two extensions, also inside existing structural children)
            spec['split'] = sorted(set(rng.randint(1, len(spec['order']) - 1) for _ in range(1 + i % 2)))
        r = sw.add('random#%d/%s' % (i, flavour), spec, rng, n_steps=steps, want_dump=with_dump and i % 2 == 0)
        if r is None: return
        if i < 3: ctx.sample({'netlist': spec, 'leaf_graph': r['sort_cases'][-1][0], 'getSimulator': list(r['sort_cases'][-1][1])})
        if sw.violated: return


def fresh_process_sweep(ctx, sw, n_proc, per_proc):
    """part of the random stream in fresh interpreters: the first classes each process instantiates are a bare Logic container with a
    port and/or a ports-only base class ('preamble'), or the netlist's own blocks in its instantiation order (class-hierarchy
    families: behaviour added by a subclass, base instantiated before or after it)"""
    env = dict(os.environ, PYTHONPATH=common.REPO + os.pathsep + os.path.join(common.VERIF, 'py'))
    for p in range(n_proc):
        jobs = []
        for i in range(per_proc):
            rng = random.Random(ctx.seed * 15485863 + p * 1009 + i)
            flavour = ('dag', 'dag', 'cycle', 'dag', 'selfloop')[i % 5]
            spec = N.rand_netlist(rng, rng.randint(2, 9), flavour, n_in=rng.randint(1, 3), n_regs=rng.choice([0, 1]), lib_only=(i % 2 == 0),
                                  struct=(i % 4 == 3), itf=(i % 3 == 1), boxes=rng.choice([0, 1]), inherit=(i % 2 == 1))
            if spec is None: continue
            spec['preamble'] = ('logic_port', 'stub_first', 'both', None)[p % 4]
            if flavour == 'dag' and i % 3 == 0 and len(spec['order']) > 2: spec['split'] = [rng.randint(1, len(spec['order']) - 1)]
            jobs.append(['fresh#%d.%d/%s/%s' % (p, i, spec['preamble'], flavour), spec, ctx.seed * 31 + p * 100 + i, 3])
        pr = subprocess.run([sys.executable, '-W', 'ignore', os.path.join(common.VERIF, 'py', 'props', 'c04_fresh.py')], input=json.dumps(jobs),
                            capture_output=True, text=True, env=env, timeout=600)
        line = [l for l in pr.stdout.split('\n') if l.startswith('@@RESULT ')]
        if pr.returncode != 0 or not line:
            sw.tie_broken = sw.tie_broken or {'what': 'the fresh-interpreter run of netlist histories failed', 'stderr': pr.stderr[-1500:]}
            continue
        for (label, spec, _, _), r in zip(jobs, json.loads(line[0][len('@@RESULT '):])):
            r['sort_cases'] = [(tbl, tuple(impl)) for tbl, impl in r['sort_cases']]
            r['problems'] = [tuple(x) for x in r['problems']]; r['dump'] = None
            sw.record(label, spec, r)
            if sw.violated: return
    ctx.notes['fresh_interpreter_processes'] = n_proc


def exhaustive_sweep(ctx, sw, quick):
    plan = ([(1, True, False), (2, True, False), (3, False, False), (4, False, True)] if quick else
            [(1, True, False), (2, True, False), (3, True, False), (4, False, False), (5, False, True)])
    total = 0
    for n, selfl, dags in plan:
        for e in N.all_digraphs(n, self_loops=selfl, dags_only=dags):
            spec = N.tiny_graph(n, e, variant=total % 2)        # every other graph: odd leaves are py4hw.Interface sinks
            rng = random.Random(total)
            sw.add('all-digraphs n=%d %s' % (n, sorted(e)), spec, rng, n_steps=1)
            total += 1
            if sw.violated: return
            if len(sw.cases) >= 3000:
                sw.check_model('C04_ex%d' % total)
                if sw.violated: return
    sw.check_model('C04_exlast')
    ctx.notes['exhaustive'] = {'plan(n, self loops, DAGs only)': plan, 'netlists': total,
                               'meaning': 'labelled digraphs instantiated in label order = every (graph, instantiation order) pair up to renaming'}


def special_cases(ctx, sw, quick):
    rng = random.Random(ctx.seed)
    # reversed / forward chains well inside the limit: also evaluated by the Coq model
    for n in (2, 7, 40):
        sw.add('reversed chain of %d Buf' % n, N.chain(n), rng, n_steps=2, want_dump=(n <= 7))
        sw.add('forward chain of %d Buf' % n, N.chain(n, reverse=False), rng, n_steps=1)
    # a self-looping And2 beside a clean leaf; an inverter feeding itself: must be refused (C04-selfloop, fixed in 04873f4)
    s1 = {'inputs': [1], 'nodes': [{'kind': 'and2', 'ins': [['i', 0], ['n', 0, 0]], 'outs': [1], 'const': 0},
                                   {'kind': 'not', 'ins': [['i', 0]], 'outs': [1], 'const': 0}], 'regs': [], 'order': [['n', 0], ['n', 1]], 'split': None}
    s2 = {'inputs': [1], 'nodes': [{'kind': 'not', 'ins': [['n', 0, 0]], 'outs': [1], 'const': 0}], 'regs': [], 'order': [['n', 0]], 'split': None}
    sw.add('And2 reading its own output', s1); sw.add('Not reading its own output', s2)
    # a loop closed through a register is legal
    s3 = {'inputs': [3], 'nodes': [{'kind': 'or2', 'ins': [['q', 0], ['i', 0]], 'outs': [3], 'const': 0},
                                   {'kind': 'not', 'ins': [['n', 0, 0]], 'outs': [3], 'const': 0}],
          'regs': [{'d': ['n', 1, 0], 'w': 3}], 'order': [['n', 1], ['r', 0], ['n', 0]], 'split': None}
    sw.add('loop through a Reg', s3, rng, n_steps=5, want_dump=True)
    # the boundary of the pass limit on the real simulator: 1000 leaves sink-first need exactly 1000 passes, 1001 are refused
    sw.add('reversed chain of 1000 Buf', N.chain(LIMIT), rng, n_steps=1)
    sw.add('reversed chain of 1001 Buf', N.chain(LIMIT + 1), rng, n_steps=1)


def search(ctx, n):
    """wider impl-vs-spec search (no model) used when a proof or a tie broke without a failing input so far"""
    sw = Sweep(ctx)
    for i in range(n):
        rng = random.Random(ctx.seed * 104729 + i)
        flavour = ('dag', 'dag', 'cycle')[i % 3]
        spec = N.rand_netlist(rng, rng.randint(2, 16), flavour, n_in=rng.randint(1, 3), n_regs=rng.choice([0, 1, 2]), lib_only=False, struct=(i % 2 == 0),
                              itf=(i % 3 != 0), boxes=rng.choice([0, 1, 2]), inherit=(i % 2 == 1))
        if spec is None: continue
        if flavour == 'dag' and i % 4 < 2 and len(spec['order']) > 2: spec['split'] = sorted(set(rng.randint(1, len(spec['order']) - 1) for _ in range(1 + i % 2)))
        sw.add('search#%d/%s' % (i, flavour), spec, rng, n_steps=4)
        sw.cases = []
        if sw.violated: return True
    return False


def run(ctx):
    ctx.cov['rule'] = ('obligations: theorems of Properties/C04.v. correspondence cases: one per (netlist, simulator request); a case is distinct by its leaf '
                       'dependency table in instantiation order + outcome, non-trivial when it has >= 2 combinational leaves; value cases: one per '
                       '(netlist, poke/clk step) with every driven wire compared with the denotational oracle')
    missing = ctx.regen(['Wire_put', 'Buf_propagate', 'Not_propagate', 'And2_propagate', 'Or2_propagate', 'Mux2_propagate', 'Constant_propagate',
                         'ConcatenateMSBF_propagate', 'ConcatenateLSBF_propagate', 'BitsLSBF_propagate', 'Reg_clock'])
    r = ctx.prove(['Properties/C04.v'])
    probe_err = None
    try:
        text, LIMIT_FN[0] = probe_limit()
        ctx.notes['pass_limit_probe'] = {'test': text, 'limit(10)': limit_of(10), 'limit(1001)': limit_of(1001), 'limit(5000)': limit_of(5000)}
    except Exception as ex:
        probe_err = 'cannot read the pass limit of Simulator.topologicalSort: %s' % ex; LIMIT_FN[0] = None
    sw = Sweep(ctx)
    ctx.log('proofs built: %s' % r['ok'])
    special_cases(ctx, sw, ctx.quick)
    ctx.log('special cases driven on the real simulator')
    if not sw.violated: sw.check_model('C04_special')
    if not sw.violated:
        random_sweep(ctx, sw, 140 if ctx.quick else 1200, 1, with_dump=not missing)
        ctx.log('random netlists driven on the real simulator')
        if not sw.violated:
            fresh_process_sweep(ctx, sw, 4 if ctx.quick else 16, 8 if ctx.quick else 20)
            ctx.log('netlist histories driven in fresh interpreter processes')
        if not sw.violated: sw.check_model('C04_random')
        ctx.log('random netlists compared with the models in Coq')
    if not sw.violated:
        exhaustive_sweep(ctx, sw, ctx.quick)
        ctx.log('small digraphs enumerated and compared')
    ctx.cov['exhaustive'] = False
    ctx.assumptions += ['the leaf dependency graph given to Model/Sort.v is read from the live objects (outPorts / Wire.sinks / isPropagatable) exactly as '
                        'findFirstDependentPosition reads it, and cross-checked against the netlist description',
                        'HWSystem.allLeaves() yields leaves in instantiation order (checked on every case)',
                        'Model/SimKernel.v propagateAll mirrors Simulator.propagateAll/_clk_cycle (run against the real simulator on every dumped design)',
                        'single driver per wire (Wire.setSource raises otherwise; checked on every dumped design)']
    if sw.violated: return
    broken = None
    if missing: broken = {'what': 'translator rejected %s' % missing, 'errors': {k: ctx.gen['errors'].get(k) for k in missing}}
    elif not r['ok']: broken = {'what': 'proof obligation no longer checks: %s in %s' % (r.get('lemma'), r.get('file')), 'coq_error': r.get('msg')}
    elif probe_err: broken = {'what': probe_err}
    elif sw.tie_broken: broken = sw.tie_broken
    if broken:
        ctx.log('obligation / correspondence broken (%s): widening the impl-vs-spec search' % broken['what'])
        if not search(ctx, 400 if ctx.quick else 3000):
            ctx.violation(broken, found_input=False)


# ------------------------------------------------------------------ replay
def replay(rp):
    spec = rp.get('netlist')
    if not isinstance(spec, dict):
        print('replay: no netlist in this file (broken obligation):'); print(json.dumps(rp, indent=1)[:3000]); return 0
    common.quiet_import()
    try: LIMIT_FN[0] = probe_limit()[1]
    except Exception: pass
    rng = random.Random(1)
    r = exercise(spec, rng, n_steps=6, fixed_steps=rp.get('steps(pokes by input, clk)') or None)
    print('replay C04: leaf graph %s, truth=%s, getSimulator -> %s' % (r['sort_cases'][-1][0], r['truth'], r['sort_cases'][-1][1]))
    for kind, text, detail in r['problems']:
        print('REPRODUCED (%s): %s\n  %s' % (kind, text, json.dumps(detail, default=str)[:1500]))
    if r['notes']: print('notes:', r['notes'])
    return 1 if r['problems'] else 0
