"""C18 helper — the blocks whose schematics are validated: (1) structural library blocks at several widths / arities,
(2) random netlists (py/designs.py style) wrapped in a Logic subclass with real in/out ports.
(3) whole port-less HWSystems, input-only / output-only blocks and the accumulator loop in every port configuration.
Everything is reproducible from a small JSON-able recipe:  ('lib', name, params) | ('rand', seed, params) |
('top', seed, params) | ('loop', variant) | ('par', variant) | ('gate', variant) | ('dup', variant) | ('selfloop', variant)."""
import random
from common import quiet, quiet_import


# ---------------------------------------------------------------------------------------------- library blocks
def _lib_builders():
    py4hw = quiet_import()
    import py4hw.logic as L
    import py4hw.logic.storage as ST
    import py4hw.logic.relational as R
    import py4hw.logic.arithmetic as A
    import py4hw.logic.bitwise as B
    W = lambda hw, n, w=1: hw.wire(n, w)
    b = {}
    b['Add'] = lambda hw, w, co: py4hw.Add(hw, 'dut', W(hw, 'a', w), W(hw, 'b', w), W(hw, 'r', w), co=W(hw, 'co') if co else None)
    b['AddCi'] = lambda hw, w: py4hw.Add(hw, 'dut', W(hw, 'a', w), W(hw, 'b', w), W(hw, 'r', w), ci=W(hw, 'ci'), co=W(hw, 'co'))
    b['SignedAdd'] = lambda hw, w: A.SignedAdd(hw, 'dut', W(hw, 'a', w), W(hw, 'b', w), W(hw, 'r', w + 1))
    b['Abs'] = lambda hw, w, inv: A.Abs(hw, 'dut', W(hw, 'a', w), W(hw, 'r', w), inverted=W(hw, 'inv') if inv else None)
    b['Comparator'] = lambda hw, w: R.Comparator(hw, 'dut', W(hw, 'a', w), W(hw, 'b', w), W(hw, 'gt'), W(hw, 'eq'), W(hw, 'lt'))
    b['ComparatorSU'] = lambda hw, w: R.ComparatorSignedUnsigned(hw, 'dut', W(hw, 'a', w), W(hw, 'b', w), W(hw, 'gtu'), W(hw, 'eq'), W(hw, 'ltu'), W(hw, 'gt'), W(hw, 'lt'))
    b['Equal'] = lambda hw, w: R.Equal(hw, 'dut', W(hw, 'a', w), W(hw, 'b', w), W(hw, 'r'))
    b['EqualConstant'] = lambda hw, w, v: R.EqualConstant(hw, 'dut', W(hw, 'a', w), v, W(hw, 'r'))
    b['Max2'] = lambda hw, w: R.Max2(hw, 'dut', W(hw, 'a', w), W(hw, 'b', w), W(hw, 'r', w))
    b['Min2'] = lambda hw, w: R.Min2(hw, 'dut', W(hw, 'a', w), W(hw, 'b', w), W(hw, 'r', w))
    b['SignedMax2'] = lambda hw, w: R.SignedMax2(hw, 'dut', W(hw, 'a', w), W(hw, 'b', w), W(hw, 'r', w))
    b['Swap'] = lambda hw, w: R.Swap(hw, 'dut', W(hw, 'a', w), W(hw, 'b', w), W(hw, 'swap'), W(hw, 'ra', w), W(hw, 'rb', w))
    b['Counter'] = lambda hw, w: A.Counter(hw, 'dut', W(hw, 'rst'), W(hw, 'inc'), W(hw, 'q', w))
    b['ModuloCounter'] = lambda hw, w, m: A.ModuloCounter(hw, 'dut', m, W(hw, 'rst'), W(hw, 'inc'), W(hw, 'q', w), W(hw, 'co'))
    b['StepUpCounter'] = lambda hw, w: A.StepUpCounter(hw, 'dut', W(hw, 'rst'), W(hw, 'inc'), W(hw, 'step', w), W(hw, 'q', w))
    b['DelayLine'] = lambda hw, w, n, en, rs: ST.DelayLine(hw, 'dut', W(hw, 'a', w), W(hw, 'en') if en else None, W(hw, 'rst') if rs else None, W(hw, 'r', w), n)
    b['ShiftRegBidir'] = lambda hw, w, n: ST.ShiftRegisterBidirectional(hw, 'dut', W(hw, 'li', w), W(hw, 'ri', w), W(hw, 'lo', w), W(hw, 'ro', w), W(hw, 'sl'), W(hw, 'sr'), n)
    b['PipelinePhase'] = lambda hw, w, n: ST.PipelinePhase(hw, 'dut', W(hw, 'rst'), [W(hw, 'i%d' % i, w) for i in range(n)], [W(hw, 'o%d' % i, w) for i in range(n)])
    b['TReg'] = lambda hw: ST.TReg(hw, 'dut', W(hw, 't'), W(hw, 'q'), enable=W(hw, 'en'), reset=W(hw, 'rst'))
    b['Mux'] = lambda hw, w, k: B.Mux(hw, 'dut', W(hw, 'sel', k), [W(hw, 'i%d' % i, w) for i in range(1 << k)], W(hw, 'r', w))
    b['And'] = lambda hw, w, n: B.And(hw, 'dut', [W(hw, 'i%d' % i, w) for i in range(n)], W(hw, 'r', w))
    b['Or'] = lambda hw, w, n: B.Or(hw, 'dut', [W(hw, 'i%d' % i, w) for i in range(n)], W(hw, 'r', w))
    b['Xor'] = lambda hw, w, n: B.Xor(hw, 'dut', [W(hw, 'i%d' % i, w) for i in range(n)], W(hw, 'r', w))
    b['Nor'] = lambda hw, w, n: B.Nor(hw, 'dut', [W(hw, 'i%d' % i, w) for i in range(n)], W(hw, 'r', w))
    b['AndBits'] = lambda hw, w: B.AndBits(hw, 'dut', W(hw, 'a', w), W(hw, 'r'))
    b['OrBits'] = lambda hw, w: B.OrBits(hw, 'dut', W(hw, 'a', w), W(hw, 'r'))
    b['Select'] = lambda hw, w, n: B.Select(hw, 'dut', [W(hw, 's%d' % i) for i in range(n)], [W(hw, 'i%d' % i, w) for i in range(n)], W(hw, 'r', w))
    b['OneHotMux'] = lambda hw, w, n: B.OneHotMux(hw, 'dut', [W(hw, 's%d' % i) for i in range(n)], [W(hw, 'i%d' % i, w) for i in range(n)], W(hw, 'r', w))
    b['Decoder'] = lambda hw, k: B.Decoder(hw, 'dut', W(hw, 'a', k), [W(hw, 'o%d' % i) for i in range(1 << k)])
    b['Sign'] = lambda hw, w: A.Sign(hw, 'dut', W(hw, 'a', w), W(hw, 'r'))
    b['ShiftRight'] = lambda hw, w, k, ar: A.ShiftRight(hw, 'dut', W(hw, 'a', w), W(hw, 'b', k), W(hw, 'r', w), arithmetic=ar)
    b['ShiftLeft'] = lambda hw, w, k: A.ShiftLeft(hw, 'dut', W(hw, 'a', w), W(hw, 'b', k), W(hw, 'r', w))
    b['RotateRight'] = lambda hw, w, k: A.RotateRight(hw, 'dut', W(hw, 'a', w), W(hw, 'b', k), W(hw, 'r', w))
    b['SignedSub'] = lambda hw, w: A.SignedSub(hw, 'dut', W(hw, 'a', w), W(hw, 'b', w), W(hw, 'r', w + 1))
    b['BinaryToBCD'] = lambda hw, w: A.BinaryToBCD(hw, 'dut', W(hw, 'a', w), W(hw, 'r', 4 * ((w + 2) // 3)))
    b['CountLeadingZeros'] = lambda hw, w: A.CountLeadingZeros(hw, 'dut', W(hw, 'a', w), W(hw, 'r', max(1, (w - 1).bit_length())), W(hw, 'z'))
    b['FPAdder_SP'] = lambda hw: __import__('py4hw.logic.arithmetic_fp', fromlist=['x']).FPAdder_SP(hw, 'dut', W(hw, 'a', 32), W(hw, 'b', 32), W(hw, 'r', 32))
    b['FPMult_SP'] = lambda hw: __import__('py4hw.logic.arithmetic_fp', fromlist=['x']).FPMult_SP(hw, 'dut', W(hw, 'a', 32), W(hw, 'b', 32), W(hw, 'r', 32))
    b['FPComparator_SP'] = lambda hw: R.FPComparator_SP(hw, 'dut', W(hw, 'a', 32), W(hw, 'b', 32), W(hw, 'gt'), W(hw, 'eq'), W(hw, 'lt'))
    return b


LIB_QUICK = [
    ('Add', (8, True)), ('Add', (1, False)), ('AddCi', (4,)), ('Abs', (8, False)), ('Abs', (5, True)), ('Comparator', (8,)), ('Comparator', (1,)),
    ('Counter', (4,)), ('ModuloCounter', (4, 10)), ('DelayLine', (8, 3, True, True)), ('DelayLine', (1, 1, False, False)),
    ('ShiftRegBidir', (4, 3)), ('Mux', (8, 2)), ('Mux', (3, 1)), ('And', (1, 3)), ('And', (4, 6)), ('Or', (2, 5)), ('Xor', (1, 4)),
    ('Equal', (8,)), ('Max2', (6,)), ('Swap', (4,)), ('PipelinePhase', (8, 3)), ('Select', (4, 3)), ('Sign', (8,)), ('TReg', ()),
    ('StepUpCounter', (6,)), ('Decoder', (2,)), ('SignedAdd', (5,)),
    ('OrBits', (12,)), ('AndBits', (10,)), ('Select', (2, 10)), ('OneHotMux', (2, 9)),        # gates with more than 8 inputs inside
]
LIB_THOROUGH = LIB_QUICK + [
    ('Add', (w, co)) for w in (2, 3, 16, 33) for co in (False, True)] + [
    ('Abs', (w, inv)) for w in (2, 16, 32) for inv in (False, True)] + [
    ('Comparator', (w,)) for w in (2, 3, 16, 32)] + [('ComparatorSU', (w,)) for w in (4, 8)] + [
    ('Counter', (w,)) for w in (1, 2, 8, 16)] + [('ModuloCounter', (w, m)) for (w, m) in ((2, 3), (3, 8), (8, 200), (5, 17))] + [
    ('DelayLine', (w, n, en, rs)) for w in (1, 8) for n in (1, 2, 5, 9) for en in (False, True) for rs in (False, True)] + [
    ('ShiftRegBidir', (w, n)) for w in (1, 8) for n in (2, 4, 7)] + [('Mux', (w, k)) for w in (1, 8) for k in (1, 2, 3, 4)] + [
    ('And', (w, n)) for w in (1, 8) for n in (2, 3, 4, 5, 8, 12)] + [('Or', (w, n)) for w in (1, 8) for n in (2, 3, 4, 7, 9)] + [
    ('Xor', (w, n)) for w in (1, 8) for n in (2, 3, 5, 8)] + [('Nor', (1, n)) for n in (2, 3, 4)] + [
    ('Equal', (w,)) for w in (1, 2, 16)] + [('EqualConstant', (4, 5)), ('EqualConstant', (8, 0))] + [
    ('Max2', (w,)) for w in (1, 8)] + [('Min2', (w,)) for w in (1, 8)] + [('SignedMax2', (8,)), ('Swap', (1,)), ('Swap', (16,))] + [
    ('PipelinePhase', (w, n)) for w in (1, 8) for n in (1, 2, 6)] + [('Select', (w, n)) for w in (1, 8) for n in (2, 4, 6)] + [
    ('OneHotMux', (4, 3)), ('AndBits', (4,)), ('OrBits', (6,)), ('Sign', (1,)), ('StepUpCounter', (3,)), ('Decoder', (1,)), ('Decoder', (3,)),
    ('ShiftRight', (8, 3, False)), ('ShiftRight', (8, 3, True)), ('ShiftLeft', (8, 3)), ('RotateRight', (8, 3)), ('SignedSub', (6,)),
    ('SignedAdd', (8,)), ('BinaryToBCD', (6,)), ('CountLeadingZeros', (8,)),
    ('FPAdder_SP', ()), ('FPMult_SP', ()), ('FPComparator_SP', ()),
]


def build_lib(name, params):
    py4hw = quiet_import()
    b = _lib_builders()
    with quiet():
        hw = py4hw.HWSystem()
        obj = b[name](hw, *params)
    return obj


# ---------------------------------------------------------------------------------------------- random netlists
def _populate(self, py4hw, ins, outs, rng, p):
    """fills the structural block `self` (a Logic subclass instance, or a bare HWSystem drawn as a whole) with a
    random netlist.  Every wire is driven by construction (block in-port or child output); the combinational part
    is acyclic, feedback only through Reg; children are instantiated in a shuffled order."""
    max_w = p.get('max_w', 8)
    pool = []
    for i, w in enumerate(ins):
        pool.append(self.addIn('in%d' % i, w))
    if p.get('unused_in') and len(pool) > 1:
        pool.pop(rng.randrange(len(pool)))            # an in-port nobody reads
    pre = []
    for i in range(p.get('n_const_src', 0)):          # port-less blocks: constants play the role of the inputs
        k = self.wire('k%d' % i, rng.randint(1, max_w)); v = rng.randrange(1 << k.getWidth())
        pre.append(('const', lambda i=i, k=k, v=v: py4hw.Constant(self, 'k%d' % i, v, k))); pool.append(k)
    regs = []
    for i in range(p.get('n_regs', 0)):
        q = self.wire('q%d' % i, rng.randint(1, max_w)); pool.append(q); regs.append(q)
    recipe = list(pre)
    cnt = [0]
    def new(wd):
        cnt[0] += 1
        return self.wire('t%d' % cnt[0], wd)
    recent = []
    multi = []            # groups of 1-bit outputs that come from ONE child (Comparator gt/eq/lt)
    def pick():
        mode = rng.random()
        if mode < p.get('p_far', .25) and pool: return pool[rng.randrange(min(3, len(pool)))]      # long forward edges from the first wires
        if mode < p.get('p_far', .25) + p.get('p_near', .35) and recent: return rng.choice(recent[-3:])   # deep chains
        return rng.choice(pool)
    _pick = pick
    def pick(*avoid):
        # distinct_pins: the pins of one child get different wires (otherwise placeAndRoute's 'Multiple nets between
        # source and sink' exception aborts pass-through creation early and the rest of that code is not exercised)
        for _ in range(8):
            w = _pick()
            if not p.get('distinct_pins') or all(w is not x for x in avoid): return w
        return w
    def pick1(*avoid):
        c = [w for w in pool if w.getWidth() == 1 and (not p.get('distinct_pins') or all(w is not x for x in avoid))]
        if c: return rng.choice(c)
        a = pick(); r = new(1); i = rng.randrange(a.getWidth()); n = cnt[0]
        recipe.append(('bit', lambda: py4hw.Bit(self, 'b%d' % n, a, i, r)))
        pool.append(r); return r
    kinds = p.get('kinds') or ['and2', 'or2', 'xor2', 'not', 'add', 'addco', 'sub', 'mul', 'mux2', 'range', 'concat', 'shl', 'const', 'sext',
                               'neg', 'cmp', 'buf', 'andn', 'same2', 'abs', 'equal', 'par']
    for k in range(p['n_blocks']):
        kind = rng.choice(kinds); n = 'u%d' % k
        if kind == 'same2' and p.get('distinct_pins'): kind = 'xor2'
        if kind == 'par' and not multi: kind = 'cmp'
        a = pick(); b = pick(a)
        if kind in ('and2', 'or2', 'xor2'):
            r = new(rng.choice([a.getWidth(), b.getWidth()]))
            cls = {'and2': py4hw.And2, 'or2': py4hw.Or2, 'xor2': py4hw.Xor2}[kind]
            recipe.append((kind, lambda cls=cls, n=n, a=a, b=b, r=r: cls(self, n, a, b, r)))
        elif kind == 'same2':                         # one wire on two pins of the same child
            r = new(a.getWidth())
            cls = rng.choice([py4hw.And2, py4hw.Xor2, py4hw.Add, 'cmp', 'mux'])
            if cls == 'cmp':            # a box symbol (generic instance rectangle) reading one wire on two pins
                r = new(1); g2, e2 = new(1), new(1)
                recipe.append((kind, lambda n=n, a=a, g2=g2, e2=e2, r=r: py4hw.Comparator(self, n, a, a, g2, e2, r))); pool.append(e2)
            elif cls == 'mux':
                sl = new(2); r = new(a.getWidth()); c2 = pick(a)
                if c2.getWidth() != a.getWidth(): c2 = a
                recipe.append(('const', lambda n=n, sl=sl: py4hw.Constant(self, n + 'k', 1, sl)))
                recipe.append((kind, lambda n=n, sl=sl, a=a, c2=c2, r=r: py4hw.Mux(self, n, sl, [c2, a, a, c2], r)))
            else: recipe.append((kind, lambda cls=cls, n=n, a=a, r=r: cls(self, n, a, a, r)))
        elif kind == 'par':         # 2 or 3 DIFFERENT wires from one multi-output child into one gate that sits deep (far input from the newest logic)
            grp = rng.choice(multi); xs = rng.sample(list(grp), rng.choice([2, 3]))
            far = recent[-1] if recent else pick1(*grp)
            if far.getWidth() != 1 or any(far is x for x in grp):
                f1 = new(1); src = far if not any(far is x for x in grp) else pick(*grp); bn = cnt[0]
                recipe.append(('bit', lambda src=src, f1=f1, bn=bn: py4hw.Bit(self, 'b%d' % bn, src, 0, f1))); far = f1
            r = new(1); cls = rng.choice([py4hw.And, py4hw.Or]); xs = xs + [far]
            recipe.append((kind, lambda cls=cls, n=n, xs=xs, r=r: cls(self, n, xs, r)))
        elif kind == 'andn':
            m = rng.choice([3, 4, 5, 5, 9, 12]); xs = []
            for _ in range(m): xs.append(pick(*xs))
            r = new(xs[0].getWidth())
            cls = rng.choice([py4hw.And, py4hw.Or])
            recipe.append((kind, lambda cls=cls, n=n, xs=xs, r=r: cls(self, n, xs, r)))
        elif kind == 'not':
            r = new(a.getWidth()); recipe.append((kind, lambda n=n, a=a, r=r: py4hw.Not(self, n, a, r)))
        elif kind == 'buf':
            r = new(a.getWidth()); recipe.append((kind, lambda n=n, a=a, r=r: py4hw.Buf(self, n, a, r)))
        elif kind in ('add', 'addco'):
            r = new(a.getWidth()); co = new(1) if kind == 'addco' else None
            recipe.append((kind, lambda n=n, a=a, b=b, r=r, co=co: py4hw.Add(self, n, a, b, r, co=co)))
            if co is not None: pool.append(co)
        elif kind == 'sub':
            r = new(a.getWidth()); recipe.append((kind, lambda n=n, a=a, b=b, r=r: py4hw.Sub(self, n, a, b, r)))
        elif kind == 'mul':
            r = new(rng.randint(1, max_w)); recipe.append((kind, lambda n=n, a=a, b=b, r=r: py4hw.Mul(self, n, a, b, r)))
        elif kind == 'neg':
            r = new(a.getWidth()); recipe.append((kind, lambda n=n, a=a, r=r: py4hw.Neg(self, n, a, r)))
        elif kind == 'abs':
            r = new(a.getWidth()); recipe.append((kind, lambda n=n, a=a, r=r: py4hw.Abs(self, n, a, r)))
        elif kind == 'equal':
            if a.getWidth() != b.getWidth():
                b = new(a.getWidth()); recipe.append(('const', lambda n=n, b=b: py4hw.Constant(self, n + 'k', 1, b)))
            r = new(1); recipe.append((kind, lambda n=n, a=a, b=b, r=r: py4hw.Equal(self, n, a, b, r)))
        elif kind == 'mux2':
            s = pick1(a, b); r = new(a.getWidth())
            recipe.append((kind, lambda n=n, s=s, a=a, b=b, r=r: py4hw.Mux2(self, n, s, a, b, r)))
        elif kind == 'range':
            hi = rng.randrange(a.getWidth()); lo = rng.randint(0, hi); r = new(hi - lo + 1)
            recipe.append((kind, lambda n=n, a=a, hi=hi, lo=lo, r=r: py4hw.Range(self, n, a, hi, lo, r)))
        elif kind == 'concat':
            r = new(a.getWidth() + b.getWidth())
            recipe.append((kind, lambda n=n, a=a, b=b, r=r: py4hw.ConcatenateMSBF(self, n, [a, b], r)))
        elif kind == 'shl':
            r = new(a.getWidth()); sh = rng.randint(0, max_w)
            recipe.append((kind, lambda n=n, a=a, sh=sh, r=r: py4hw.ShiftLeftConstant(self, n, a, sh, r)))
        elif kind == 'const':
            r = new(rng.randint(1, max_w)); v = rng.randrange(1 << r.getWidth())
            recipe.append((kind, lambda n=n, v=v, r=r: py4hw.Constant(self, n, v, r)))
        elif kind == 'sext':
            r = new(a.getWidth() + rng.randint(0, 4))
            recipe.append((kind, lambda n=n, a=a, r=r: py4hw.SignExtend(self, n, a, r)))
        elif kind == 'cmp':
            if a.getWidth() != b.getWidth():
                b = new(a.getWidth()); recipe.append(('const', lambda n=n, b=b: py4hw.Constant(self, n + 'k', 1, b)))
            gt, eq, lt = new(1), new(1), new(1)
            recipe.append((kind, lambda n=n, a=a, b=b, gt=gt, eq=eq, lt=lt: py4hw.Comparator(self, n, a, b, gt, eq, lt)))
            pool.extend([gt, eq]); r = lt; multi.append((gt, eq, lt))
        pool.append(r); recent.append(r)
    for i, q in enumerate(regs):
        cands = [w for w in pool if w.getWidth() == q.getWidth() and (w is not q or p.get('self_loop'))]
        if p.get('deep_feedback') and recent and i == 0:
            # the loop closes from the deepest logic: the feedback source ends up in the right-most instance column
            src = recent[-1]
            if src.getWidth() == q.getWidth() and rng.random() < .5: d = src
            else:
                d = new(q.getWidth()); recipe.append(('buf', lambda src=src, d=d, i=i: py4hw.Buf(self, 'rb%d' % i, src, d)))
        elif p.get('self_loop') and rng.random() < .5: d = q
        elif cands: d = rng.choice(cands)
        else:
            src = pick(); d = new(q.getWidth()); recipe.append(('buf', lambda src=src, d=d, i=i: py4hw.Buf(self, 'rb%d' % i, src, d)))
        en = pick1(d) if rng.random() < .5 else None
        rs = pick1(d, en) if rng.random() < .5 else None
        recipe.append(('reg', lambda i=i, d=d, q=q, en=en, rs=rs: py4hw.Reg(self, 'r%d' % i, d, q, enable=en, reset=rs)))
    # out-ports: driven through a Buf from a random internal wire (widths follow), or feed-through of an in-port
    for j, o in enumerate(outs):
        self.addOut('out%d' % j, o)
        src = rng.choice(pool[len(ins):] or pool)
        recipe.append(('obuf', lambda j=j, src=src, o=o: py4hw.Buf(self, 'ob%d' % j, src, o)))
    if p.get('shuffle', True): rng.shuffle(recipe)
    for _, mk in recipe: mk()
    self.recipe_kinds = [k for k, _ in recipe]


def _rand_block_class():
    py4hw = quiet_import()

    class RandBlock(py4hw.Logic):
        """ports are real InPort/OutPort objects of this block"""
        def __init__(self, parent, name, ins, outs, rng, p):
            super().__init__(parent, name)
            _populate(self, py4hw, ins, outs, rng, p)
    return RandBlock


def rand_params(rng, i):
    """parameter mix indexed by i so that every run covers all shapes"""
    shapes = [
        {'n_blocks': 3, 'n_in': 2, 'n_out': 1, 'n_regs': 0},
        {'n_blocks': 6, 'n_in': 3, 'n_out': 2, 'n_regs': 1},
        {'n_blocks': 8, 'n_in': 2, 'n_out': 2, 'n_regs': 2, 'p_far': .5, 'p_near': .4},          # deep chain + long forward edges
        {'n_blocks': 10, 'n_in': 4, 'n_out': 3, 'n_regs': 1, 'unused_in': True},
        {'n_blocks': 5, 'n_in': 1, 'n_out': 1, 'n_regs': 3, 'kinds': ['not', 'buf', 'and2', 'mux2', 'add']},     # register-heavy feedback
        {'n_blocks': 12, 'n_in': 3, 'n_out': 2, 'n_regs': 2, 'p_far': .1, 'p_near': .8},         # very deep
        {'n_blocks': 7, 'n_in': 2, 'n_out': 4, 'n_regs': 0, 'kinds': ['cmp', 'addco', 'andn', 'same2', 'const', 'par', 'not']},  # multi-output, wide fan-in, constants
        {'n_blocks': 4, 'n_in': 0, 'n_out': 1, 'n_regs': 1, 'kinds': ['const', 'not', 'add']},    # no in-ports at all
        {'n_blocks': 9, 'n_in': 5, 'n_out': 1, 'n_regs': 0, 'p_far': .7, 'p_near': .2, 'shuffle': False},
        {'n_blocks': 16, 'n_in': 3, 'n_out': 3, 'n_regs': 3},
    ]
    shapes += [
        # blocks WITHOUT out-ports (monitors / checkers): no port column to the right of the deepest instance
        {'n_blocks': 5, 'n_in': 2, 'n_out': 0, 'n_regs': 2, 'deep_feedback': True, 'p_near': .7, 'p_far': .1},
        {'n_blocks': 8, 'n_in': 3, 'n_out': 0, 'n_regs': 1, 'deep_feedback': True},
        {'n_blocks': 4, 'n_in': 1, 'n_out': 0, 'n_regs': 1, 'deep_feedback': True, 'kinds': ['add', 'not', 'buf', 'and2'], 'shuffle': False},
        {'n_blocks': 6, 'n_in': 2, 'n_out': 0, 'n_regs': 2},
        # out-ports only, loop closing from the deepest logic
        {'n_blocks': 6, 'n_in': 0, 'n_out': 2, 'n_regs': 2, 'n_const_src': 1, 'deep_feedback': True},
    ]
    p = dict(shapes[i % len(shapes)])
    if i % 50 == 49: p.update(n_blocks=rng.choice([25, 40]), n_in=4, n_out=3, n_regs=rng.choice([0, 3, 6]))      # big ones (thorough tier reaches them)
    p['max_w'] = rng.choice([1, 4, 8])
    p['distinct_pins'] = (i // len(shapes)) % 2 == 0
    return p


def build_rand(seed, p):
    py4hw = quiet_import()
    rng = random.Random(seed)
    RandBlock = _rand_block_class()
    with quiet():
        hw = py4hw.HWSystem()
        # the outer wires deliberately reuse the NAMES of the block's internal wires (t1, t2, .. / q0, ..): wires are
        # distinguished by identity, not by name, as in any hierarchy that calls its nets 'a', 'r', 'q' at every level
        ins = [hw.wire('t%d' % (i + 1), rng.randint(1, p.get('max_w', 8))) for i in range(p['n_in'])]
        # out widths are fixed after the fact by Buf (width-agnostic copy), so any width is legal
        outs = [hw.wire('q%d' % j, rng.randint(1, p.get('max_w', 8))) for j in range(p['n_out'])]
        obj = RandBlock(hw, 'dut', ins, outs, rng, p)
    return obj


def top_params(rng, i):
    """a whole port-less HWSystem is drawn (test-bench style): constants instead of inputs, nothing leaves"""
    shapes = [
        {'n_blocks': 3, 'n_regs': 1, 'n_const_src': 1, 'deep_feedback': True, 'kinds': ['add', 'not', 'buf', 'xor2']},
        {'n_blocks': 6, 'n_regs': 2, 'n_const_src': 2, 'deep_feedback': True},
        {'n_blocks': 5, 'n_regs': 1, 'n_const_src': 1, 'deep_feedback': True, 'p_near': .8, 'p_far': .1, 'shuffle': False},
        {'n_blocks': 8, 'n_regs': 0, 'n_const_src': 3},
        {'n_blocks': 10, 'n_regs': 3, 'n_const_src': 2},
        {'n_blocks': 12, 'n_regs': 2, 'n_const_src': 2, 'deep_feedback': True, 'p_near': .6},
    ]
    p = dict(shapes[i % len(shapes)])
    p.update(n_in=0, n_out=0, max_w=rng.choice([1, 4, 8]), distinct_pins=(i // len(shapes)) % 2 == 0)
    return p


def build_top(seed, p):
    py4hw = quiet_import()
    rng = random.Random(seed)
    with quiet():
        hw = py4hw.HWSystem()
        _populate(hw, py4hw, [], [], rng, p)
    return hw


def build_loop(variant):
    """the accumulator loop  nxt = acc + a ; acc <= nxt  in blocks with every combination of port sides.
    variant = (ports, order, extra): ports 'none' (a bare HWSystem drawn as a whole) | 'in' (monitor: inputs only) |
    'out' (outputs only) | 'both'; order 'add_first' | 'reg_first' (instantiation order decides which of the two ends up
    in the deeper grid column); extra = number of Bufs between the adder and the register's d pin."""
    py4hw = quiet_import()
    ports, order, extra = variant

    def fill(self, a, acc, en):
        nxt = self.wire('nxt', acc.getWidth())
        def mk_add(): py4hw.Add(self, 'sum', acc, a, nxt)
        def mk_reg():
            last = nxt
            for i in range(extra):
                b = self.wire('b%d' % i, acc.getWidth()); py4hw.Buf(self, 'buf%d' % i, last, b); last = b
            py4hw.Reg(self, 'accreg', last, acc, enable=en)
        for f in ((mk_add, mk_reg) if order == 'add_first' else (mk_reg, mk_add)): f()

    class Loop(py4hw.Logic):
        def __init__(self, parent, name, a, en, r):
            super().__init__(parent, name)
            if a is not None:
                self.addIn('a', a); self.addIn('en', en)
            else:
                a = self.wire('one', 8); py4hw.Constant(self, 'one', 1, a); en = None
            if r is not None: acc = self.addOut('r', r)
            else: acc = self.wire('acc', 8)
            fill(self, a, acc, en)
    with quiet():
        hw = py4hw.HWSystem()
        if ports == 'none':
            one = hw.wire('one', 8); py4hw.Constant(hw, 'one', 1, one)
            fill(hw, one, hw.wire('q', 8), None)
            return hw
        a, en = (hw.wire('a', 8), hw.wire('en')) if ports in ('in', 'both') else (None, None)
        r = hw.wire('r', 8) if ports in ('out', 'both') else None
        return Loop(hw, 'dut', a, en, r)


LOOPS = [(ports, order, extra) for ports in ('none', 'in', 'out', 'both') for order in ('add_first', 'reg_first') for extra in (0, 2)]


def build_par(variant):
    """PARALLEL long edges: k (2 or 3) DIFFERENT wires run from one multi-output child to ONE sink that sits `dist` grid
    columns further right.  The sink is pushed right by its last input, which arrives through a chain of `dist` Bufs on
    another path, so the k direct edges each need dist-1 pass-through markers.
    variant = (src, k, dist): src 'cmp' Comparator gt/eq/lt | 'bits' BitsLSBF b0/b1/b2 | 'addco' Add r + co (into a Mux2:
    co selects, r is a data input; k is 2) | 'leaf' a custom primitive with k 1-bit outputs."""
    py4hw = quiet_import()
    src, k, dist = variant

    class Leaf(py4hw.Logic):
        def __init__(self, parent, name, a, outs):
            super().__init__(parent, name)
            self.a = self.addIn('a', a); self.outs = [self.addOut('o%d' % i, o) for i, o in enumerate(outs)]
        def propagate(self):
            for i, o in enumerate(self.outs): o.put((self.a.get() >> i) & 1)

    class Par(py4hw.Logic):
        def __init__(self, parent, name, a, b, r):
            super().__init__(parent, name)
            self.addIn('a', a); self.addIn('b', b); self.addOut('r', r)
            w = a.getWidth()
            last = b
            for i in range(dist):                       # the slow path: b -> Buf x dist (columns 1 .. dist)
                nx = self.wire('c%d' % i, w); py4hw.Buf(self, 'buf%d' % i, last, nx); last = nx
            if src == 'addco':
                s, co = self.wire('s', w), self.wire('co')
                py4hw.Add(self, 'src', a, b, s, co=co)                         # column 1, outputs r and co
                py4hw.Mux2(self, 'sink', co, s, last, r)                       # column dist+1
                return
            far = self.wire('far'); py4hw.Bit(self, 'farbit', last, 0, far)     # column dist+1
            outs = [self.wire(nm) for nm in (('gt', 'eq', 'lt') if src == 'cmp' else ['o%d' % i for i in range(w if src == 'bits' else 3)])]
            if src == 'cmp': py4hw.Comparator(self, 'src', a, b, *outs)
            elif src == 'bits': py4hw.BitsLSBF(self, 'src', a, outs)
            else: Leaf(self, 'src', a, outs)
            use = [outs[0], outs[2]] if k == 2 else outs[:3]          # (the 4th bit of BitsLSBF stays unread)
            py4hw.Or(self, 'sink', use + [far], r)                              # column dist+2
    with quiet():
        hw = py4hw.HWSystem()
        w = 4
        obj = Par(hw, 'dut', hw.wire('a', w), hw.wire('b', w), hw.wire('r', w if src == 'addco' else 1))
    return obj


PARS = [(src, k, dist) for src in ('cmp', 'bits', 'leaf') for k in (2, 3) for dist in (1, 2, 3)] + [('addco', 2, d) for d in (2, 3, 4)]


def build_gate(variant):
    """symbol gallery: ONE child of a given class / arity between real in-ports and out-ports, one port per pin, so that every
    pin of every symbol class the schematic knows (and of the generic instance box) is wired to its own wire.
    variant = (cls, n, w): class name, number of inputs (where the class takes a list) or option selector, data width."""
    py4hw = quiet_import()
    import py4hw.logic.bitwise as B
    import py4hw.logic.relational as R
    cls, n, w = variant

    class Gate(py4hw.Logic):
        def __init__(self, parent, name, hw):
            super().__init__(parent, name)
            I = lambda nm, wd=w: self.addIn(nm, hw.wire('i_' + nm, wd))
            O = lambda nm, wd=w: self.addOut(nm, hw.wire('o_' + nm, wd))
            if cls in ('And', 'Or', 'Nor', 'Xor'):
                getattr(B, cls)(self, 'g', [I('x%d' % i) for i in range(n)], O('r'))
            elif cls in ('And2', 'Or2', 'Nor2', 'Xor2', 'Nand2'):
                getattr(B, cls)(self, 'g', I('a'), I('b'), O('r'))
            elif cls in ('Not', 'Buf'):
                getattr(B, cls)(self, 'g', I('a'), O('r'))
            elif cls == 'Bit': B.Bit(self, 'g', I('a'), w - 1, O('r', 1))
            elif cls == 'Range': B.Range(self, 'g', I('a'), w - 1, 0, O('r'))
            elif cls == 'Mux2': B.Mux2(self, 'g', I('s', 1), I('a'), I('b'), O('r'))
            elif cls in ('Add', 'Sub', 'Mul'):
                if cls == 'Add':        # n: 0 plain, 1 carry out, 2 carry in + carry out
                    py4hw.Add(self, 'g', I('a'), I('b'), O('r'), ci=I('ci', 1) if n == 2 else None, co=O('co', 1) if n >= 1 else None)
                else: getattr(py4hw, cls)(self, 'g', I('a'), I('b'), O('r'))
            elif cls == 'Reg':          # n: 0 d only, 1 + enable, 2 + enable + reset
                py4hw.Reg(self, 'g', I('d'), O('q'), enable=I('e', 1) if n >= 1 else None, reset=I('rs', 1) if n >= 2 else None)
            elif cls == 'Comparator': R.Comparator(self, 'g', I('a'), I('b'), O('gt', 1), O('eq', 1), O('lt', 1))
            elif cls == 'BitsLSBF': B.BitsLSBF(self, 'g', I('a'), [O('b%d' % i, 1) for i in range(w)])
            elif cls == 'Concat': B.ConcatenateMSBF(self, 'g', [I('x%d' % i) for i in range(n)], O('r', n * w))
            elif cls == 'Swap': R.Swap(self, 'g', I('a'), I('b'), I('s', 1), O('ra'), O('rb'))
            else: raise ValueError(cls)
    with quiet():
        hw = py4hw.HWSystem()
        obj = Gate(hw, 'dut', hw)
    return obj


GATES = ([(c, n, 1) for c in ('And', 'Or') for n in (2, 3, 8, 9, 12, 17)] + [(c, n, 4) for c in ('Nor', 'Xor') for n in (2, 9)] +
         [(c, 0, 4) for c in ('And2', 'Or2', 'Nor2', 'Xor2', 'Nand2', 'Not', 'Buf', 'Bit', 'Range', 'Mux2', 'Sub', 'Mul', 'Comparator', 'Swap')] +
         [('Add', k, 8) for k in (0, 1, 2)] + [('Reg', k, 4) for k in (0, 1, 2)] + [('BitsLSBF', 0, 10), ('Concat', 9, 2), ('Or', 33, 1)])


def build_dup(variant):
    """ONE wire on SEVERAL input pins of the same child (and a child's own output on two of its inputs), for box symbols and gate
    symbols alike.  variant = (cls, pattern): pattern says which in-port wire (a, b, c ..; q = the child's own output) goes to
    each input of the child."""
    py4hw = quiet_import()
    import py4hw.logic.bitwise as B
    import py4hw.logic.relational as R
    cls, pat = variant
    w = 4

    class Dup(py4hw.Logic):
        def __init__(self, parent, name, hw):
            super().__init__(parent, name)
            width = {'s': 2 if cls == 'Mux4' else 1}
            srcs = {}
            def W(ch):
                if ch not in srcs:
                    if ch == 'q': srcs[ch] = self.wire('q', 1 if cls == 'Reg' and pat in ('dqq',) else w)
                    else: srcs[ch] = self.addIn(ch, hw.wire('i_' + ch, width.get(ch, 1 if (cls, ch) in (('Reg', 'e'), ('Mux2', 's'), ('Swap', 's'), ('Select', 'e'), ('Select', 'f')) else w)))
                return srcs[ch]
            O = lambda nm, wd=w: self.addOut(nm, hw.wire('o_' + nm, wd))
            if cls == 'Mux4': B.Mux(self, 'g', W('s'), [W(ch) for ch in pat], O('r'))
            elif cls == 'Comparator': R.Comparator(self, 'g', W(pat[0]), W(pat[1]), O('gt', 1), O('eq', 1), O('lt', 1))
            elif cls == 'Swap': R.Swap(self, 'g', W(pat[0]), W(pat[1]), W('s'), O('ra'), O('rb'))
            elif cls == 'Select': B.Select(self, 'g', [W('e'), W('e'), W('f')], [W(ch) for ch in pat], O('r'))
            elif cls == 'Reg':
                if pat == 'dee': py4hw.Reg(self, 'g', W('d'), O('q'), enable=W('e'), reset=W('e'))        # enable and reset on one wire
                elif pat == 'dqq':                                                                          # own output on enable AND reset
                    q = W('q'); py4hw.Reg(self, 'pre', W('d'), self.wire('p', 1)) ; py4hw.Reg(self, 'g', self.children['pre'].outPorts[0].wire, q, enable=q, reset=q)
                    py4hw.Buf(self, 'ob', q, O('r', 1))
                else: raise ValueError(pat)
            elif cls in ('And', 'Or', 'Xor', 'Nor'): getattr(B, cls)(self, 'g', [W(ch) for ch in pat], O('r'))
            elif cls in ('And2', 'Xor2', 'Add', 'Sub'): getattr(py4hw, cls)(self, 'g', W(pat[0]), W(pat[1]), O('r'))
            elif cls == 'Mux2': B.Mux2(self, 'g', W('s'), W(pat[0]), W(pat[1]), O('r'))
            elif cls == 'Concat': B.ConcatenateMSBF(self, 'g', [W(ch) for ch in pat], O('r', w * len(pat)))
            else: raise ValueError(cls)
    with quiet():
        hw = py4hw.HWSystem()
        obj = Dup(hw, 'dut', hw)
    return obj


DUPS = [('Mux4', 'abbc'), ('Mux4', 'aaaa'), ('Mux4', 'abab'), ('Comparator', 'aa'), ('Swap', 'aa'), ('Select', 'aba'), ('Reg', 'dee'), ('Reg', 'dqq'),
        ('And', 'aab'), ('Or', 'abab'), ('Xor', 'aba'), ('Nor', 'aab'), ('And2', 'aa'), ('Xor2', 'aa'), ('Add', 'aa'), ('Sub', 'aa'), ('Mux2', 'aa'),
        ('Concat', 'abba')]


def build_selfloop(variant):
    """the smallest netlists with feedback through a register: a child whose output is wired straight to one of its
    own inputs.  variant: which pin ('e' enable, 'r' reset, 'd' data) and how many buffers sit between the in-port and
    the register (0 puts the register in grid column 1)."""
    py4hw = quiet_import()
    pin, depth = variant

    class SelfLoop(py4hw.Logic):
        def __init__(self, parent, name, d, q):
            super().__init__(parent, name)
            self.addIn('d', d); self.addOut('q', q)
            last = d
            for i in range(depth):
                nxt = self.wire('b%d' % i, d.getWidth()); py4hw.Buf(self, 'buf%d' % i, last, nxt); last = nxt
            if pin == 'e': py4hw.Reg(self, 'r', last, q, enable=q)
            elif pin == 'r': py4hw.Reg(self, 'r', last, q, reset=q)
            else: py4hw.Reg(self, 'r', q, q, enable=last)
    with quiet():
        hw = py4hw.HWSystem()
        obj = SelfLoop(hw, 'dut', hw.wire('d'), hw.wire('q'))
    return obj


SELFLOOPS = [('e', 0), ('r', 0), ('d', 0), ('e', 1), ('e', 3), ('d', 2)]


def build(recipe):
    if recipe[0] == 'lib': return build_lib(recipe[1], tuple(recipe[2]))
    if recipe[0] == 'selfloop': return build_selfloop(tuple(recipe[1]))
    if recipe[0] == 'loop': return build_loop(tuple(recipe[1]))
    if recipe[0] == 'par': return build_par(tuple(recipe[1]))
    if recipe[0] == 'gate': return build_gate(tuple(recipe[1]))
    if recipe[0] == 'dup': return build_dup(tuple(recipe[1]))
    if recipe[0] == 'top': return build_top(recipe[1], recipe[2])
    if recipe[0] == 'rand': return build_rand(recipe[1], recipe[2])
    raise ValueError(recipe)
