"""Design families with several interacting sequential blocks (used by the C05 and C10 checks), the schedule
permutation / clk-splitting drivers, and the harness-owned snapshot-then-apply reference simulator.

Every builder is deterministic in (family, seed): the same call builds an identical fresh design (py4hw keeps the
state inside the objects, so every schedule needs its own instance).  Wires are enumerated by netlist.all_wires,
whose order is deterministic as well, so traces of two instances are comparable position by position."""
import random
import common, netlist
from common import quiet, quiet_import


def P():
    return quiet_import()


def assign(obj, drv):
    """obj.clockDriver = drv, and the harness's OWN record of that configuration step (`_vf_driver`).  The oracles
    read only the record: the library is free to read obj.clockDriver but must not make lookups depend on anything
    else (e.g. on values it cached there during an earlier lookup)."""
    obj.clockDriver = drv
    obj._vf_driver = drv


def new_hw():
    py4hw = P()
    hw = py4hw.HWSystem()
    hw._vf_driver = hw.clockDriver          # the default system driver, recorded before any lookup
    return hw


def box(parent, name, driver=None):
    """a structural container; with driver != None everything below it is in that clock domain"""
    py4hw = P()
    b = py4hw.Logic(parent, name)
    if driver is not None:
        assign(b, driver)
    return b


DRIVER_NAMES = ['gclk', 'gclk', 'gclk', 'clk', 'clk_a', 'clk_b']     # collisions on purpose: drivers are distinct OBJECTS


def domains_for(hw, rng, domains, ins):
    """`domains - 1` extra clock drivers (plain, or gated by a poked wire) on boxes below hw.  Names are drawn from a
    small pool, so several distinct drivers (different enable wires) share a name, and some share it with the
    system driver; all have the system driver as base, hence the same freq / phase."""
    py4hw = P()
    doms, parents = {}, [hw]
    for k in range(1, domains):
        gate = None
        u = rng.random()
        if u < .35:
            gate = hw.wire('gate%d' % k, 1); ins.append(gate)
        elif u < .75:
            # an enable DERIVED FROM THE CIRCUIT: a free-running toggle register of the system domain (q <= ~q), used directly, or
            # combined with a poked wire by a gate.  Such an enable changes in the middle of a clk(n) call, n >= 2, so a
            # multi-cycle call must look at it before EVERY edge exactly as n single-cycle calls do.
            tq = hw.wire('gtog%d_q' % k, 1); tn = hw.wire('gtog%d_n' % k, 1)
            py4hw.Not(hw, 'gtog%d_inv' % k, tq, tn)
            py4hw.Reg(hw, 'gtog%d' % k, tn, tq)
            if u < .55:
                gate = tq
            else:
                pk = hw.wire('gate%d' % k, 1); ins.append(pk)
                gate = hw.wire('gcomb%d' % k, 1)
                (py4hw.And2 if u < .65 else py4hw.Or2)(hw, 'gcomb%d_g' % k, pk, tq, gate)
        drv = py4hw.ClockDriver(rng.choice(DRIVER_NAMES), base=hw.clockDriver, enable=gate)
        doms['dom%d' % k] = (drv, gate)
        parents.append(box(hw, 'dom%d' % k, drv))
    return doms, parents


def net(hw, name, width, rng, p_bidir=.3):
    """an output net of a sequential block: an ordinary Wire or (p_bidir) a BidirWire, the net type py4hw offers for
    shared / bidirectional nets.  Both must go through the same prepare / settle machinery."""
    if rng.random() < p_bidir:
        return hw.bidir_wire(name, width)
    return hw.wire(name, width)


class Built:
    """hw, the wires the stimulus pokes, a description, the clock drivers created (name -> (driver, enable wire))"""
    def __init__(self, hw, ins, info, doms=None, dumpable=True):
        self.hw, self.ins, self.info, self.doms, self.dumpable = hw, ins, info, doms or {}, dumpable


# ------------------------------------------------------------------------------------------------ families
def fam_chain(rng, domains=1):
    """shift chain of N registers with a ring-closing multiplexer (feedback), optional shared enable / reset,
    plus a subtractor observing two taps.  With domains > 1 the registers are spread over several clock
    drivers (ungated, or gated by a poked wire), so the chain crosses domain boundaries.  Register outputs are
    ordinary or bidirectional nets."""
    py4hw = P()
    hw = new_hw()
    W = rng.randint(1, 8); N = rng.randint(2, 7)
    din, sel = hw.wire('din', W), hw.wire('sel', 1)
    ins = [din, sel]
    en = rs = None
    if rng.random() < .5: en = hw.wire('en', 1); ins.append(en)
    if rng.random() < .5: rs = hw.wire('rs', 1); ins.append(rs)
    doms, parents = domains_for(hw, rng, domains, ins)
    q = [net(hw, 'q%d' % i, W, rng) for i in range(N)]
    d0 = hw.wire('d0', W)
    order = list(range(N)); rng.shuffle(order)          # creation order != chain order
    py4hw.Mux2(hw, 'ring', sel, din, q[N - 1], d0)
    for i in order:
        par = parents[rng.randrange(len(parents))]
        rv = rng.choice([None, 0, 1, (1 << W) - 1, rng.randrange(1 << W)])
        py4hw.Reg(par, 'r%d' % i, d0 if i == 0 else q[i - 1], q[i], enable=en if rng.random() < .7 else None,
                  reset=rs if rng.random() < .7 else None, reset_value=rv)
    diff = hw.wire('diff', W)
    py4hw.Sub(hw, 'diff', q[0], q[N - 1], diff)
    return Built(hw, ins, {'family': 'chain', 'W': W, 'N': N, 'domains': domains}, doms)


def fam_swap(rng, domains=1):
    """two registers exchanging their values, a third accumulating their product: the textbook case where a
    register that wrote its output immediately would be visible"""
    py4hw = P()
    hw = new_hw()
    W = rng.randint(2, 8)
    load, a0, b0 = hw.wire('load', 1), hw.wire('a0', W), hw.wire('b0', W)
    ins = [load, a0, b0]
    doms, parents = domains_for(hw, rng, domains, ins)
    qa, qb, acc = (net(hw, n, W, rng) for n in ('qa', 'qb', 'acc'))
    da, db, prod = (hw.wire(n, W) for n in ('da', 'db', 'prod'))
    py4hw.Mux2(hw, 'ma', load, qb, a0, da)
    py4hw.Mux2(hw, 'mb', load, qa, b0, db)
    pick = lambda: parents[rng.randrange(len(parents))]
    mk = [lambda: py4hw.Reg(pick(), 'ra', da, qa), lambda: py4hw.Reg(pick(), 'rb', db, qb),
          lambda: py4hw.Reg(pick(), 'racc', prod, acc)]
    rng.shuffle(mk)
    for m in mk: m()
    py4hw.Mul(hw, 'mul', qa, qb, prod)
    return Built(hw, ins, {'family': 'swap', 'W': W, 'domains': domains}, doms)


def fam_mem(rng, domains=1):
    """synchronous memory whose write address is a register-based counter, read address a delayed copy of it,
    write data from a register and the read port captured by another register"""
    py4hw = P()
    hw = new_hw()
    AW = rng.randint(1, 4); DW = rng.randint(1, 8)
    we, wd, inc = hw.wire('we', 1), hw.wire('wd', DW), hw.wire('inc', 1)
    ins = [we, wd, inc]
    doms, parents = domains_for(hw, rng, domains, ins)
    pick = lambda: parents[rng.randrange(len(parents))]
    wa, wan, ra, zero = net(hw, 'wa', AW, rng), hw.wire('wan', AW), net(hw, 'ra', AW, rng), hw.wire('zero', AW)
    wdr, rdata, rq = net(hw, 'wdr', DW, rng), net(hw, 'rdata', DW, rng), net(hw, 'rq', DW, rng)
    py4hw.Constant(hw, 'zero', 0, zero)
    py4hw.AddCarryIn(hw, 'next', wa, zero, wan, inc)           # wa + 0 + inc
    mk = [lambda: py4hw.Reg(pick(), 'rwa', wan, wa), lambda: py4hw.Reg(pick(), 'rra', wa, ra),
          lambda: py4hw.Reg(pick(), 'rwd', wd, wdr), lambda: py4hw.Reg(pick(), 'rrq', rdata, rq),
          lambda: py4hw.logic.storage.SynchronousMemory(pick(), 'mem', ra, wa, we, rdata, wdr)]
    rng.shuffle(mk)
    for m in mk: m()
    return Built(hw, ins, {'family': 'mem', 'AW': AW, 'DW': DW, 'domains': domains}, doms)


def fam_counter(rng, domains=1):
    """two library Counters (structural: Reg + Add + Mux2), the second one advanced by bit 0 of the first, and a
    register sampling both.  Add is not a translated class, so this family is compared against the
    snapshot-then-apply reference and across schedules only (no Coq model)."""
    py4hw = P()
    hw = new_hw()
    W1, W2 = rng.randint(1, 4), rng.randint(1, 5)
    rst, inc = hw.wire('rst', 1), hw.wire('inc', 1)
    ins = [rst, inc]
    doms, parents = domains_for(hw, rng, domains, ins)
    pick = lambda: parents[rng.randrange(len(parents))]
    q1, q2, b0, cat, s = hw.wire('q1', W1), hw.wire('q2', W2), hw.wire('b0', 1), hw.wire('cat', W1 + W2), hw.wire('s', W1 + W2)
    mk = [lambda: py4hw.Counter(pick(), 'c1', rst, inc, q1), lambda: py4hw.Counter(pick(), 'c2', rst, b0, q2),
          lambda: py4hw.Reg(pick(), 'rs', cat, s)]
    rng.shuffle(mk)
    for m in mk: m()
    py4hw.Bit(hw, 'b0', q1, 0, b0)
    py4hw.ConcatenateMSBF(hw, 'cat', [q1, q2], cat)
    return Built(hw, ins, {'family': 'counter', 'W1': W1, 'W2': W2, 'domains': domains}, doms, dumpable=False)


def fam_fsm(rng, domains=1):
    """the HIL command interpreter: CMDRequest + the selection registers it enables + CMDResponse + UARTSerializer
    (+ AutoReset), wired as in py4hw/emulation/HILWrapperUART.py.  Several FSM blocks exchanging handshakes
    through wires they prepare."""
    py4hw = P()
    from py4hw.emulation.HILWrapperUART import CMDRequest, CMDResponse
    from py4hw.logic.protocol.uart.serdes import UARTSerializer
    from py4hw.logic.clock import AutoReset
    hw = new_hw()
    valid, c, tick = hw.wire('valid', 1), hw.wire('c', 8), hw.wire('tick', 1)
    ins = [valid, c, tick]
    doms, parents = domains_for(hw, rng, domains, ins)
    pick = lambda: parents[rng.randrange(len(parents))]
    ready = hw.wire('ready', 1)
    index_in, v_in, index_out = hw.wire('index_in', 8), hw.wire('v_in', 32), hw.wire('index_out', 8)
    set_index_in, set_v_in, set_index_out = hw.wire('set_index_in', 1), hw.wire('set_v_in', 1), hw.wire('set_index_out', 1)
    clk_pulse, start_resp = hw.wire('clk_pulse', 1), hw.wire('start_resp', 1)
    index_in_r, index_out_r, set_index_out_r, v_in_r = hw.wire('index_in_r', 8), hw.wire('index_out_r', 8), hw.wire('set_index_out_r', 1), hw.wire('v_in_r', 32)
    size, ser_ready, ser_valid, ser_v, tx, arst = hw.wire('size', 8), hw.wire('ser_ready', 1), hw.wire('ser_valid', 1), hw.wire('ser_v', 8), hw.wire('tx', 1), hw.wire('arst', 1)
    py4hw.Constant(hw, 'size', 8, size)
    mk = [lambda: CMDRequest(pick(), 'cmd_req', ready, valid, c, index_in, v_in, index_out, set_index_in, set_v_in, set_index_out, clk_pulse, start_resp),
          lambda: py4hw.Reg(pick(), 'index_in_r', d=index_in, enable=set_index_in, q=index_in_r),
          lambda: py4hw.Reg(pick(), 'index_out_r', d=index_out, enable=set_index_out, q=index_out_r),
          lambda: py4hw.Reg(pick(), 'set_index_out_r', d=set_index_out, q=set_index_out_r),
          lambda: py4hw.Reg(pick(), 'v_in_r', d=v_in, enable=set_v_in, q=v_in_r, reset=arst),
          lambda: CMDResponse(pick(), 'cmd_resp', v_in_r, size, start_resp, ser_ready, ser_valid, ser_v),
          lambda: UARTSerializer(pick(), 'ser', ser_ready, ser_valid, ser_v, tick, tx),
          lambda: AutoReset(pick(), 'arst', arst)]
    rng.shuffle(mk)
    for m in mk: m()
    return Built(hw, ins, {'family': 'fsm', 'domains': domains}, doms)


_USER = {}
def user_blocks():
    """clocked blocks as a USER of the library writes them: defaults first and an override in a branch (the same output
    prepared twice in one edge: the LAST prepare must win), and a Reg subclass that calls super().clock() and then
    overrides q."""
    if _USER: return _USER
    py4hw = P()

    class Arbiter(py4hw.Logic):
        def __init__(self, parent, name, req0, req1, grant, owner):
            super().__init__(parent, name)
            self.req0 = self.addIn('req0', req0); self.req1 = self.addIn('req1', req1)
            self.grant = self.addOut('grant', grant); self.owner = self.addOut('owner', owner)
            self.last = 0
        def clock(self):
            self.grant.prepare(0)                       # defaults ...
            self.owner.prepare(self.last)
            if self.req0.get():                         # ... overridden in branches
                self.grant.prepare(1); self.owner.prepare(1); self.last = 1
            elif self.req1.get():
                self.grant.prepare(1); self.owner.prepare(2); self.last = 2

    class OverrideReg(py4hw.Reg):
        def __init__(self, parent, name, d, q, force, forced_value):
            super().__init__(parent, name, d, q)
            self.force = self.addIn('force', force)
            self.forced_value = forced_value
        def clock(self):
            super().clock()                             # prepares q with d ...
            if self.force.get():
                self.q.prepare(self.forced_value)       # ... and overrides it in the same edge

    class Saturator(py4hw.Logic):
        def __init__(self, parent, name, x, r, limit):
            super().__init__(parent, name)
            self.x = self.addIn('x', x); self.r = self.addOut('r', r); self.limit = limit; self.acc = 0
        def clock(self):
            self.acc = self.acc + self.x.get()
            self.r.prepare(self.acc)
            if self.acc > self.limit:
                self.acc = self.limit
                self.r.prepare(self.limit)
    _USER.update(Arbiter=Arbiter, OverrideReg=OverrideReg, Saturator=Saturator)
    return _USER


def fam_zoo(rng, domains=1):
    """the clocked library blocks that the other families do not use, each wired between producers and consumers that are
    created in random order: stimulus generators (Sequence, wrapping and one-shot, 1-5 values), capture blocks
    (StreamCapture, StreamCaptureSigned), DualPortSynchronousMemory, UARTDeserializer, ClockSyncFSM, MsgSequencer,
    Axi2ClkFSM, VitisKernelFSM, intel_lpm_counter, and user-written blocks (user_blocks(): an output prepared twice in one edge,
    a Reg subclass overriding q after super().clock()).  Every output feeds a register (a consumer visited before or after the
    producer, depending on the schedule); inputs come from poked wires or from other blocks' outputs.  Most of these
    classes are not translated to Coq, so this family is compared with the snapshot reference and across schedules."""
    py4hw = P()
    from py4hw.logic.simulation import Sequence, StreamCapture, StreamCaptureSigned
    from py4hw.logic.storage import DualPortSynchronousMemory
    from py4hw.logic.protocol.uart.serdes import UARTDeserializer
    from py4hw.logic.protocol.uart.clock import ClockSyncFSM
    from py4hw.logic.protocol.uart.sequencer import MsgSequencer
    from py4hw.emulation.vitiswrapping import Axi2ClkFSM, VitisKernelFSM
    from py4hw.external.intel.ip.lpm import intel_lpm_counter
    hw = new_hw()
    ins = []
    doms, parents = domains_for(hw, rng, domains, ins)
    pick = lambda: parents[rng.randrange(len(parents))]
    cnt = [0]
    pool = {}                      # width -> wires usable as inputs
    def src(wd):
        c = pool.get(wd, [])
        if c and rng.random() < .7: return rng.choice(c)
        cnt[0] += 1
        w = hw.wire('in%d_%d' % (wd, cnt[0]), wd); ins.append(w); pool.setdefault(wd, []).append(w); return w
    def out(wd):
        cnt[0] += 1
        w = net(hw, 'o%d_%d' % (wd, cnt[0]), wd, rng); return w
    recipe, outs = [], []
    def produced(w):
        outs.append(w)
    U = user_blocks()
    kinds = ['seq', 'seq', 'seq_once', 'seq_once', 'cap', 'caps', 'dpmem', 'des', 'sync', 'msg', 'axi', 'vitis', 'lpm', 'arb', 'arb', 'ovreg', 'ovreg', 'sat']
    chosen = [rng.choice(kinds) for _ in range(rng.randint(3, 6))]
    if not any(k.startswith('seq') for k in chosen): chosen.append('seq_once')
    if not any(k in ('arb', 'ovreg', 'sat') for k in chosen): chosen.append(rng.choice(['arb', 'ovreg', 'sat']))
    for j, k in enumerate(chosen):
        n = '%s%d' % (k, j)
        if k in ('seq', 'seq_once'):
            wd = rng.randint(1, 8); r = out(wd); produced(r)
            vals = [rng.randrange(1, 1 << wd) if wd > 1 else rng.randrange(2) for _ in range(rng.randint(1, 5))]
            recipe.append(lambda n=n, vals=vals, r=r, k=k: Sequence(pick(), n, vals, r, once=(k == 'seq_once')))
        elif k in ('cap', 'caps'):
            x = None
            def mk(n=n, k=k):
                x = rng.choice(outs) if outs else src(4)
                (StreamCapture if k == 'cap' else StreamCaptureSigned)(pick(), n, x)
            recipe.append(mk)
        elif k == 'dpmem':
            aw, dw = rng.randint(1, 3), rng.randint(1, 8)
            ra, wa, we, wd_ = src(aw), src(aw), src(1), src(dw); rda = out(dw)
            rb, wb, web, wdb = src(aw), src(aw), src(1), src(dw); rdb = out(dw)
            produced(rda); produced(rdb)
            recipe.append(lambda n=n, a=(ra, wa, we, rda, wd_, rb, wb, web, rdb, wdb): DualPortSynchronousMemory(pick(), n, *a))
        elif k == 'des':
            rx, smp, rdy = src(1), src(1), src(1); valid, v, desync = out(1), out(8), out(1)
            produced(valid); produced(v)
            recipe.append(lambda n=n, a=(rx, smp, rdy, valid, v, desync): UARTDeserializer(pick(), n, *a))
        elif k == 'sync':
            st, sp = src(1), src(1); sy, ac = out(1), out(1); produced(sy); produced(ac)
            recipe.append(lambda n=n, a=(st, sp, sy, ac): ClockSyncFSM(pick(), n, *a))
        elif k == 'msg':
            rdy = src(1); valid, v = out(1), out(8); produced(valid); produced(v)
            recipe.append(lambda n=n, a=(rdy, valid, v): MsgSequencer(pick(), n, a[0], a[1], a[2], 'Hi!\n'))
        elif k == 'axi':
            ah, tgt, rst = src(1), src(4), src(1); cc, co, lo = out(4), out(1), out(1); produced(cc); produced(co)
            recipe.append(lambda n=n, a=(ah, tgt, rst, cc, co, lo): Axi2ClkFSM(pick(), n, *a))
        elif k == 'vitis':
            st, rs, lo, sent = src(1), src(1), src(1), src(1); done, idle, ready = out(1), out(1), out(1); produced(done); produced(ready)
            recipe.append(lambda n=n, a=(st, rs, done, idle, ready, lo, sent): VitisKernelFSM(pick(), n, *a))
        elif k == 'arb':
            r0, r1 = src(1), src(1); g, ow = out(1), out(2); produced(g); produced(ow)
            recipe.append(lambda n=n, a=(r0, r1, g, ow): U['Arbiter'](pick(), n, *a))
        elif k == 'ovreg':
            wd = rng.randint(2, 8); d, f = src(wd), src(1); qq = out(wd); produced(qq)
            fv = rng.randrange(1, 1 << wd)
            recipe.append(lambda n=n, d=d, qq=qq, f=f, fv=fv: U['OverrideReg'](pick(), n, d, qq, f, fv))
        elif k == 'sat':
            wd = rng.randint(3, 8); x = src(2); r = out(wd); produced(r)
            recipe.append(lambda n=n, x=x, r=r, lim=(1 << wd) - 2: U['Saturator'](pick(), n, x, r, lim))
        elif k == 'lpm':
            rs = src(1); qq = out(rng.randint(1, 6)); produced(qq)
            recipe.append(lambda n=n, rs=rs, qq=qq: intel_lpm_counter(pick(), n, rs, qq))
    # consumers: one or two registers per produced output, chained
    for j, w in enumerate(list(outs)):
        q1 = net(hw, 'c%d_a' % j, w.getWidth(), rng); q2 = net(hw, 'c%d_b' % j, w.getWidth(), rng)
        recipe.append(lambda j=j, w=w, q1=q1: py4hw.Reg(pick(), 'c%d_a' % j, w, q1))
        if rng.random() < .6:
            recipe.append(lambda j=j, q1=q1, q2=q2: py4hw.Reg(pick(), 'c%d_b' % j, q1, q2))
    rng.shuffle(recipe)
    for mk in recipe: mk()
    return Built(hw, ins, {'family': 'zoo', 'blocks': chosen, 'domains': domains}, doms, dumpable=False)


def fam_random(rng, domains=1):
    import designs
    hw, ins, info = designs.build_random(rng, n_blocks=rng.randint(4, 12), n_inputs=rng.randint(1, 3))
    return Built(hw, ins, {'family': 'random', 'blocks': info['blocks'], 'domains': 1}, {})


FAMILIES = {'zoo': fam_zoo, 'chain': fam_chain, 'swap': fam_swap, 'mem': fam_mem, 'counter': fam_counter, 'fsm': fam_fsm, 'random': fam_random}


def build(family, seed, domains=1):
    rng = random.Random(seed)
    if family not in FAMILIES:
        from props import c10_designs        # registers the 'hier' family
    with quiet():
        b = FAMILIES[family](rng, domains)
    b.family, b.seed, b.domains = family, seed, domains
    return b


# ------------------------------------------------------------------------------------------------ stimulus
FSM_TEXT = 'I0=1A2B!O0?I1=FFFFFFFF!O1?xI2=0!O2?'

def stimulus(b, rng, n_steps, max_clk=3):
    """list of (pokes [(input position, value)], ncycles).  Values include out-of-range ones (masked by put)."""
    steps = []
    for t in range(n_steps):
        pokes = []
        for i, w in enumerate(b.ins):
            wd = w.getWidth()
            if b.info['family'] == 'fsm' and w.name == 'c':
                v = ord(FSM_TEXT[(t // 2) % len(FSM_TEXT)])
            elif w.name.startswith('gate') and wd > 1:
                v = rng.choice([0, 0, 1, 2, (1 << wd) - 1, 1 << (wd - 1)])
            elif w.name.startswith('gate') or w.name in ('en', 'valid', 'tick', 'we', 'inc', 'sel', 'load'):
                v = rng.choice([0, 1, 1, 1])
            elif w.name in ('rs', 'rst'):
                v = rng.choice([0, 0, 0, 0, 1])
            else:
                v = rng.choice([0, 1, (1 << wd) - 1, rng.randrange(1 << wd), rng.randrange(1 << wd), -1, (1 << wd) + 3])
            if t == 0 or rng.random() < .7:
                pokes.append((i, v))
        steps.append((pokes, rng.choice([1, 1, 1, 2, 3][:max(1, max_clk + 2)]) if max_clk > 1 else 1))
    return steps


def split(n, rng):
    """n = a1 + ... + ak, ai >= 0 (an occasional 0: clk(0) is just a propagateAll)"""
    parts = []
    left = n
    while left > 0:
        a = rng.randint(0 if rng.random() < .15 else 1, left)
        parts.append(a); left -= a
    if not parts: parts = [0]
    return parts


# ------------------------------------------------------------------------------------------------ instances
def clockable_key(leaf):
    return leaf.getFullPath()


def leaf_state(leaf):
    """the Python-side state of a sequential leaf: every attribute that is an int / list of ints / bool
    (ports, wires and structural attributes excluded)"""
    out = {}
    for k, v in sorted(vars(leaf).items()):
        if k in ('name',): continue
        if isinstance(v, bool) or isinstance(v, int): out[k] = int(v)
        elif isinstance(v, list) and all(isinstance(x, int) for x in v) and k not in ('inPorts', 'outPorts'): out[k] = list(v)
    return out


class Instance:
    """one live copy of a design, its simulator, and the bookkeeping the oracles need"""
    def __init__(self, b):
        self.b = b
        with quiet():
            self.sim = b.hw.getSimulator()          # NEVER call hw.getSimulator() again: it re-sorts and resets the schedule
        self.wires = netlist.all_wires(b.hw)
        self.pos = {id(w): i for i, w in enumerate(self.wires)}
        self.clockables = [l for cds in self.sim.clockDrivers.values() for l in cds.clockables]
        self.expected_clks = self.sim.total_clks

    def values(self):
        return [w.get() for w in self.wires]

    def states(self):
        return {clockable_key(l): leaf_state(l) for l in self.clockables}

    def schedule(self):
        """[(driver name, enable wire position or None, [leaf paths])] in visit order"""
        return [(drv.name, None if drv.enable is None else self.pos[id(drv.enable)], [clockable_key(l) for l in cds.clockables])
                for drv, cds in self.sim.clockDrivers.items()]

    def permute(self, how, rng):
        """permute the clockables within each driver AND the dict order of the drivers"""
        items = list(self.sim.clockDrivers.items())
        if how == 'reverse':
            items.reverse()
            for _, cds in items: cds.clockables.reverse()
        elif how == 'random':
            rng.shuffle(items)
            for _, cds in items: rng.shuffle(cds.clockables)
        elif how == 'rotate':
            items = items[1:] + items[:1]
            for _, cds in items: cds.clockables[:] = cds.clockables[1:] + cds.clockables[:1]
        self.sim.clockDrivers = dict(items)

    def poke(self, pokes):
        for i, v in pokes:
            self.b.ins[i].put(v)

    def clk(self, n):
        py4hw = P()
        with quiet():
            self.sim.clk(n)
        self.expected_clks += n
        problems = []
        for cls, lst in prepared_lists():
            if len(lst) != 0:
                problems.append('%s.prepared holds %d wire(s) after clk(%d): %s' % (
                    cls.__name__, len(lst), n, [w.getFullPath() for w in lst][:4]))
        if self.sim.total_clks != self.expected_clks:
            problems.append('Simulator.total_clks = %d after %d requested cycles' % (self.sim.total_clks, self.expected_clks))
        return problems


def wire_classes():
    py4hw = P()
    out, todo = [], [py4hw.Wire]
    while todo:
        c = todo.pop()
        if c not in out:
            out.append(c); todo += c.__subclasses__()
    return out


def prepared_lists():
    """every class-level `prepared` list of Wire and of its subclasses (BidirWire declares its own)"""
    seen, out = set(), []
    for c in wire_classes():
        lst = getattr(c, 'prepared', None)
        if isinstance(lst, list) and id(lst) not in seen:
            seen.add(id(lst)); out.append((c, lst))
    return out


def clear_prepared():
    for c in wire_classes():
        if isinstance(c.__dict__.get('prepared'), list):
            c.prepared = []


# ------------------------------------------------------------------------------------------------ reference
def nearest_driver(obj):
    """harness-owned nearest-ancestor lookup over the harness's own record of which object was given which driver
    (`_vf_driver`, written by assign()/new_hw()); it neither calls py4hw.getObjectClockDriver nor reads obj.clockDriver,
    so it cannot be influenced by anything the library stores there during a lookup."""
    o = obj
    while o is not None:
        d = o.__dict__.get('_vf_driver')
        if d is not None:
            return d
        o = o.parent
    return None


_UNSET = object()


class RefSim:
    """snapshot-then-apply reference: at an edge every sequential leaf of an enabled domain is evaluated with ALL wire
    values forced back to the pre-edge snapshot, its prepared updates are collected, and only after the last
    leaf are they applied; then one combinational pass.  Uses only leaf.clock()/leaf.propagate(); it does not use
    Simulator._clk_cycle, Simulator.clockDrivers, ClockDriverSimulator, Wire.prepared / settleAll, obj.clockDriver or
    getObjectClockDriver (domains come from the harness's own record of the driver assignments)."""
    def __init__(self, b):
        self.b = b
        with quiet():
            sim = b.hw.getSimulator()
        self.prop = list(sim.propagatables)         # combinational order is C04's subject, taken as given
        self.wires = netlist.all_wires(b.hw)
        leaves = [l for l in b.hw.allLeaves() if callable(getattr(l, 'clock', None))]
        self.leaves = sorted(leaves, key=lambda l: l.getFullPath())        # a canonical order unrelated to the simulator's
        self.domain = {id(l): nearest_driver(l) for l in self.leaves}
        self.clockables = self.leaves

    def values(self):
        return [w.get() for w in self.wires]

    def states(self):
        return {clockable_key(l): leaf_state(l) for l in self.leaves}

    def poke(self, pokes):
        for i, v in pokes:
            self.b.ins[i].put(v)

    def propagate(self):
        with quiet():
            for o in self.prop: o.propagate()

    def edge(self):
        snapshot = [w.value for w in self.wires]
        updates = []
        calls = []
        for w in self.wires:                                             # the reference records prepare() itself: an instance
            w.prepare = (lambda val, w=w: calls.append((w, val)))         # attribute shadows Wire.prepare / BidirWire.prepare
        try:
            for l in self.leaves:
                drv = self.domain[id(l)]
                if drv is not None and drv.enable is not None and snapshot[self.index(drv.enable)] == 0:
                    continue
                for w, v in zip(self.wires, snapshot):
                    w.value = v                                          # every leaf sees the pre-edge values
                    w.next = _UNSET                                      # a prepare that bypasses the instance attribute lands here
                clear_prepared()
                del calls[:]
                with quiet():
                    l.clock()
                last = {}
                for w, val in calls: last[id(w)] = (w, val)              # several prepares of one wire in one edge: the LAST wins
                for w in self.wires:
                    if w.next is not _UNSET and id(w) not in last: last[id(w)] = (w, w.next)
                updates += list(last.values())
        finally:
            for w in self.wires: w.__dict__.pop('prepare', None)
        clear_prepared()
        for w, v in zip(self.wires, snapshot): w.value = v
        for w, v in updates:
            w.value = v & ((1 << w.getWidth()) - 1)
        self.propagate()

    def index(self, wire):
        for i, w in enumerate(self.wires):
            if w is wire: return i
        raise KeyError(wire.getFullPath())

    def clk(self, n):
        self.propagate()
        for _ in range(n): self.edge()
        return []
