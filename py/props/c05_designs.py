"""Design families with several interacting sequential blocks (used by the C05 and C10 checks), the schedule
permutation / clk-splitting drivers, and the harness-owned snapshot-then-apply reference simulator.

Every builder is deterministic in (family, seed): the same call builds an identical fresh design (py4hw keeps the
state inside the objects, so every schedule needs its own instance).  Wires are enumerated by netlist.all_wires,
whose order is deterministic as well, so traces of two instances are comparable position by position."""
import random
import common, netlist
from common import quiet, quiet_import


def P():
    return quiet_import()


def box(parent, name, driver=None):
    """a structural container; with driver != None everything below it is in that clock domain"""
    py4hw = P()
    b = py4hw.Logic(parent, name)
    if driver is not None:
        b.clockDriver = driver
    return b


class Built:
    """hw, the wires the stimulus pokes, a description, the clock drivers created (name -> (driver, enable wire))"""
    def __init__(self, hw, ins, info, doms=None, dumpable=True):
        self.hw, self.ins, self.info, self.doms, self.dumpable = hw, ins, info, doms or {}, dumpable


# ------------------------------------------------------------------------------------------------ families
def fam_chain(rng, domains=1):
    """shift chain of N registers with a ring-closing multiplexer (feedback), optional shared enable / reset,
    plus a subtractor observing two taps.  With domains > 1 the registers are spread over several clock
    drivers (ungated, or gated by a poked wire), so the chain crosses domain boundaries."""
    py4hw = P()
    hw = py4hw.HWSystem()
    W = rng.randint(1, 8); N = rng.randint(2, 7)
    din, sel = hw.wire('din', W), hw.wire('sel', 1)
    ins = [din, sel]
    en = rs = None
    if rng.random() < .5: en = hw.wire('en', 1); ins.append(en)
    if rng.random() < .5: rs = hw.wire('rs', 1); ins.append(rs)
    doms, parents = {}, [hw]
    for k in range(1, domains):
        gate = None
        if rng.random() < .6:
            gate = hw.wire('gate%d' % k, 1); ins.append(gate)
        drv = py4hw.ClockDriver('clk_dom%d' % k, base=hw.clockDriver, enable=gate)
        doms['dom%d' % k] = (drv, gate)
        parents.append(box(hw, 'dom%d' % k, drv))
    q = [hw.wire('q%d' % i, W) for i in range(N)]
    d0 = hw.wire('d0', W)
    order = list(range(N)); rng.shuffle(order)          # creation order != chain order
    py4hw.Mux2(hw, 'ring', sel, din, q[N - 1], d0)
    for i in order:
        par = parents[rng.randrange(len(parents))]
        rv = rng.choice([None, 0, 1, (1 << W) - 1, rng.randrange(1 << W)])
        py4hw.Reg(par, 'r%d' % i, d0 if i == 0 else q[i - 1], q[i], enable=en if rng.random() < .7 else None,
                  reset=rs if rng.random() < .7 else None, reset_value=rv)
    diff = hw.wire('diff', W)
    py4hw.Sub(hw, 'diff', q[0], q[N - 1], diff)
    return Built(hw, ins, {'family': 'chain', 'W': W, 'N': N, 'domains': domains}, doms)


def fam_swap(rng, domains=1):
    """two registers exchanging their values, a third accumulating their product: the textbook case where a
    register that wrote its output immediately would be visible"""
    py4hw = P()
    hw = py4hw.HWSystem()
    W = rng.randint(2, 8)
    load, a0, b0 = hw.wire('load', 1), hw.wire('a0', W), hw.wire('b0', W)
    ins = [load, a0, b0]
    doms, parents = {}, [hw]
    for k in range(1, domains):
        gate = hw.wire('gate%d' % k, 1) if rng.random() < .6 else None
        if gate is not None: ins.append(gate)
        drv = py4hw.ClockDriver('clk_dom%d' % k, base=hw.clockDriver, enable=gate)
        doms['dom%d' % k] = (drv, gate); parents.append(box(hw, 'dom%d' % k, drv))
    qa, qb, da, db, prod, acc = (hw.wire(n, W) for n in ('qa', 'qb', 'da', 'db', 'prod', 'acc'))
    py4hw.Mux2(hw, 'ma', load, qb, a0, da)
    py4hw.Mux2(hw, 'mb', load, qa, b0, db)
    pick = lambda: parents[rng.randrange(len(parents))]
    mk = [lambda: py4hw.Reg(pick(), 'ra', da, qa), lambda: py4hw.Reg(pick(), 'rb', db, qb),
          lambda: py4hw.Reg(pick(), 'racc', prod, acc)]
    rng.shuffle(mk)
    for m in mk: m()
    py4hw.Mul(hw, 'mul', qa, qb, prod)
    return Built(hw, ins, {'family': 'swap', 'W': W, 'domains': domains}, doms)


def fam_mem(rng, domains=1):
    """synchronous memory whose write address is a register-based counter, read address a delayed copy of it,
    write data from a register and the read port captured by another register"""
    py4hw = P()
    hw = py4hw.HWSystem()
    AW = rng.randint(1, 4); DW = rng.randint(1, 8)
    we, wd, inc = hw.wire('we', 1), hw.wire('wd', DW), hw.wire('inc', 1)
    ins = [we, wd, inc]
    doms, parents = {}, [hw]
    for k in range(1, domains):
        gate = hw.wire('gate%d' % k, 1) if rng.random() < .6 else None
        if gate is not None: ins.append(gate)
        drv = py4hw.ClockDriver('clk_dom%d' % k, base=hw.clockDriver, enable=gate)
        doms['dom%d' % k] = (drv, gate); parents.append(box(hw, 'dom%d' % k, drv))
    pick = lambda: parents[rng.randrange(len(parents))]
    wa, wan, ra, zero = hw.wire('wa', AW), hw.wire('wan', AW), hw.wire('ra', AW), hw.wire('zero', AW)
    wdr, rdata, rq = hw.wire('wdr', DW), hw.wire('rdata', DW), hw.wire('rq', DW)
    py4hw.Constant(hw, 'zero', 0, zero)
    py4hw.AddCarryIn(hw, 'next', wa, zero, wan, inc)           # wa + 0 + inc
    mk = [lambda: py4hw.Reg(pick(), 'rwa', wan, wa), lambda: py4hw.Reg(pick(), 'rra', wa, ra),
          lambda: py4hw.Reg(pick(), 'rwd', wd, wdr), lambda: py4hw.Reg(pick(), 'rrq', rdata, rq),
          lambda: py4hw.logic.storage.SynchronousMemory(pick(), 'mem', ra, wa, we, rdata, wdr)]
    rng.shuffle(mk)
    for m in mk: m()
    return Built(hw, ins, {'family': 'mem', 'AW': AW, 'DW': DW, 'domains': domains}, doms)


def fam_counter(rng, domains=1):
    """two library Counters (structural: Reg + Add + Mux2), the second one advanced by bit 0 of the first, and a
    register sampling both.  Add is not a translated class, so this family is compared against the
    snapshot-then-apply reference and across schedules only (no Coq model)."""
    py4hw = P()
    hw = py4hw.HWSystem()
    W1, W2 = rng.randint(1, 4), rng.randint(1, 5)
    rst, inc = hw.wire('rst', 1), hw.wire('inc', 1)
    ins = [rst, inc]
    doms, parents = {}, [hw]
    for k in range(1, domains):
        gate = hw.wire('gate%d' % k, 1) if rng.random() < .6 else None
        if gate is not None: ins.append(gate)
        drv = py4hw.ClockDriver('clk_dom%d' % k, base=hw.clockDriver, enable=gate)
        doms['dom%d' % k] = (drv, gate); parents.append(box(hw, 'dom%d' % k, drv))
    pick = lambda: parents[rng.randrange(len(parents))]
    q1, q2, b0, cat, s = hw.wire('q1', W1), hw.wire('q2', W2), hw.wire('b0', 1), hw.wire('cat', W1 + W2), hw.wire('s', W1 + W2)
    mk = [lambda: py4hw.Counter(pick(), 'c1', rst, inc, q1), lambda: py4hw.Counter(pick(), 'c2', rst, b0, q2),
          lambda: py4hw.Reg(pick(), 'rs', cat, s)]
    rng.shuffle(mk)
    for m in mk: m()
    py4hw.Bit(hw, 'b0', q1, 0, b0)
    py4hw.ConcatenateMSBF(hw, 'cat', [q1, q2], cat)
    return Built(hw, ins, {'family': 'counter', 'W1': W1, 'W2': W2, 'domains': domains}, doms, dumpable=False)


def fam_fsm(rng, domains=1):
    """the HIL command interpreter: CMDRequest + the selection registers it enables + CMDResponse + UARTSerializer
    (+ AutoReset), wired as in py4hw/emulation/HILWrapperUART.py.  Several FSM blocks exchanging handshakes
    through wires they prepare."""
    py4hw = P()
    from py4hw.emulation.HILWrapperUART import CMDRequest, CMDResponse
    from py4hw.logic.protocol.uart.serdes import UARTSerializer
    from py4hw.logic.clock import AutoReset
    hw = py4hw.HWSystem()
    valid, c, tick = hw.wire('valid', 1), hw.wire('c', 8), hw.wire('tick', 1)
    ins = [valid, c, tick]
    doms, parents = {}, [hw]
    for k in range(1, domains):
        gate = hw.wire('gate%d' % k, 1) if rng.random() < .6 else None
        if gate is not None: ins.append(gate)
        drv = py4hw.ClockDriver('clk_dom%d' % k, base=hw.clockDriver, enable=gate)
        doms['dom%d' % k] = (drv, gate); parents.append(box(hw, 'dom%d' % k, drv))
    pick = lambda: parents[rng.randrange(len(parents))]
    ready = hw.wire('ready', 1)
    index_in, v_in, index_out = hw.wire('index_in', 8), hw.wire('v_in', 32), hw.wire('index_out', 8)
    set_index_in, set_v_in, set_index_out = hw.wire('set_index_in', 1), hw.wire('set_v_in', 1), hw.wire('set_index_out', 1)
    clk_pulse, start_resp = hw.wire('clk_pulse', 1), hw.wire('start_resp', 1)
    index_in_r, index_out_r, set_index_out_r, v_in_r = hw.wire('index_in_r', 8), hw.wire('index_out_r', 8), hw.wire('set_index_out_r', 1), hw.wire('v_in_r', 32)
    size, ser_ready, ser_valid, ser_v, tx, arst = hw.wire('size', 8), hw.wire('ser_ready', 1), hw.wire('ser_valid', 1), hw.wire('ser_v', 8), hw.wire('tx', 1), hw.wire('arst', 1)
    py4hw.Constant(hw, 'size', 8, size)
    mk = [lambda: CMDRequest(pick(), 'cmd_req', ready, valid, c, index_in, v_in, index_out, set_index_in, set_v_in, set_index_out, clk_pulse, start_resp),
          lambda: py4hw.Reg(pick(), 'index_in_r', d=index_in, enable=set_index_in, q=index_in_r),
          lambda: py4hw.Reg(pick(), 'index_out_r', d=index_out, enable=set_index_out, q=index_out_r),
          lambda: py4hw.Reg(pick(), 'set_index_out_r', d=set_index_out, q=set_index_out_r),
          lambda: py4hw.Reg(pick(), 'v_in_r', d=v_in, enable=set_v_in, q=v_in_r, reset=arst),
          lambda: CMDResponse(pick(), 'cmd_resp', v_in_r, size, start_resp, ser_ready, ser_valid, ser_v),
          lambda: UARTSerializer(pick(), 'ser', ser_ready, ser_valid, ser_v, tick, tx),
          lambda: AutoReset(pick(), 'arst', arst)]
    rng.shuffle(mk)
    for m in mk: m()
    return Built(hw, ins, {'family': 'fsm', 'domains': domains}, doms)


def fam_random(rng, domains=1):
    import designs
    hw, ins, info = designs.build_random(rng, n_blocks=rng.randint(4, 12), n_inputs=rng.randint(1, 3))
    return Built(hw, ins, {'family': 'random', 'blocks': info['blocks'], 'domains': 1}, {})


FAMILIES = {'chain': fam_chain, 'swap': fam_swap, 'mem': fam_mem, 'counter': fam_counter, 'fsm': fam_fsm, 'random': fam_random}


def build(family, seed, domains=1):
    rng = random.Random(seed)
    if family not in FAMILIES:
        from props import c10_designs        # registers the 'hier' family
    with quiet():
        b = FAMILIES[family](rng, domains)
    b.family, b.seed, b.domains = family, seed, domains
    return b


# ------------------------------------------------------------------------------------------------ stimulus
FSM_TEXT = 'I0=1A2B!O0?I1=FFFFFFFF!O1?xI2=0!O2?'

def stimulus(b, rng, n_steps, max_clk=3):
    """list of (pokes [(input position, value)], ncycles).  Values include out-of-range ones (masked by put)."""
    steps = []
    for t in range(n_steps):
        pokes = []
        for i, w in enumerate(b.ins):
            wd = w.getWidth()
            if b.info['family'] == 'fsm' and w.name == 'c':
                v = ord(FSM_TEXT[(t // 2) % len(FSM_TEXT)])
            elif w.name.startswith('gate') and wd > 1:
                v = rng.choice([0, 0, 1, 2, (1 << wd) - 1, 1 << (wd - 1)])
            elif w.name.startswith('gate') or w.name in ('en', 'valid', 'tick', 'we', 'inc', 'sel', 'load'):
                v = rng.choice([0, 1, 1, 1])
            elif w.name in ('rs', 'rst'):
                v = rng.choice([0, 0, 0, 0, 1])
            else:
                v = rng.choice([0, 1, (1 << wd) - 1, rng.randrange(1 << wd), rng.randrange(1 << wd), -1, (1 << wd) + 3])
            if t == 0 or rng.random() < .7:
                pokes.append((i, v))
        steps.append((pokes, rng.choice([1, 1, 1, 2, 3][:max(1, max_clk + 2)]) if max_clk > 1 else 1))
    return steps


def split(n, rng):
    """n = a1 + ... + ak, ai >= 0 (an occasional 0: clk(0) is just a propagateAll)"""
    parts = []
    left = n
    while left > 0:
        a = rng.randint(0 if rng.random() < .15 else 1, left)
        parts.append(a); left -= a
    if not parts: parts = [0]
    return parts


# ------------------------------------------------------------------------------------------------ instances
def clockable_key(leaf):
    return leaf.getFullPath()


def leaf_state(leaf):
    """the Python-side state of a sequential leaf: every attribute that is an int / list of ints / bool
    (ports, wires and structural attributes excluded)"""
    out = {}
    for k, v in sorted(vars(leaf).items()):
        if k in ('name',): continue
        if isinstance(v, bool) or isinstance(v, int): out[k] = int(v)
        elif isinstance(v, list) and all(isinstance(x, int) for x in v) and k not in ('inPorts', 'outPorts'): out[k] = list(v)
    return out


class Instance:
    """one live copy of a design, its simulator, and the bookkeeping the oracles need"""
    def __init__(self, b):
        self.b = b
        with quiet():
            self.sim = b.hw.getSimulator()          # NEVER call hw.getSimulator() again: it re-sorts and resets the schedule
        self.wires = netlist.all_wires(b.hw)
        self.pos = {id(w): i for i, w in enumerate(self.wires)}
        self.clockables = [l for cds in self.sim.clockDrivers.values() for l in cds.clockables]
        self.expected_clks = 0

    def values(self):
        return [w.get() for w in self.wires]

    def states(self):
        return {clockable_key(l): leaf_state(l) for l in self.clockables}

    def schedule(self):
        """[(driver name, enable wire position or None, [leaf paths])] in visit order"""
        return [(drv.name, None if drv.enable is None else self.pos[id(drv.enable)], [clockable_key(l) for l in cds.clockables])
                for drv, cds in self.sim.clockDrivers.items()]

    def permute(self, how, rng):
        """permute the clockables within each driver AND the dict order of the drivers"""
        items = list(self.sim.clockDrivers.items())
        if how == 'reverse':
            items.reverse()
            for _, cds in items: cds.clockables.reverse()
        elif how == 'random':
            rng.shuffle(items)
            for _, cds in items: rng.shuffle(cds.clockables)
        elif how == 'rotate':
            items = items[1:] + items[:1]
            for _, cds in items: cds.clockables[:] = cds.clockables[1:] + cds.clockables[:1]
        self.sim.clockDrivers = dict(items)

    def poke(self, pokes):
        for i, v in pokes:
            self.b.ins[i].put(v)

    def clk(self, n):
        py4hw = P()
        with quiet():
            self.sim.clk(n)
        self.expected_clks += n
        problems = []
        if len(py4hw.Wire.prepared) != 0:
            problems.append('Wire.prepared holds %d wire(s) after clk(%d): %s' % (
                len(py4hw.Wire.prepared), n, [w.getFullPath() for w in py4hw.Wire.prepared][:4]))
        if self.sim.total_clks != self.expected_clks:
            problems.append('Simulator.total_clks = %d after %d requested cycles' % (self.sim.total_clks, self.expected_clks))
        return problems


# ------------------------------------------------------------------------------------------------ reference
def nearest_driver(obj):
    """harness-owned nearest-ancestor lookup (does not call py4hw.getObjectClockDriver)"""
    o = obj
    while o is not None:
        if getattr(o, 'clockDriver', None) is not None:
            return o.clockDriver
        o = o.parent
    return None


class RefSim:
    """snapshot-then-apply reference: at an edge every sequential leaf of an enabled domain is evaluated with ALL wire
    values forced back to the pre-edge snapshot, its prepared updates are collected, and only after the last
    leaf are they applied; then one combinational pass.  Uses only leaf.clock()/leaf.propagate(); it does not use
    Simulator._clk_cycle, Simulator.clockDrivers, ClockDriverSimulator, Wire.settleAll or getObjectClockDriver."""
    def __init__(self, b):
        self.b = b
        with quiet():
            sim = b.hw.getSimulator()
        self.prop = list(sim.propagatables)         # combinational order is C04's subject, taken as given
        self.wires = netlist.all_wires(b.hw)
        leaves = [l for l in b.hw.allLeaves() if callable(getattr(l, 'clock', None))]
        self.leaves = sorted(leaves, key=lambda l: l.getFullPath())        # a canonical order unrelated to the simulator's
        self.domain = {id(l): nearest_driver(l) for l in self.leaves}
        self.clockables = self.leaves

    def values(self):
        return [w.get() for w in self.wires]

    def states(self):
        return {clockable_key(l): leaf_state(l) for l in self.leaves}

    def poke(self, pokes):
        for i, v in pokes:
            self.b.ins[i].put(v)

    def propagate(self):
        with quiet():
            for o in self.prop: o.propagate()

    def edge(self):
        py4hw = P()
        snapshot = [w.value for w in self.wires]
        updates = []
        for l in self.leaves:
            drv = self.domain[id(l)]
            if drv is not None and drv.enable is not None and snapshot[self.index(drv.enable)] == 0:
                continue
            for w, v in zip(self.wires, snapshot): w.value = v          # every leaf sees the pre-edge values
            py4hw.Wire.prepared = []
            with quiet():
                l.clock()
            for w in py4hw.Wire.prepared:
                updates.append((w, w.next))
        py4hw.Wire.prepared = []
        for w, v in zip(self.wires, snapshot): w.value = v
        for w, v in updates:
            w.value = v & ((1 << w.getWidth()) - 1)
        self.propagate()

    def index(self, wire):
        for i, w in enumerate(self.wires):
            if w is wire: return i
        raise KeyError(wire.getFullPath())

    def clk(self, n):
        self.propagate()
        for _ in range(n): self.edge()
        return []
