"""C05 — clock edges are atomic: every sequential block sees pre-edge values.

Proof: Properties/C05.v over Model/SimKernel.v (order independence under re-scheduling, refinement of the
       snapshot-then-apply reference, prepared list drained / none lost / nothing carried over, clk(m+n) split).
Tie:   (a) Wire.put/prepare regenerated (Gen/WireOps.v) and every translated clock() regenerated (Gen/Seq.v: the
           translator rejects put() inside clock());
       (b) fail-closed AST scan of EVERY clock() under py4hw/: only get()/prepare() on ports, never put()/settle();
       (c) the kernel model (natural schedule, permuted schedule via with_drivers) and the reference machine
           (Spec.C05.ref_clk) are run inside Coq against the real simulator on real multi-register designs, and the
           hypotheses of the theorems (registered_once, single_writer, outs_nodup, topo) are checked on each dumped design.
Oracle / search: real designs (register chains with feedback, exchanging registers, memory pipelines, Counters, the
       HIL FSM blocks, a "zoo" of the remaining clocked library blocks (Sequence wrapping / one-shot, StreamCapture,
       dual-port memory, UART / Vitis FSMs, lpm counter) between producers and consumers, random netlists; sequential
       outputs on ordinary AND bidirectional nets; 1-4 clock drivers, several sharing a name) where the harness PERMUTES sim.clockDrivers[drv].clockables
       and the dict order of drivers, splits clk(n) arbitrarily, and inspects Wire.prepared and sim.total_clks;
       compared with a harness-owned snapshot-then-apply reference simulator."""
import ast, glob, os, random, json
import common, netlist
from common import REPO, quiet, zlit, zlist
from props import c05_designs as D

NEEDED = ['Wire_put', 'Wire_prepare', 'Reg_clock', 'Sequence_clock', 'SynchronousMemory_clock', 'AutoReset_clock', 'UARTSerializer_clock',
          'CMDRequest_clock', 'CMDResponse_clock']

PRELUDE = ('From V Require Import Base.PyInt Gen.WireOps Gen.Helpers Gen.Prims Gen.Seq Model.SimKernel Model.Trace '
           'Spec.C05 Spec.C05Run.\n')

# ------------------------------------------------------------------------------------------------ AST scan
SAFE_PORT_METHODS = {'get', 'prepare', 'getWidth', 'getFullPath'}
UNPARSABLE_OK = {'py4hw/transpilation/ast2src.py', 'py4hw/transpilation/hls_timed.py'}   # not importable at the pinned commit either


def scan_clock_methods():
    """premise of the model's sleaf type: a clock() reads wires with get() and writes them only through prepare().
    Returns (bad, stats).  Fail-closed: an unparsable file under logic/ or emulation/, a put()/settle()/settleAll()
    anywhere in the call closure of clock() inside its class, a foreign `.value`/`.next` store, a port passed whole
    to something else, or an unknown method called on a port are all reported."""
    bad, classes = [], []
    for f in sorted(glob.glob(os.path.join(REPO, 'py4hw', '**', '*.py'), recursive=True)):
        rel = os.path.relpath(f, REPO)
        try:
            tree = ast.parse(open(f, encoding='utf-8').read())
        except Exception as ex:
            if rel not in UNPARSABLE_OK:
                bad.append('%s does not parse (%s): its clock() methods cannot be inspected' % (rel, type(ex).__name__))
            continue
        for cls in [n for n in ast.walk(tree) if isinstance(n, ast.ClassDef)]:
            methods = {m.name: m for m in cls.body if isinstance(m, (ast.FunctionDef, ast.AsyncFunctionDef))}
            if 'clock' not in methods:
                continue
            classes.append('%s:%s' % (rel, cls.name))
            # attributes of self that hold port wires
            ports = set()
            for m in methods.values():
                for n in ast.walk(m):
                    if isinstance(n, ast.Assign) and isinstance(n.value, ast.Call) and isinstance(n.value.func, ast.Attribute) \
                            and n.value.func.attr in ('addIn', 'addOut', 'addInOut', 'wire'):
                        for t in n.targets:
                            if isinstance(t, ast.Attribute) and ast.unparse(t.value) == 'self': ports.add(t.attr)
            # closure of self.m() calls starting from clock
            todo, seen = ['clock'], set()
            while todo:
                mn = todo.pop()
                if mn in seen or mn not in methods: continue
                seen.add(mn)
                for n in ast.walk(methods[mn]):
                    if isinstance(n, ast.Call) and isinstance(n.func, ast.Attribute) and ast.unparse(n.func.value) == 'self':
                        todo.append(n.func.attr)
            for mn in sorted(seen):
                where = '%s:%s.%s' % (rel, cls.name, mn)
                for n in ast.walk(methods[mn]):
                    if isinstance(n, (ast.Yield, ast.YieldFrom, ast.Await)):
                        bad.append('%s line %d: generator/coroutine clock()' % (where, n.lineno))
                    if isinstance(n, ast.Call):
                        fn = n.func
                        if isinstance(fn, ast.Attribute):
                            if fn.attr == 'put':
                                bad.append('%s line %d: calls %s() inside the clock edge' % (where, n.lineno, ast.unparse(fn)))
                            elif fn.attr in ('settle', 'settleAll'):
                                bad.append('%s line %d: calls %s() inside the clock edge' % (where, n.lineno, ast.unparse(fn)))
                            else:
                                root = fn.value
                                while isinstance(root, ast.Subscript): root = root.value
                                if isinstance(root, ast.Attribute) and ast.unparse(root.value) == 'self' and root.attr in ports \
                                        and fn.attr not in SAFE_PORT_METHODS:
                                    bad.append('%s line %d: unknown method %s() on port %s' % (where, n.lineno, fn.attr, root.attr))
                        elif isinstance(fn, ast.Name) and fn.id in ('setattr', 'exec', 'eval'):
                            bad.append('%s line %d: %s() inside clock()' % (where, n.lineno, fn.id))
                        for a in list(n.args) + [k.value for k in n.keywords]:
                            if isinstance(a, ast.Attribute) and ast.unparse(a.value) == 'self' and a.attr in ports:
                                bad.append('%s line %d: port self.%s passed whole to %s()' % (where, n.lineno, a.attr, ast.unparse(fn)))
                    tg = n.targets if isinstance(n, ast.Assign) else [n.target] if isinstance(n, (ast.AugAssign, ast.AnnAssign)) else []
                    for t in tg:
                        for x in ast.walk(t):
                            if isinstance(x, ast.Attribute) and x.attr in ('value', 'next') and ast.unparse(x.value) != 'self':
                                bad.append('%s line %d: stores %s directly' % (where, n.lineno, ast.unparse(x)))
                            if isinstance(x, ast.Attribute) and x.attr == 'prepared':
                                bad.append('%s line %d: stores %s' % (where, n.lineno, ast.unparse(x)))
    return sorted(set(bad)), {'classes_with_clock': classes}


def scan_kernel_shape():
    """Simulator._clk_cycle must call Wire.settleAll exactly once and outside the loop over drivers; clockAll must
    only call obj.clock().  (Structural smoke test; the behaviour is what the differential checks.)"""
    bad = []
    try:
        tree = ast.parse(open(os.path.join(REPO, 'py4hw', 'simulation.py'), encoding='utf-8').read())
    except Exception as ex:
        return ['py4hw/simulation.py does not parse: %s' % ex]
    fn = {n.name: n for n in ast.walk(tree) if isinstance(n, ast.FunctionDef)}
    cc = fn.get('_clk_cycle')
    if cc is None:
        return ['Simulator._clk_cycle not found']
    settles = [n for n in ast.walk(cc) if isinstance(n, ast.Call) and ast.unparse(n.func).endswith('settleAll')]
    if len(settles) != 1:
        bad.append('_clk_cycle calls settleAll %d times' % len(settles))
    for loop in [n for n in ast.walk(cc) if isinstance(n, (ast.For, ast.While))]:
        if any(isinstance(n, ast.Call) and ast.unparse(n.func).endswith('settleAll') for n in ast.walk(loop)):
            bad.append('_clk_cycle calls settleAll inside a loop (line %d)' % loop.lineno)
    return bad


# ------------------------------------------------------------------------------------------------ one case
def first_diff_lists(a, b):
    for i, (x, y) in enumerate(zip(a, b)):
        if x != y: return i, x, y
    if len(a) != len(b): return min(len(a), len(b)), None, None
    return None


def state_diff(sa, sb):
    for k in sorted(set(sa) | set(sb)):
        if sa.get(k) != sb.get(k):
            return k, sa.get(k), sb.get(k)
    return None


def run_case(family, seed, domains, n_steps, hows, want_dump=True, steps=None, perm_seed=None):
    """Build the design once per schedule; drive: natural schedule (whole clk(n)), the snapshot reference, and one
    instance per permutation in `hows` with clk(n) split at random.  Returns dict(problem=..., ...)."""
    rng = random.Random((seed * 7919 + 13) ^ 0x5bd1)
    b0 = D.build(family, seed, domains)
    if steps is None:
        steps = D.stimulus(b0, rng, n_steps)
    res = {'family': family, 'seed': seed, 'domains': domains, 'info': b0.info, 'steps': steps, 'problem': None, 'dump': None}
    dp = None
    if want_dump:
        try:
            dp = netlist.Dump(b0.hw)
        except netlist.NotDumpable as ex:
            res['not_dumpable'] = str(ex)
    nat = D.Instance(b0)
    if dp is not None:
        nat.sim = dp.sim
    init_vals = nat.values()
    ref = D.RefSim(D.build(family, seed, domains))
    perms = []
    for j, how in enumerate(hows):
        pi = D.Instance(D.build(family, seed, domains))
        prng = random.Random(perm_seed if perm_seed is not None else seed * 31 + j)
        pi.permute(how, prng)
        perms.append((how, pi, prng, []))
    res['schedules'] = {'natural': nat.schedule()}
    for how, pi, _, _ in perms: res['schedules'][how] = pi.schedule()
    trace = []
    for k, (pokes, n) in enumerate(steps):
        nat.poke(pokes); pr = nat.clk(n)
        ref.poke(pokes); ref.clk(n)
        vn, vr = nat.values(), ref.values()
        trace.append(vn)
        def fail(what, **kw):
            res['problem'] = dict(what=what, step=k, pokes=pokes, ncycles=n, **kw)
            return res
        if pr: return fail('bookkeeping after clk(): ' + '; '.join(pr), schedule='natural')
        df = first_diff_lists(vn, vr)
        if df: return fail('wire value after the edge differs from the snapshot-then-apply reference', schedule='natural',
                           wire=nat.wires[df[0]].getFullPath(), impl=df[1], reference=df[2])
        sd = state_diff(nat.states(), ref.states())
        if sd: return fail('leaf state after the edge differs from the snapshot-then-apply reference', schedule='natural',
                           leaf=sd[0], impl=sd[1], reference=sd[2])
        for how, pi, prng, splits in perms:
            pi.poke(pokes)
            parts = D.split(n, prng); splits.append(parts)
            pr = []
            for a in parts: pr += pi.clk(a)
            if pr: return fail('bookkeeping after clk(): ' + '; '.join(pr), schedule=how, split=parts)
            df = first_diff_lists(pi.values(), vr)
            if df: return fail('wire value under a permuted schedule / split clk differs from the reference', schedule=how, split=parts,
                               visit_order=pi.schedule(), wire=pi.wires[df[0]].getFullPath(), impl=df[1], reference=df[2])
            sd = state_diff(pi.states(), ref.states())
            if sd: return fail('leaf state under a permuted schedule / split clk differs from the reference', schedule=how, split=parts,
                               visit_order=pi.schedule(), leaf=sd[0], impl=sd[1], reference=sd[2])
    res.update(dump=dp, nat=nat, init_vals=init_vals, trace=trace, perms=[(h, p.schedule(), s) for h, p, _, s in perms])
    return res


# ------------------------------------------------------------------------------------------------ Coq side
def st_obs_def(sigs):
    arms = []
    for k, sg in sorted(sigs.items()):
        if not k.endswith('_clock') or not sg.get('state'): continue
        cls = k[:-6]
        parts = []
        for a in sg['state']:
            parts.append(('%s_s_%s s' % (cls, a), a))
        arms.append((cls, parts))
    return arms


def coq_compare(ctx, tag, cases):
    """cases: results of run_case with a Dump.  One coqc run.  Returns list of problems (dicts)."""
    sigs = netlist.load_sigs()
    body, items = [PRELUDE], []
    # observation of leaf states as flat Z lists; list-typed fields are detected from the live objects
    list_fields = set()
    for c in cases:
        for leaf in c['dump'].seq_objs:
            cls = type(leaf).__name__
            for a in sigs['%s_clock' % cls]['state']:
                if isinstance(getattr(leaf, a), (list, tuple)): list_fields.add((cls, a))
    arms = []
    present = {type(leaf).__name__ for c in cases for leaf in c['dump'].seq_objs}
    for cls, parts in st_obs_def(sigs):
        if cls not in present: continue
        e = ' ++ '.join(('%s' % t) if (cls, a) in list_fields else '[%s]' % t for t, a in parts)
        arms.append('  | St_%s s => %s' % (cls, e))
    body.append('Definition st_obs (a : AnySt) : list Z :=\n  match a with\n%s\n  | _ => []\n  end.\n' % '\n'.join(arms))
    for i, c in enumerate(cases):
        dp = c['dump']
        body.append(dp.coq_design('d%d' % i))
        path_idx = {D.clockable_key(l): j for j, l in enumerate(dp.seq_objs)}
        steps = [([(dp.w(c['nat'].b.ins[p]), v) for p, v in pokes], n) for pokes, n in c['steps']]
        st = netlist.steps_term(steps)
        exp = '[' + '; '.join(zlist(v) for v in [c['init_vals']] + c['trace']) + ']'
        pk = '[' + '; '.join('(%d%%nat, %s)' % (w, zlit(v)) for w, v in getattr(dp, 'init_pokes', [])) + ']'
        body.append('Definition exp%d := %s.\nDefinition steps%d : list step_t := %s.' % (i, exp, i, st))
        # power-up state: every wire 0, the constructor-time puts (a Reg shows its masked initial value on q), propagateAll
        body.append('Definition s0_%d (dd : design AnySt) := init_poked dd d%d_st0 %s.' % (i, i, pk))
        terms = ['(registered_once_b d%d && single_writer_b d%d && outs_nodup_b d%d, topo_b (combs d%d))' % (i, i, i, i),
                 'first_diff exp%d (run_trace d%d (s0_%d d%d) steps%d)' % (i, i, i, i, i),
                 'first_diff exp%d (ref_run_trace d%d (s0_%d d%d) steps%d)' % (i, i, i, i, i)]
        for j, (how, sched, _) in enumerate(c['perms']):
            ds = '[' + '; '.join('{| d_enable := %s; d_leaves := [%s] |}' % (
                'None' if en is None else 'Some %d%%nat' % en, '; '.join('%d%%nat' % path_idx[p] for p in leaves))
                for _, en, leaves in sched) + ']'
            body.append('Definition ds%d_%d : list driver := %s.' % (i, j, ds))
            terms.append('first_diff exp%d (run_trace (with_drivers d%d ds%d_%d) (s0_%d (with_drivers d%d ds%d_%d)) steps%d)' % (i, i, i, j, i, i, i, j, i))
        terms.append('(let f := final_state d%d (s0_%d d%d) steps%d in (map st_obs (sts f), Z.of_nat (total f), Z.of_nat (length (pend f))))' % (i, i, i, i))
        items.append(('c%d' % i, '(' + ', '.join(terms) + ')'))
    ctx.log('evaluating %d designs in Coq (%s)' % (len(cases), tag))
    res = common.coq_eval(tag, '\n'.join(body), items, timeout=900)
    ctx.log('... done')
    problems = []
    for i, c in enumerate(cases):
        r = res['c%d' % i]
        dp = c['dump']
        hyp, m, s = r[0:2], r[2], r[3]           # Coq prints left-nested pairs flat
        permres = r[4:-1]
        fin = r[-1]
        base = {'family': c['family'], 'seed': c['seed'], 'domains': c['domains'], 'steps': c['steps']}
        def wname(df):
            return dp.wires[df[1][0]].getFullPath() if df[1][0] < len(dp.wires) else None
        if hyp[0] is not True or hyp[1] is not True:
            problems.append(dict(base, kind='hypothesis', what='a dumped real design does not satisfy the hypotheses of the C05 theorems '
                                 '(registered_once && single_writer && outs_nodup, topo) = %s' % (hyp,)))
        if m is not None:
            problems.append(dict(base, kind='model', what='kernel model (natural schedule) and real simulator disagree', diff=m[1], wire=wname(m)))
        if s is not None:
            problems.append(dict(base, kind='spec', what='real simulator differs from the reference machine Spec.C05.ref_clk evaluated in Coq', diff=s[1], wire=wname(s)))
        for (how, sched, _), pr in zip(c['perms'], permres):
            if pr is not None:
                problems.append(dict(base, kind='model', what='kernel model under the permuted schedule %s disagrees with the real simulator' % how,
                                     visit_order=sched, diff=pr[1], wire=wname(pr)))
        want_st = [sum(([x] if not isinstance(x, (list, tuple)) else list(x) for x in leafst), []) for leafst in dp.seq_states()]
        if fin[0] != want_st:
            problems.append(dict(base, kind='model', what='final leaf states: model %s, real objects %s' % (fin[0], want_st)))
        if fin[1] != c['nat'].sim.total_clks or fin[2] != 0:
            problems.append(dict(base, kind='model', what='final total/pending: model (%s,%s), real (%s,0)' % (fin[1], fin[2], c['nat'].sim.total_clks)))
    return problems


# ------------------------------------------------------------------------------------------------ self-loop finding
def self_loop_split():
    """the guard of C05_clk_split is necessary: an inverter feeding itself makes clk(2) differ from clk(1);clk(1) IF the
    simulator accepts that netlist (it did before /repo commit 04873f4, finding C05-F1; topologicalSort now raises).
    Returns ('rejected', message) or ('accepted', clk2_value, clk1clk1_value)."""
    py4hw = common.quiet_import()
    out = []
    for parts in ((2,), (1, 1)):
        try:
            with quiet():
                hw = py4hw.HWSystem(); a = hw.wire('a', 1); py4hw.Not(hw, 'inv', a, a)
                sim = hw.getSimulator()
        except Exception as ex:
            return ('rejected', '%s: %s' % (type(ex).__name__, ex))
        with quiet():
            for n in parts: sim.clk(n)
        out.append(a.get())
    return ('accepted', out[0], out[1])


# ------------------------------------------------------------------------------------------------ run
def plan(ctx):
    if ctx.quick:
        fams = [('zoo', 1), ('zoo', 2), ('chain', 1), ('chain', 2), ('chain', 3), ('swap', 1), ('swap', 2), ('mem', 1), ('mem', 3), ('counter', 1),
                ('counter', 2), ('fsm', 1), ('fsm', 2), ('random', 1)]
        return fams, 4, 14, ['reverse', 'random']
    fams = [(f, d) for f in ('zoo', 'chain', 'swap', 'mem', 'counter', 'fsm') for d in (1, 2, 3, 4)] + [('random', 1), ('hier', 2), ('hier', 4)]
    return fams, 24, 24, ['reverse', 'random', 'rotate']


def report(ctx, res):
    p = res['problem']
    rp = {'what': p['what'], 'family': res['family'], 'seed': res['seed'], 'domains': res['domains'], 'design': res['info'],
          'steps': res['steps'][:p['step'] + 1], 'failing_step': p['step'], 'detail': {k: v for k, v in p.items() if k not in ('what',)},
          'schedules': res.get('schedules'),
          'replay_hint': './check --replay <this file>  (rebuilds props.c05_designs.build(family, seed, domains), applies the schedule and the steps)'}
    ctx.violation(rp)


def run(ctx):
    ctx.cov['rule'] = ('obligations: theorems of Properties/C05.v; correspondence cases: (design family x seed x number of clock drivers x '
                       'schedule permutation x stimulus step); a case is distinct by (family, seed, domains, schedule, step index) and '
                       'non-trivial when the step clocks at least one sequential leaf whose output changes some wire')
    missing = ctx.regen(NEEDED)
    r = ctx.prove(['Properties/C05.v'])
    ctx.log('proofs built: %s' % r['ok'])
    scan_bad, scan_stats = scan_clock_methods()
    scan_bad += scan_kernel_shape()
    ctx.notes['clock_scan'] = {'violations': scan_bad, 'classes_with_clock': len(scan_stats['classes_with_clock'])}
    tie_ok = (not missing) and r['ok'] and not scan_bad
    fams, n_seeds, n_steps, hows = plan(ctx)
    found = False
    dumped = []
    can_model = r['ok'] or True
    for fi, (fam, dom) in enumerate(fams):
        for sd in range(n_seeds):
            seed = ctx.seed * 1000003 + fi * 1009 + sd
            res = run_case(fam, seed, dom, n_steps, hows, want_dump=True)
            nontrivial = 0
            if res['problem'] is None:
                prev = res['init_vals']
                for k, v in enumerate(res['trace']):
                    if v != prev: nontrivial += 1
                    prev = v
                    for how in ['natural'] + hows:
                        ctx.count((fam, seed, dom, how, k))
            if res['problem'] is not None:
                report(ctx, res); found = True
                break
            if len(ctx.cov['samples']) < 6 and sd == 0:
                ctx.sample({'family': fam, 'domains': dom, 'design': res['info'], 'schedules': res['schedules'],
                            'first_step': res['steps'][0], 'values_after_first_step': res['trace'][0][:12], 'steps_changing_a_wire': nontrivial})
            if res['dump'] is not None:
                dumped.append(res)
        if found: break
    ctx.notes['designs_run'] = len(fams) * n_seeds if not found else None
    if not found and dumped:
        try:
            probs = []
            CH = 24
            for off in range(0, len(dumped), CH):
                probs += coq_compare(ctx, 'C05_kernel_%d' % (off // CH), dumped[off:off + CH])
            ctx.notes['kernel_model_designs_compared'] = len(dumped)
            for p in probs[:3]:
                kind = p.pop('kind')
                if kind == 'spec':
                    ctx.violation(p); found = True
                else:
                    ctx.violation(dict(p, note='correspondence between Model/SimKernel.v (or a theorem hypothesis) and the real simulator is broken'), found_input=False)
                    found = True
        except RuntimeError as ex:
            if tie_ok:
                raise
            ctx.notes['coq_compare_error'] = str(ex)[-1500:]
    # guard necessity of clk_split on the real code: finding C05-F1 (fixed in /repo by 04873f4: the self-loop is refused).
    # A "fixed" entry suppresses nothing: if the netlist is accepted again and the split is visible, that is a VIOLATION.
    try:
        sl = self_loop_split()
        ctx.count(('self-loop-split',))
        ctx.notes['self_loop_split'] = sl
        if sl[0] == 'accepted' and sl[1] != sl[2]:
            kf = [k for k in ctx.known if k['id'] == 'C05-F1' and k.get('status') == 'known']
            if kf:
                ctx.known_finding('C05-F1', kf[0]['text'])
            else:
                ctx.violation({'what': 'clk(2) differs from clk(1);clk(1): a combinational self-loop is accepted by getSimulator() and makes the extra '
                                       'propagateAll of every clk() call visible (finding C05-F1 is back)',
                               'design': "hw=HWSystem(); a=hw.wire('a',1); Not(hw,'inv',a,a); s=hw.getSimulator()",
                               'clk(2)': sl[1], 'clk(1);clk(1)': sl[2]})
    except Exception as ex:
        ctx.notes['self_loop_split_error'] = repr(ex)
    if not found and not tie_ok:
        # obligation / tie broken and the sweep above found nothing: widen the search before giving up
        wide = [(f, d) for f in ('zoo', 'chain', 'swap', 'mem', 'counter', 'fsm') for d in (1, 2, 3)]
        for fi, (fam, dom) in enumerate(wide):
            for sd in range(6):
                seed = ctx.seed * 1000003 + 500000 + fi * 1009 + sd
                res = run_case(fam, seed, dom, 20, ['reverse', 'random', 'rotate'], want_dump=False)
                ctx.count((fam, seed, dom, 'wide'), n=20)
                if res['problem'] is not None:
                    report(ctx, res); found = True; break
            if found: break
        if not found:
            what = ('translator rejected %s: %s' % (missing, {k: ctx.gen['errors'].get(k) for k in missing}) if missing else
                    'a clock() method may write a wire outside prepare(): %s' % scan_bad if scan_bad else
                    'proof obligation no longer checks: %s in %s' % (r.get('lemma'), r.get('file')))
            ctx.violation({'what': what, 'theorem': r.get('lemma'), 'file': r.get('file'), 'coq_error': r.get('msg')}, found_input=False)
    ctx.assumptions += ['sequential leaves read wires with get() and write them only through prepare() (AST scan of every clock() under py4hw/ on every run; '
                        'the translator rejects put() in the clock() methods it translates)',
                        'Model/SimKernel.v mirrors Simulator._clk_cycle / clk / Wire.prepare / settleAll (run against the real simulator inside Coq, natural and permuted schedules)',
                        'hypotheses registered_once / single_writer / outs_nodup / topo of the theorems are evaluated (vm_compute) on every dumped real design',
                        'C05_clk_split: combinational list in dependency order; AsynchronousMemory (stateful propagate) excluded']


# ------------------------------------------------------------------------------------------------ replay
def replay(rp):
    fam, seed, dom = rp.get('family'), rp.get('seed'), rp.get('domains', 1)
    if fam is None:
        print(json.dumps(rp, indent=1)[:4000]); return 0
    steps = [([tuple(p) for p in pokes], n) for pokes, n in rp['steps']]
    res = run_case(fam, seed, dom, len(steps), ['reverse', 'random', 'rotate'], want_dump=False, steps=steps)
    if res['problem'] is None:
        print('replay: %s seed %s domains %s: all schedules agree with the snapshot-then-apply reference on the %d recorded steps' % (fam, seed, dom, len(steps)))
        return 0
    print('replay: STILL FAILING'); print(json.dumps(res['problem'], indent=1, default=str)[:3000])
    return 1
