"""C20 — the hardware-in-the-loop UART command codec decodes and encodes exactly.
Proof:  Properties/C20.v over the REGENERATED CMDRequest_clock / CMDResponse_clock (Gen/Seq.v) wrapped into the cycle
        semantics of Model/Cmd.v (producer with handshake + arbitrary gaps, consumer with arbitrary ready pacing).
Tie:    (a) the generated step functions are evaluated in Coq against clock() of real objects on random states/inputs;
        (b) real blocks driven by random command streams / pacings, every wire every cycle compared in Coq with
            Model/Cmd.v (sys_trace / rs_run) and with the kernel model (netlist.Dump);
        (c) events / transferred characters of the REAL traces compared with Spec/C20.v (expected / response) in Coq.
Search: the same sweep, wider, against a Python copy of the spec (itself compared with the Coq spec on every run)."""
import random
import common, netlist
from common import quiet, zlit, zlist
from props import c20_lib as L

NEEDED = ['CMDRequest_clock', 'CMDResponse_clock']
F1 = 'C20-F1'


# ------------------------------------------------------------------ (a) generated definitions vs clock()
def step_tie(ctx, n_req, n_resp):
    rng = random.Random(ctx.seed * 7919 + 1)
    py4hw = common.quiet_import()
    items, exp = [], []
    for k in range(n_req):
        W = L.random_widths(rng)
        st = {'state': rng.choice(list(range(11)) * 3 + [11, 12, 255]), 'cur_type': rng.randint(0, 4),
              'new_c': rng.choice(L.SPECIAL + L.DIGITS + L.DIGITS + [10, 32, 97, 102, 71, 47, 58, 64, rng.randint(0, 255)]),
              'temp': rng.choice([0, 0, 1, 2, rng.randint(0, 255), rng.randint(0, 1 << 40)])}
        valid, c = rng.randint(0, 1), rng.randint(0, 255)
        got = L.req_clock_once(py4hw, W, st, valid, c)
        items.append('(%s)' % L.coq_req_clock(W, st, valid, c)); exp.append(got)
        ctx.count(('req-step', st['state'], st['new_c'] if st['state'] == 2 else valid, st['temp'] == 0))
    items2, exp2 = [], []
    for k in range(n_resp):
        wvalid, wv = rng.choice([1, 1, 2]), rng.choice([8, 8, 7, 9])
        st = {'state': rng.choice(list(range(7)) * 3 + [7, 9]), 'temp': rng.choice([0, rng.randint(0, 255), rng.randint(0, 1 << 40)]),
              'temp_size': rng.randint(0, 11), 'aux': rng.randint(0, 15)}
        ins = {'vin': rng.randint(0, (1 << 32) - 1), 'size': rng.randint(1, 12), 'start_resp': rng.randint(0, 1), 'ready': rng.randint(0, 1)}
        got = L.resp_clock_once(py4hw, wvalid, wv, st, ins)
        items2.append('(%s)' % L.coq_resp_clock(wvalid, wv, st, ins)); exp2.append(got)
        ctx.count(('resp-step', st['state'], ins['ready'], ins['start_resp'], st['temp_size'] == 0))
    res = common.coq_eval('C20_step', L.PRELUDE, [('req', '[' + '; '.join(items) + ']'), ('resp', '[' + '; '.join(items2) + ']')])
    for cls, ex, rs in (('CMDRequest', exp, res['req']), ('CMDResponse', exp2, res['resp'])):
        for got, mv in zip(ex, rs):
            if L.norm(mv) != L.norm(got['model_form']):
                return {'what': 'generated %s_clock disagrees with %s.clock()' % (cls, cls), 'case': got['case'],
                        'impl': got['model_form'], 'model': mv}
    return None


# ------------------------------------------------------------------ (b)+(c) closed-loop sweeps
def req_collect(ctx, n, with_dump, kernel_n=6):
    """drive n random command streams through the real decoder; ('spec', replay) on the first impl != spec, else the runs."""
    py4hw = common.quiet_import()
    runs = []
    for i in range(n):
        rng = random.Random(ctx.seed * 100003 + i)
        W = L.random_widths(rng)
        cmds = L.random_cmds(rng, i)
        sched = L.random_sched(rng, cmds)
        run = L.run_request(py4hw, W, sched, want_dump=with_dump and i < kernel_n)
        run.update(W=W, cmds=cmds, sched=sched, idx=i)
        bad = L.judge_request(run)
        ctx.count(('req', tuple((c[0], len(c[1]) if c[0] != 'X' else c[1]) for c in cmds), tuple(sorted(W.items()))), n=len(run['trace']))
        if i < 2: ctx.sample({'decoder_stream': L.cmds_text(cmds), 'widths': W, 'gaps': [len(g) for g, _ in sched],
                              'cycles': len(run['trace']), 'events': run['events']})
        if bad:
            return ('spec', L.req_replay(run, bad))
        runs.append(run)
    return runs


def resp_collect(ctx, n, with_dump, kernel_n=6):
    py4hw = common.quiet_import()
    runs = []
    for i in range(n):
        rng = random.Random(ctx.seed * 200003 + i)
        cfg = L.random_resp_cfg(rng, i)
        run = L.run_response(py4hw, cfg, rng, want_dump=with_dump and i < kernel_n)
        run['idx'] = i
        bad = L.judge_response(run)
        ctx.count(('resp', cfg['wvin'], tuple((v, k) for v, k in cfg['requests']), tuple(cfg['pattern'])), n=len(run['ins']))
        if i < 2: ctx.sample({'encoder_requests': cfg['requests'], 'consumer_pacing': cfg['pattern'], 'cycles': len(run['ins']),
                              'transferred': ''.join(chr(c) for c in run['xfers'])})
        if bad:
            return ('spec', L.resp_replay(run, bad))
        runs.append(run)
    return runs


def coq_compare(ctx, qruns, rruns):
    """one case file: every wire of every cycle vs Model/Cmd.v, real events / characters vs Spec/C20.v; one kernel-model comparison."""
    items = [('q%d' % k, L.coq_req_case(run)) for k, run in enumerate(qruns)] + [('r%d' % k, L.coq_resp_case(run)) for k, run in enumerate(rruns)]
    res = common.coq_eval('C20_sweep', L.PRELUDE, items, timeout=900)
    for k, run in enumerate(qruns):
        diff, ev_impl, ev_spec, left = res['q%d' % k]
        if L.norm(ev_spec) != L.norm([list(e) for e in L.py_expected(run['cmds'], run['W'])]):
            return ('tie', {'what': 'the Python copy of the spec disagrees with Spec/C20.v (harness defect)', 'cmds': run['cmds'], 'coq': ev_spec})
        if L.norm(ev_impl) != L.norm(ev_spec):
            return ('spec', L.req_replay(run, 'events of the real trace (evaluated by Spec.C20.events in Coq) differ from expected'))
        if diff is not None or left != 0:
            return ('tie', {'what': 'Model/Cmd.v sys_trace over the regenerated CMDRequest_clock differs from the real block',
                            'first_diff(cycle,(wire,impl,model))': diff, 'producer_items_left_in_model': left,
                            'stream': L.cmds_text(run['cmds']), 'widths': run['W'], 'sched': run['sched']})
    for k, run in enumerate(rruns):
        diff, xf_model, resp_spec = res['r%d' % k]
        if L.norm(resp_spec) != L.norm(L.py_responses(run['cfg']['requests'])):
            return ('tie', {'what': 'the Python copy of the response spec disagrees with Spec/C20.v (harness defect)', 'coq': resp_spec})
        if L.norm(run['xfers']) != L.norm(resp_spec):
            return ('spec', L.resp_replay(run, 'transferred characters differ from Spec.C20.response'))
        if diff is not None or L.norm(xf_model) != L.norm(run['xfers']):
            return ('tie', {'what': 'Model/Cmd.v rs_run over the regenerated CMDResponse_clock differs from the real block',
                            'first_diff(cycle,(wire,impl,model))': diff, 'model_xfers': xf_model, 'impl_xfers': run['xfers'], 'cfg': run['cfg']})
    batch = [(r['dump'], r['steps'], r['init'], r['full_trace']) for r in qruns + rruns if r.get('dump') is not None]
    if batch:
        for (dp, steps, iv, tr), df in zip(batch, netlist.compare('C20_kernel', batch)):
            if df is not None:
                return ('tie', {'what': 'kernel model (SimKernel + generated clock functions) differs from the real simulator', 'diff': df,
                                'block': type(dp.seq_objs[0]).__name__})
        ctx.notes['kernel_model_runs'] = len(batch)
    return None


def history_sweep(ctx, n):
    """the composed codec built along n construction histories (containers x instantiation order x points at which the
    simulator already existed), judged against the Python copy of the spec after every construction step."""
    py4hw = common.quiet_import()
    for k, hist in enumerate(L.history_cases(random.Random(ctx.seed * 300007 + 11), n)):
        res = L.run_codec_history(py4hw, hist)
        ctx.count(('hist', hist['container'], hist['order'], hist['sim_points'], hist['clocking'], hist['drv_wire'], hist['drv_when'], tuple(hist['pattern'])), n=max(res['cycles'], 1))
        if k < 1: ctx.sample({'construction_history': {x: hist[x] for x in ('container', 'order', 'sim_points', 'clocking', 'drv_wire', 'drv_when', 'pattern')}, 'log': res['log'][:4]})
        if res['bad']:
            return L.hist_replay(res)
    ctx.notes['construction_histories'] = n
    return None


def multi_sweep(ctx, n):
    """n systems with 2-3 command channels each (identical instance names under different wrappers; system clock, one shared or one
    derived clock domain per channel), all channels running concurrently, each judged against the Python copy of the spec."""
    py4hw = common.quiet_import()
    for k, case in enumerate(L.multi_cases(random.Random(ctx.seed * 400009 + 3), n)):
        res = L.run_multi(py4hw, case)
        ctx.count(('multi', case['channels'], case['domains'], case['layout'], case['drv_wire'], tuple(c['stream'] for c in res['channels'])),
                  n=max(res['cycles'], 1) * case['channels'])
        if k < 1: ctx.sample({'multi_channel_system': {x: case[x] for x in ('channels', 'domains', 'layout', 'drv_wire')}, 'channels': res['channels'][:2]})
        if res['bad']:
            return L.multi_replay(res)
    ctx.notes['multi_channel_systems'] = n
    return None


def structured_search(ctx, budget_cases):
    """impl vs the Python spec only (no Coq): exhaustive short digit strings for every command, boundary values,
    every terminator after every prefix letter, long random streams."""
    py4hw = common.quiet_import()
    n = 0
    for W, cmds, sched in L.structured_req_cases(random.Random(ctx.seed + 5), budget_cases):
        run = L.run_request(py4hw, W, sched, want_dump=False); run.update(W=W, cmds=cmds, sched=sched, idx=-1)
        n += 1; ctx.count(('req-s', L.cmds_text(cmds), tuple(sorted(W.items()))), n=len(run['trace']))
        bad = L.judge_request(run)
        if bad: return ('spec', L.req_replay(run, bad))
    for cfg in L.structured_resp_cases(random.Random(ctx.seed + 6), budget_cases):
        run = L.run_response(py4hw, cfg, random.Random(ctx.seed + 7 + n), want_dump=False); run['idx'] = -1
        n += 1; ctx.count(('resp-s', cfg['wvin'], tuple(cfg['requests']), tuple(cfg['pattern'])), n=len(run['ins']))
        bad = L.judge_response(run)
        if bad: return ('spec', L.resp_replay(run, bad))
    ctx.notes['structured_search_cases'] = n
    return None


def minimise(found):
    """replace a failing random case by the smallest failing variant the shrinker finds (same block, same oracle)."""
    try:
        py4hw = common.quiet_import()
        if found.get('kind_of_case') == 'request':
            run = {'W': found['widths'], 'cmds': [(k, a) for k, a in found['cmds']]}
            m = L.shrink_request(py4hw, run)
            if m: return dict(L.req_replay(m[0], m[1]), shrunk_from=found['stream'])
        elif found.get('kind_of_case') == 'response':
            m = L.shrink_response(py4hw, {'cfg': found['cfg']})
            if m: return dict(L.resp_replay(m[0], m[1]), shrunk_from=str(found['cfg']['requests']))
    except Exception as ex:
        found = dict(found, shrink_error=repr(ex))
    return found


def size0_finding(ctx):
    """known finding C20-F1: CMDResponse with size = 0 (createHILUART's padding outputs) cannot produce '=!'."""
    py4hw = common.quiet_import()
    obs = L.size0_probe(py4hw)
    ctx.notes['size0_probe'] = obs
    ctx.count(('resp-size0',))
    L.MIN_K = 0 if obs['outcome'] == 'ok' else 1
    known = [f for f in ctx.known if f['id'] == F1 and f.get('status') == 'known']
    if obs['outcome'] == 'ok':
        ctx.notes['size0_probe']['note'] = 'size = 0 yields "=!": finding %s does not reproduce; the sweeps include size 0' % F1
        return
    if known:
        ctx.known_finding(F1, 'CMDResponse with size=0 does not answer "=!": %s (block=CMDResponse, predicate size==0)' % obs['detail'])
    else:       # no (or only a "fixed") entry: a concrete failing input, reported by run()
        return {'what': 'CMDResponse with size = 0 does not produce "=!"', 'block': 'CMDResponse', 'vin': 5, 'size': 0,
                'start_resp': '1 for one cycle', 'ready': 1, 'observed': obs['detail'], 'expected': '=!'}


def run(ctx):
    ctx.cov['rule'] = ('obligations: theorems of Properties/C20.v over the regenerated CMDRequest_clock/CMDResponse_clock. Cases: (i) one clock() '
                       'call of a real block from a random internal state vs the generated definition; distinct by (state, char class or handshake '
                       'inputs); (ii) a real block driven for a whole command stream / response by a random producer schedule or consumer pacing, every '
                       'wire compared every cycle with Model/Cmd.v and the kernel model in Coq, events / transferred characters compared with Spec/C20.v; '
                       'distinct by (command shapes, widths) resp. (vin width, requests, pacing); evaluations = clock edges simulated on the real block. '
                       'All cases are non-trivial: each stream contains at least one command / each response at least 3 characters.')
    missing = ctx.regen(NEEDED)
    r = ctx.prove(['Properties/C20.v'])
    ctx.log('proof build ok=%s' % r['ok'])
    have_model = not missing
    q = ctx.quick
    tie = None
    if have_model:
        try:
            try:
                tie = step_tie(ctx, 260 if q else 2500, 160 if q else 1500)
            except RuntimeError:
                raise
            except Exception as ex:       # clock() of the real block raised on a single-step case
                tie = {'what': 'clock() raised %s: %s on a single-step case' % (type(ex).__name__, ex)}
            ctx.log('step tie: %s' % ('ok' if tie is None else tie['what']))
        except RuntimeError as ex:
            have_model = False
            tie = {'what': 'the Coq model of C20 no longer builds', 'coq_error': str(ex)[-1500:]}
    found = size0_finding(ctx)
    qruns = req_collect(ctx, 36 if q else 600, have_model)
    rruns = [] if (isinstance(qruns, tuple) or found) else resp_collect(ctx, 30 if q else 480, have_model)
    for x in (qruns, rruns):
        if isinstance(x, tuple) and found is None: found = x[1]
    if isinstance(qruns, tuple): qruns = []
    if found is None:
        found = history_sweep(ctx, 48 if q else 480)
    if found is None:
        found = multi_sweep(ctx, 16 if q else 160)
    ctx.log('real-block sweeps + construction histories: %s' % ('impl != spec' if found else 'impl = python copy of the spec'))
    if found is None and have_model:
        try:
            res = None
            for a in range(0, max(len(qruns), len(rruns)), 60):       # <= 120 runs per case file
                res = coq_compare(ctx, qruns[a:a + 60], rruns[a:a + 60])
                if res: break
        except RuntimeError as ex:
            res = ('tie', {'what': 'case file failed in Coq', 'coq_error': str(ex)[-1500:]})
        ctx.log('Coq comparison (Model/Cmd.v, Spec/C20.v, kernel model): %s' % ('ok' if not res else res[0]))
        if res and res[0] == 'spec': found = res[1]
        elif res and tie is None: tie = res[1]
    broken = (not r['ok']) or missing or tie is not None
    if found is None and (broken or not q):
        res = structured_search(ctx, 400 if q else 5000)
        if res: found = res[1]
    if found is not None:
        ctx.violation(minimise(found))
    elif broken:
        what = ('translator rejected %s: %s' % (missing, {k: ctx.gen['errors'].get(k) for k in missing}) if missing else
                'proof obligation no longer checks: %s in %s' % (r.get('lemma'), r.get('file')) if not r['ok'] else
                'correspondence broken: %s' % tie.get('what'))
        ctx.violation({'what': what, 'theorem': r.get('lemma'), 'file': r.get('file'), 'coq_error': r.get('msg'), 'tie': tie}, found_input=False)
    ctx.assumptions += [
        'a block step is: clock() on the current input wire values, then every prepared wire settles (Model/Cmd.v rq_step/rs_step; compared with the '
        'real simulator and with Model/SimKernel.v on every run)',
        'decoder environment: any (valid, c) stream (req_transducer) / a producer that holds valid+char until ready was high at an edge (req_*); '
        'encoder environment: any ready stream, enough ready cycles for completion',
        'widths: enables and handshake wires >= 1 bit, v wire >= 7 bits (ASCII); response size any k >= 0']


def replay(rp):
    py4hw = common.quiet_import()
    return L.replay(py4hw, rp)
