"""C02 — shared pipeline: one program (live block) -> source term, emitted text, parsed design, stimulus, real trace;
batches are evaluated in one Coq case file (validator verdict, PySem trajectories, VSem trajectory)."""
import os, sys, re, random, importlib.util, traceback
import common, vparse, vlog
from common import quiet, zlit
from props import c02_dump

PRELUDE = ('From V Require Import Base.PyInt Model.VSyntax Model.VSem Model.PySyntax Model.PySem Model.Tv.\n'
           'Open Scope string_scope.\n')


class Program:
    """a constructed block plus everything derived from it"""
    def __init__(self, name, hw, top, origin, source_text=None, recipe=None):
        self.name, self.hw, self.top, self.origin = name, hw, top, origin
        self.recipe = recipe                      # how to rebuild it (replay)
        self.dump = c02_dump.Dump(top)
        self.kind = self.dump.kind
        self.source_text = source_text or self.dump.source
        self.outs = [c02_dump.verilog_name(p.name) for p in top.outPorts]
        self.attrs = list(self.dump.assigned_attrs)
        self.text = None; self.raised = None; self.mods = None; self.parse_error = None
        self.steps = None; self.trace = None; self.sim_error = None

    def transpile(self):
        try:
            self.text = vlog.emit(self.top)
        except BaseException as ex:               # the transpiler refuses (any exception, incl. AssertionError / SystemExit)
            if isinstance(ex, KeyboardInterrupt): raise
            self.raised = '%s: %s' % (type(ex).__name__, str(ex)[:200])
            return
        try:
            # block comments (`/* print removed */`) are white space in Verilog; the shared tokenizer only knows `//`
            self.mods = vparse.parse(re.sub(r'/\*.*?\*/', ' ', self.text, flags=re.S))
        except vparse.VParseError as ex:
            self.parse_error = str(ex)

    def make_steps(self, rng, n):
        steps = []
        for _ in range(n):
            ins = []
            for p in self.top.inPorts:
                w = p.wire.getWidth()
                r = rng.random()
                v = rng.getrandbits(w) if r < 0.7 else rng.choice([0, 1, (1 << w) - 1, 1 << (w - 1)]) if r < 0.9 else rng.getrandbits(min(w, 3))
                ins.append((c02_dump.verilog_name(p.name), v))
            steps.append((ins, 1 if self.kind == 'clock' else 0))
        self.steps = steps

    def run_real(self):
        """the real simulator on the same stimulus: rows of (output ports ++ assigned attributes)"""
        top = self.top
        inw = {c02_dump.verilog_name(p.name): p.wire for p in top.inPorts}
        outw = [p.wire for p in top.outPorts]
        row = lambda: [w.get() for w in outw] + [int(getattr(top, a)) for a in self.attrs]
        tr = []
        try:
            with quiet():
                sim = self.hw.getSimulator()
            tr.append(row())
            for ins, n in self.steps:
                for name, v in ins: inw[name].put(v)
                with quiet():
                    if n == 0: sim.propagateAll()
                    else: sim.clk(n)
                tr.append(row())
        except BaseException as ex:
            if isinstance(ex, KeyboardInterrupt): raise
            self.sim_error = '%s: %s' % (type(ex).__name__, str(ex)[:200])
        finally:
            try:
                from py4hw.base import Wire
                Wire.prepared.clear()
            except Exception: pass
        self.trace = tr


def coq_steps(steps):
    return '[' + '; '.join('([%s], %d%%nat)' % ('; '.join('(%s, %s)' % (vparse.cq_str(n), zlit(v)) for n, v in ins), n) for ins, n in steps) + ']'

def coq_strs(xs):
    return '[' + '; '.join(vparse.cq_str(x) for x in xs) + ']'


def evaluate(tag, progs, timeout=900):
    """progs with .mods set.  Returns {index: dict(tv, dom=(rows, ok), py=(rows, ok), v=('elab', err) | (rows, stable))}"""
    body, items = [PRELUDE], []
    for i, p in enumerate(progs):
        body.append('Definition src%d : pyblock := %s.' % (i, p.dump.term()))
        body.append('Definition dsg%d : design := %s.' % (i, vparse.cq_design(p.mods)))
        body.append('Definition stp%d : list (list (string * Z) * nat) := %s.' % (i, coq_steps(p.steps)))
        topm = vparse.cq_str(p.mods[0][1])
        clk = vparse.cq_str(vlog.clock_name(p.top))
        outs, attrs = coq_strs(p.outs), coq_strs(p.attrs)
        items.append(('r%d' % i,
                      '(match dsg%d with m :: _ => tv_block src%d m | [] => false end, '
                      'py_sim g_dom src%d stp%d %s %s, py_sim g_all src%d stp%d %s %s, '
                      'match elaborate dsg%d 200 %s with inl e => inl e | inr f => inr (vsim f %s stp%d (%s ++ %s), flat_clk f) end)'
                      % (i, i, i, i, outs, attrs, i, i, outs, attrs, i, topm, clk, i, outs, attrs)))
    out = common.coq_eval(tag, '\n'.join(body), items, timeout=timeout)
    res = {}
    for i, p in enumerate(progs):
        tvv, dom, py, v = out['r%d' % i]
        kind, val = v
        if kind == 'inl': vv = ('elab', val)
        else:
            rows, stable, fclk = val            # Coq prints ((a, b), c) as (a, b, c)
            vv = (rows, stable, fclk)
        res[i] = {'tv': tvv, 'dom': dom, 'py': py, 'v': vv}
    return res


def evaluate_source_only(tag, progs, timeout=600):
    """programs whose emitted text is unusable: still run PySem (tie with the real simulator)"""
    body, items = [PRELUDE], []
    for i, p in enumerate(progs):
        body.append('Definition src%d : pyblock := %s.' % (i, p.dump.term()))
        body.append('Definition stp%d : list (list (string * Z) * nat) := %s.' % (i, coq_steps(p.steps)))
        outs, attrs = coq_strs(p.outs), coq_strs(p.attrs)
        items.append(('r%d' % i, '(py_sim g_dom src%d stp%d %s %s, py_sim g_all src%d stp%d %s %s)' % (i, i, outs, attrs, i, i, outs, attrs)))
    out = common.coq_eval(tag, '\n'.join(body), items, timeout=timeout)
    res = {}
    for i in range(len(progs)):
        a, b, py = out['r%d' % i]                 # Coq prints ((a, b), (c, d)) as (a, b, (c, d))
        res[i] = {'dom': (a, b), 'py': py}
    return res


def first_diff(a, b, start=0, limit=None):
    """first (row, column, x, y) where two row lists differ (rows start..limit-1)"""
    n = min(len(a), len(b)) if limit is None else min(len(a), len(b), limit)
    for t in range(start, n):
        for k, (x, y) in enumerate(zip(a[t], b[t])):
            if x != y: return (t, k, x, y)
    return None


# ------------------------------------------------------------------ loading generated / replayed classes from a file
def load_module(path, modname):
    spec = importlib.util.spec_from_file_location(modname, path)
    mod = importlib.util.module_from_spec(spec)
    sys.modules[modname] = mod
    with quiet():
        spec.loader.exec_module(mod)
    return mod
