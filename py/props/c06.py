"""C06 — wire values always fit their declared width.
Proof: Properties/C06.v over the REGENERATED Wire.put/prepare (Gen/WireOps.v) and the kernel model.
Tie:   (a) Gen/WireOps.v is regenerated from py4hw/base.py; (b) fail-closed AST scan: nobody writes .value/.next of
       another object; (c) the kernel model is run against the real simulator on random designs inside Coq.
Search/oracle: drive real designs with extreme / negative / oversized stimulus and read every reachable wire."""
import random
import ast, glob, os
import common, netlist, designs
from common import REPO, quiet

NEEDED = ['Wire_put', 'Wire_prepare', 'BidirWire_put', 'BidirWire_prepare']

# writes to <expr>.value / <expr>.next with <expr> != self that exist at the pinned commit and are not wires
ALLOWED_FOREIGN = {('py4hw/external/intel/VectorWaveformFile.py', 'obj.value'), ('py4hw/schematic.py', 'node.next')}
WIRE_METHODS = {'value': {'__init__', 'put', 'settle'}, 'next': {'prepare'}}


def scan_writers():
    """premise of C06_invariant: wire values change only through put / prepare / settle."""
    bad = []
    for f in sorted(glob.glob(os.path.join(REPO, 'py4hw', '**', '*.py'), recursive=True)):
        rel = os.path.relpath(f, REPO)
        try:
            tree = ast.parse(open(f, encoding='utf-8').read())
        except Exception:
            continue        # ast2src.py / hls_timed.py do not parse at the pinned commit either (not importable code)
        for cls in [n for n in ast.walk(tree) if isinstance(n, ast.ClassDef)] + [tree]:
            is_wire = isinstance(cls, ast.ClassDef) and (cls.name in ('Wire', 'BidirWire') or any(ast.unparse(b) in ('Wire', 'BidirWire') for b in cls.bases))
            funcs = [m for m in cls.body if isinstance(m, ast.FunctionDef)] if isinstance(cls, ast.ClassDef) else []
            scope = funcs if isinstance(cls, ast.ClassDef) else [tree]
            for fn in scope:
                for n in ast.walk(fn):
                    tg = n.targets if isinstance(n, ast.Assign) else [n.target] if isinstance(n, (ast.AugAssign, ast.AnnAssign)) else []
                    for t in tg:
                        for x in ast.walk(t):
                            if isinstance(x, ast.Attribute) and x.attr in ('value', 'next'):
                                base = ast.unparse(x.value)
                                if base == 'self':
                                    if is_wire and getattr(fn, 'name', None) not in WIRE_METHODS[x.attr]:
                                        bad.append('%s:%d %s.%s writes self.%s' % (rel, n.lineno, cls.name, fn.name, x.attr))
                                elif isinstance(cls, ast.ClassDef) and (rel, ast.unparse(x)) not in ALLOWED_FOREIGN:
                                    bad.append('%s:%d writes %s' % (rel, n.lineno, ast.unparse(x)))
    return sorted(set(bad))


def out_of_range(top):
    bad = []
    for w in netlist.all_wires(top):
        v = w.get()
        if not (isinstance(v, int) and 0 <= v < (1 << w.getWidth())):
            bad.append((w.getFullPath(), w.getWidth(), v))
    return bad


def sweep(ctx, n_designs, n_steps, with_model):
    """random designs x extreme stimulus: range oracle on the real simulator (+ kernel model comparison in Coq)."""
    batch = []
    for i in range(n_designs):
        rng = __import__('random').Random(ctx.seed * 100003 + i)
        hw, ins, info = designs.build_random(rng, n_blocks=rng.randint(4, 14), n_inputs=rng.randint(1, 4))
        try:
            dp = netlist.Dump(hw)
        except netlist.NotDumpable as ex:
            ctx.log('design %d not dumpable: %s' % (i, ex)); continue
        iv = dp.values()
        bad = out_of_range(hw)
        steps = designs.random_steps(rng, dp, ins, n_steps, max_clk=2)
        trace = []
        for k, st in enumerate(steps):
            trace += dp.run_impl([st])
            if not bad:
                b = out_of_range(hw)
                if b: bad = [(k,) + x for x in b]
        ctx.count(('design', tuple(info['blocks']), tuple(w.getWidth() for w in dp.wires)), n=len(steps))
        if bad:
            ctx.violation({'what': 'a wire holds a value outside [0, 2**width)', 'design_seed': ctx.seed * 100003 + i,
                           'blocks': info['blocks'], 'steps': steps[:bad[0][0] + 1] if len(bad[0]) == 4 else [],
                           'wire': bad[0][-3], 'width': bad[0][-2], 'value': bad[0][-1],
                           'replay_hint': 'designs.build_random(Random(design_seed)); poke the steps; read the wire'})
            return False
        if i < 3: ctx.sample({'blocks': info['blocks'], 'first_step': steps[0], 'values_after': trace[0]})
        if with_model: batch.append((dp, steps, iv, trace))
    if batch:
        diffs = netlist.compare('C06_kernel', batch)
        for (dp, steps, iv, trace), df in zip(batch, diffs):
            if df is not None:
                ctx.violation({'what': 'kernel model and real simulator disagree (correspondence broken)', 'diff(step,(wire,impl,model))': df,
                               'wire_name': dp.wires[df[1][0]].getFullPath() if df[1][0] < len(dp.wires) else None, 'steps': steps},
                              found_input=False)
                return False
        ctx.notes['kernel_model_designs_compared'] = len(batch)
    return True


def extremes_on_primitives(ctx):
    """each translated primitive, real object, extreme operands through real Wires; compared with the generated
    definition evaluated in Coq (this also tests the translator) and range-checked."""
    py4hw = common.quiet_import()
    cases, items = [], []
    def mk(widths):
        hw = py4hw.HWSystem()
        return hw, [hw.wire('w%d' % i, w) for i, w in enumerate(widths)]
    ext = lambda w: [0, 1, (1 << w) - 1, 1 << (w - 1), (1 << w) - 2]
    k = 0
    for wa in (1, 2, 5, 8):
        for wr in (1, 3, 8, 11):
            for cls, f in (('Not', 'Not_propagate {wr} {a}'), ('ShiftLeftConstant', 'ShiftLeftConstant_propagate {wr} {n} {a}'),
                           ('Mul', 'Mul_propagate {wr} {a} {b}'), ('Sub', 'Sub_propagate {wr} {a} {b}'),
                           ('AddCarryIn', 'AddCarryIn_propagate {wr} {a} {b} 1'), ('Constant', 'Constant_propagate {wr} {c}'),
                           ('SignExtend', 'SignExtend_propagate {wa} {wr} {a}'), ('Repeat', 'Repeat_propagate {wr} {a1}')):
                for a in ext(wa):
                    b = ext(wa)[(a + 1) % 5]; n = (a % 13); c = a - (1 << wr) * 3 - 7
                    with quiet():
                        if cls == 'Not': hw, (A, R) = mk([wa, wr]); py4hw.Not(hw, 'x', A, R); A.put(a)
                        elif cls == 'ShiftLeftConstant': hw, (A, R) = mk([wa, wr]); py4hw.ShiftLeftConstant(hw, 'x', A, n, R); A.put(a)
                        elif cls == 'Mul': hw, (A, B, R) = mk([wa, wa, wr]); py4hw.Mul(hw, 'x', A, B, R); A.put(a); B.put(b)
                        elif cls == 'Sub': hw, (A, B, R) = mk([wa, wa, wr]); py4hw.Sub(hw, 'x', A, B, R); A.put(a); B.put(b)
                        elif cls == 'AddCarryIn':
                            if wr < wa: continue
                            hw, (A, B, C, R) = mk([wa, wa, 1, wr]); py4hw.AddCarryIn(hw, 'x', A, B, R, C); A.put(a); B.put(b); C.put(1)
                        elif cls == 'Constant': hw, (R,) = mk([wr]); py4hw.Constant(hw, 'x', c, R)
                        elif cls == 'SignExtend':
                            if wr < wa: continue
                            hw, (A, R) = mk([wa, wr]); py4hw.SignExtend(hw, 'x', A, R); A.put(a)
                        elif cls == 'Repeat': hw, (A, R) = mk([1, wr]); py4hw.Repeat(hw, 'x', A, R); A.put(a & 1)
                        hw.getSimulator().propagateAll()
                    got = R.get()
                    bad = out_of_range(hw)
                    if bad:
                        ctx.violation({'what': 'primitive output outside [0, 2**width)', 'block': cls, 'wa': wa, 'wr': wr, 'a': a, 'b': b, 'n': n, 'const': c,
                                       'wire': bad[0][0], 'value': bad[0][2]})
                        return False
                    term = f.format(wa=wa, wr=wr, a=a, b=b, n=n, c=common.zlit(c), a1=a & 1)
                    if not ctx.gen['sigs'][cls + '_propagate']['outs'][0][1]:      # conditionally written output: option Z
                        term = 'match %s with Some v => v | None => -1 end' % term
                    items.append(('p%d' % k, term)); cases.append((cls, wa, wr, a, b, n, c, got)); k += 1
                    ctx.count(('prim', cls, wa, wr, a))
    res = common.coq_eval('C06_prims', 'From V Require Import Base.PyInt Gen.WireOps Gen.Helpers Gen.Prims.\n',
                          [('all', '[' + '; '.join(t for _, t in items) + ']')])
    for (cls, wa, wr, a, b, n, c, got), mv in zip(cases, res['all']):
        if mv != got:
            ctx.violation({'what': 'generated model of %s disagrees with the real propagate()' % cls, 'wa': wa, 'wr': wr, 'a': a, 'b': b, 'n': n,
                           'const': c, 'impl': got, 'model': mv}, found_input=False)
            return False
    ctx.sample({'primitive_case': cases[len(cases) // 2]})
    return True


def seq_extremes(ctx):
    """registers whose reset value does not fit, memories fed with data wider than the read port: the prepared
    value must be masked.  Real objects, range oracle on every wire after every edge."""
    py4hw = common.quiet_import()
    for w in (1, 3, 8):
        for rv in (-1, 1 << w, (1 << w) + 5, -(1 << w) - 3, (1 << (w + 7)) - 1):
            with quiet():
                hw = py4hw.HWSystem()
                d, q, r = hw.wire('d', w), hw.wire('q', w), hw.wire('r', 1)
                py4hw.Reg(hw, 'reg', d, q, reset=r, reset_value=rv)
                r.put(1); sim = hw.getSimulator(); sim.clk(1)
            ctx.count(('regrv', w, rv))
            bad = out_of_range(hw)
            if bad:
                ctx.violation({'what': 'register output outside [0, 2**width) after reset', 'block': 'Reg', 'width': w, 'reset_value': rv,
                               'stimulus': 'r=1; clk(1)', 'wire': bad[0][0], 'value': bad[0][2]})
                return False
    for (aw, dw, rw) in ((2, 8, 3), (1, 5, 1), (3, 4, 4)):
        with quiet():
            hw = py4hw.HWSystem()
            ra, wa, we = hw.wire('ra', aw), hw.wire('wa', aw), hw.wire('we', 1)
            rd, wd = hw.wire('rd', rw), hw.wire('wd', dw)
            py4hw.logic.storage.SynchronousMemory(hw, 'mem', ra, wa, we, rd, wd)
            sim = hw.getSimulator()
            wa.put(1); ra.put(1); we.put(1); wd.put((1 << dw) - 1); sim.clk(1); we.put(0); sim.clk(2)
        ctx.count(('mem', aw, dw, rw))
        bad = out_of_range(hw)
        if bad:
            ctx.violation({'what': 'memory read port outside [0, 2**width)', 'block': 'SynchronousMemory', 'addr_w': aw, 'data_w': dw, 'read_w': rw,
                           'stimulus': 'write all-ones at 1, read 1', 'wire': bad[0][0], 'value': bad[0][2]})
            return False
    return True


def catalogue_sweep(ctx, tier, rounds=1):
    """every library block of py/blocks.py (catalogue + pairs), real objects, stimulus biased to extreme operands (all-ones, top bit) and with result
    wires narrower/wider than the operands: range oracle on every wire of the hierarchy after construction and after every step."""
    import random, blocks
    for rd in range(rounds):
        rng = random.Random(ctx.seed * 7 + 13 + rd)
        for label, ins, outs, body in blocks.catalogue(rng, tier) + blocks.pair_catalogue(rng, tier):
            try:
                with quiet():
                    hw, top = blocks.make_top('R_' + label, ins, outs, body)
                    sim = hw.getSimulator()
            except Exception:
                continue
            inw = {p.name: p.wire for p in top.inPorts}
            bad = out_of_range(hw); hist = []
            for t in range(10):
                pk = [(n, rng.choice([(1 << w) - 1, 1 << (w - 1), (1 << w) - 2, rng.randrange(1 << w), rng.randrange(1 << w) | (1 << (w - 1))])) for n, w in ins]
                hist.append(pk)
                try:
                    with quiet():
                        for n, v in pk: inw[n].put(v)
                        if t % 3 == 2: sim.propagateAll()
                        else: sim.clk(1)
                except Exception:
                    break
                if not bad: bad = out_of_range(hw)
                if bad: break
            ctx.count(('catalogue-range', label, tuple(ins)), n=len(hist))
            if bad:
                ctx.violation({'what': 'a wire holds a value outside [0, 2**width)', 'block': label, 'ports_in': ins, 'ports_out': outs, 'pokes_per_step': hist,
                               'wire': bad[0][0], 'width': bad[0][1], 'value': bad[0][2],
                               'replay_hint': 'blocks.make_top(label, ins, outs, <catalogue body>); poke the steps (every third step propagateAll(), else clk(1)); read the wire'})
                return False
    return True


def stimulus_sweep(ctx, rounds=1):
    """simulation-only library blocks that write wires (Sequence, RandomValue, Constant, AutoReset ...) given values OUTSIDE the wire's range
    (negative, wider than the wire) in every position: range oracle after construction, after simulator creation and after every edge."""
    import random
    py4hw = common.quiet_import()
    for rd in range(rounds):
        rng = random.Random(ctx.seed * 11 + 5 + rd)
        for w in (1, 3, 4, 8):
            for n in (1, 2, 4):
                odd = lambda: rng.choice([-1, -3, -(1 << w), (1 << w), (1 << w) + 5, (1 << (w + 3)) - 1, rng.randrange(1 << w)])
                vals = [odd() for _ in range(n)]
                vals[rng.randrange(n)] = rng.choice([-3, (1 << w) + 1])          # at least one element out of range, in a random position
                for once in (False, True):
                    with quiet():
                        hw = py4hw.HWSystem(); r = hw.wire('r', w); q = hw.wire('q', w); c = hw.wire('c', w)
                        py4hw.Sequence(hw, 'seq', vals, r, once); py4hw.Reg(hw, 'reg', r, q)
                        py4hw.Constant(hw, 'k', vals[0], c)
                        # a bidirectional net written by TWO clocked sources in one cycle and read back through a BidirBuf
                        pad = hw.bidir_wire('pad', w); rb = hw.wire('rb', w); pin = hw.wire('pin', w); oe = hw.wire('oe', 1)
                        py4hw.Sequence(hw, 'seqb1', [v + 1 for v in vals], pad, once); py4hw.Sequence(hw, 'seqb2', vals[::-1], pad, once)
                        try: py4hw.BidirBuf(hw, 'bb', pin, rb, oe, pad)
                        except Exception: pass
                    where, bad = 'construction', out_of_range(hw)
                    if not bad:
                        with quiet(): sim = hw.getSimulator()
                        where, bad = 'simulator creation', out_of_range(hw)
                    k = 0
                    while not bad and k < n + 2:
                        with quiet(): sim.clk(1)
                        k += 1; where, bad = 'edge %d' % k, out_of_range(hw)
                    ctx.count(('stimulus-range', w, n, once), n=n + 3)
                    if bad:
                        ctx.violation({'what': 'a wire holds a value outside [0, 2**width)', 'block': 'Sequence(values, r, once) -> Reg, Constant(values[0])', 'width': w,
                                       'values': vals, 'once': once, 'after': where, 'wire': bad[0][0], 'value': bad[0][2]})
                        return False
    return True


def selector_histories(ctx):
    """blocks that COPY one of several operands (Mux2, Mux, Select/OneHotMux, Buf chains behind them) with operands narrower than, as wide
    as and wider than the result: the operand selected at the FIRST evaluation differs in kind from the one selected later, every operand
    carries all-ones, and every wire is range-checked after every evaluation, edge and inside a listener (a decision about masking taken for
    one operand must not be reused for another)."""
    py4hw = common.quiet_import()
    rng = random.Random(ctx.seed * 131 + 6)
    for wr in (1, 4, 7):
        for ws in ((wr, wr + 8), (wr + 8, wr), (max(1, wr - 1), wr + 5), (wr + 3, wr + 9), (wr, wr)):
            for first in (0, 1):
                for kind in ('mux2', 'mux', 'mux2_buf'):
                    with quiet():
                        hw = py4hw.HWSystem()
                        sel = hw.wire('sel', 1); ops = [hw.wire('op%d' % i, w) for i, w in enumerate(ws)]; r = hw.wire('r', wr)
                        if kind == 'mux': py4hw.Mux(hw, 'dut', sel, ops, r)
                        elif kind == 'mux2': py4hw.Mux2(hw, 'dut', sel, ops[0], ops[1], r)
                        else:
                            m = hw.wire('m', wr); py4hw.Mux2(hw, 'dut', sel, ops[0], ops[1], m); py4hw.Buf(hw, 'b', m, r)
                        sel.put(first)
                        for o in ops: o.put((1 << o.getWidth()) - 1)
                        sim = hw.getSimulator()
                    seen = []
                    class L:
                        def simulatorUpdated(self_): seen.extend(out_of_range(hw))
                    try: sim.addListener(L())
                    except Exception: pass
                    hist = [first] + [rng.randrange(2) for _ in range(3)] + [1 - first, first, 1 - first]
                    for t, sv in enumerate(hist):
                        with quiet():
                            sel.put(sv)
                            for o in ops: o.put(rng.choice([(1 << o.getWidth()) - 1, (1 << o.getWidth()) - 1, rng.getrandbits(o.getWidth())]))
                            sim.clk(1) if t % 2 else sim.propagateAll()
                        bad = out_of_range(hw) or seen
                        ctx.count(('selector', kind, wr, ws, first, t))
                        if bad:
                            ctx.violation({'what': 'wire outside [0, 2**width) after re-evaluating a selector whose operands have different widths',
                                           'block': kind, 'result_width': wr, 'operand_widths': list(ws), 'select_history': hist[:t + 1],
                                           'operands': 'all ones / random, re-poked before every evaluation', 'wire': bad[0][0], 'width': bad[0][1], 'value': bad[0][2]})
                            return False
    return True


def run(ctx):
    ctx.cov['rule'] = ('obligations: theorems of Properties/C06.v over the regenerated Wire.put/prepare; correspondence cases: '
                       '(random design x stimulus step) and (primitive x widths x extreme operand); a case is distinct by its block list + wire widths '
                       '(designs) or by (class, widths, operand) (primitives); all are non-trivial (they write at least one wire)')
    missing = ctx.regen(NEEDED)
    r = ctx.prove(['Properties/C06.v'])
    writers = scan_writers()
    ctx.notes['foreign_writers'] = writers
    tie_ok = not missing and r['ok'] and not writers
    nd, ns = (12, 6) if ctx.quick else (150, 12)
    ok = seq_extremes(ctx) and sweep(ctx, nd, ns, with_model=r['ok'] or not missing)
    if ok and not missing:
        ok = extremes_on_primitives(ctx)
    if ok:
        ok = selector_histories(ctx)
    if ok:
        ok = catalogue_sweep(ctx, ctx.tier) and stimulus_sweep(ctx)
    if ok and not tie_ok:
        # obligation or tie broken, and the search above found no wire out of range
        what = ('translator rejected %s: %s' % (missing, {k: ctx.gen['errors'].get(k) for k in missing}) if missing else
                'a write to a wire value bypasses put/prepare: %s' % writers if writers else
                'proof obligation no longer checks: %s in %s' % (r.get('lemma'), r.get('file')))
        if not ctx.quick or True:
            ok2 = sweep(ctx, 60, 10, with_model=False) and catalogue_sweep(ctx, 'thorough', rounds=3) and stimulus_sweep(ctx, rounds=4)      # widen the search before giving up
            if not ok2: return
        ctx.violation({'what': what, 'theorem': r.get('lemma'), 'file': r.get('file'), 'coq_error': r.get('msg')}, found_input=False)
    ctx.assumptions += ['blocks write wires only through Wire.put / Wire.prepare (checked by the AST scan of py4hw/**.py on every run)',
                        'Model/SimKernel.v mirrors Simulator._clk_cycle / Wire.settleAll (checked by running it against the real simulator in Coq)']
