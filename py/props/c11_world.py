"""C11 helpers: driving the REAL py4hw construction API with operation sequences (including illegal ones),
reading the resulting object graph back as the canonical dump of coq/Model/Build.v, random generation of
sequences with faults, and a catalogue of library blocks for the checkIntegrity sweep."""
import common
from common import quiet

ROUTE_OPS = ('WireVia', 'Wires')          # harness-level calls; expand() gives the primitive calls they must be equivalent to
OPS = ('NewLogic', 'NewWire', 'NewBidir', 'AddIn', 'AddOut', 'AddInOut', 'Rename', 'Reparent', 'ReparentAndRename')
UNKNOWN = -99          # an object reachable from the real state that the harness did not create


BUNDLE = 1000          # name codes >= BUNDLE stand for the members of a wires() bundle: code = BUNDLE * (prefix + 1) + index  <->  'n<prefix>_<index>'


def nm(k):
    if k >= BUNDLE: return 'n%d_%d' % (k // BUNDLE - 1, k % BUNDLE)
    return 'n%d' % k
def unnm(s):
    if s[:1] != 'n': return UNKNOWN
    a, sep, i = s[1:].partition('_')
    if not a.isdigit() or (sep and not i.isdigit()): return UNKNOWN
    return BUNDLE * (int(a) + 1) + int(i) if sep else int(a)


def has_behaviour(o):
    """ground truth of "primitive leaf" (independent of Logic.isPrimitive / has_method): the block has a propagate() or clock() METHOD,
    i.e. a callable attribute of that name; data stored under such a name (a wire in `self.clock`, `propagate = None`) is not behaviour"""
    return callable(getattr(o, 'propagate', None)) or callable(getattr(o, 'clock', None))


def block_classes(py4hw):
    """user-written block classes as they occur in practice.  structural: no behaviour, but possibly DATA attributes whose names coincide with
    the method names the kernel probes (clock / propagate / run / structureName / verilogBody); primitive: behaviour given as a method, an
    inherited method, or a callable instance attribute, possibly next to non-callable attributes of the other probed names"""
    L = py4hw.Logic
    class S_plain(L): pass
    class S_attr_clock(L):
        def __init__(self, p, n): super().__init__(p, n); self.clock = object()          # e.g. self.clock = self.addIn('clock', clk)
    class S_attr_propagate_none(L):
        def __init__(self, p, n): super().__init__(p, n); self.propagate = None; self.run = 0
    class S_class_attrs(L):
        clock = 0
        propagate = 'not a method'
    class S_attr_misc(L):
        def __init__(self, p, n): super().__init__(p, n); self.structureName = 'x'; self.verilogBody = None; self.clock = 5
    class P_propagate(L):
        def propagate(self): pass
    class P_clock(L):
        def clock(self): pass
    class P_both(L):
        def propagate(self): pass
        def clock(self): pass
    class P_instance_callable(L):
        def __init__(self, p, n): super().__init__(p, n); self.propagate = lambda: None
    class P_inherited_with_data_clock(P_propagate):
        clock = None
    class P_clock_with_data_propagate(L):
        def __init__(self, p, n): super().__init__(p, n); self.propagate = 7
        def clock(self): pass
    return ((S_plain, S_attr_clock, S_attr_propagate_none, S_class_attrs, S_attr_misc),
            (P_propagate, P_clock, P_both, P_instance_callable, P_inherited_with_data_clock, P_clock_with_data_propagate))


class World:
    """the real side: objects / wires / ports are numbered in order of SUCCESSFUL creation"""

    def __init__(self):
        self.py4hw = py4hw = common.quiet_import()
        self.struct_cls, self.prim_cls = block_classes(py4hw)
        self.prim_mismatch = []          # (object index, isPrimitive(), has behaviour) where the library's notion of "primitive" is wrong
        self.objs, self.wires, self.ports = [], [], []

    # ---- executing one operation; returns (raised?, text of the exception)
    def apply(self, op):
        py4hw = self.py4hw
        k = op[0]
        try:
            with quiet():
                if k == 'NewLogic':
                    par, n, prim = op[1], op[2], op[3]
                    variant = op[4] if len(op) > 4 else n + (par or 0)
                    fam = self.prim_cls if prim else self.struct_cls
                    cls = fam[variant % len(fam)]
                    o = cls(None if par is None else self.objs[par], nm(n))
                    self.objs.append(o)
                    if bool(o.isPrimitive()) != has_behaviour(o) or has_behaviour(o) != bool(prim):
                        self.prim_mismatch.append((len(self.objs) - 1, cls.__name__, bool(o.isPrimitive()), has_behaviour(o)))
                elif k in ('NewWire', 'NewBidir'):
                    _, p, n, width = op
                    w = (py4hw.Wire if k == 'NewWire' else py4hw.BidirWire)(self.objs[p], nm(n), width)
                    self.wires.append(w)
                elif k == 'WireVia':                      # the same creation through the factory method of the parent: parent.wire(name, width)
                    _, p, n, width = op
                    self.wires.append(self.objs[p].wire(nm(n), width))
                elif k == 'Wires':                        # parent.wires(prefix, num, width): the bundle prefix_0 .. prefix_{num-1} in ONE call
                    _, p, a, num, width = op
                    par = self.objs[p]
                    known = set(id(w) for w in self.wires)
                    try:
                        made = par.wires(nm(a), num, width)
                    finally:                              # also after a failure: the members that exist now and did not before, in order
                        for i in range(num):
                            w = par._wires.get(nm(BUNDLE * (a + 1) + i))
                            if w is not None and id(w) not in known:
                                self.wires.append(w); known.add(id(w))
                elif k in ('AddIfaceSource', 'AddIfaceSink'):      # obj.addInterfaceSource / addInterfaceSink(name, interface)
                    _, o, pre, s2s, k2s = op
                    import types
                    sig = (lambda g: str(g)) if pre is not None else (lambda g: nm(g))      # so that the port name is nm(port_name pre g) (Model/BuildIface.v)
                    iface = types.SimpleNamespace(sourceToSink=[(sig(g), self.wires[w]) for g, w in s2s], sinkToSource=[(sig(g), self.wires[w]) for g, w in k2s])
                    obj = self.objs[o]
                    n_out, n_in = len(obj.outPorts), len(obj.inPorts)
                    try:
                        getattr(obj, 'addInterfaceSource' if k == 'AddIfaceSource' else 'addInterfaceSink')('' if pre is None else nm(pre), iface)
                    finally:                              # also after a failure: the ports that exist now, in creation order (source: outs then ins; sink: ins then outs)
                        new_out, new_in = obj.outPorts[n_out:], obj.inPorts[n_in:]
                        for q in (new_out + new_in if k == 'AddIfaceSource' else new_in + new_out): self.ports.append(q)
                elif k in ('AddIn', 'AddOut', 'AddInOut'):
                    _, o, n, w = op
                    obj = self.objs[o]
                    lst = {'AddIn': obj.inPorts, 'AddOut': obj.outPorts, 'AddInOut': obj.inOutPorts}[k]
                    before = len(lst)
                    getattr(obj, {'AddIn': 'addIn', 'AddOut': 'addOut', 'AddInOut': 'addInOut'}[k])(nm(n), self.wires[w])
                    for p in lst[before:]:
                        self.ports.append(p)
                elif k == 'Rename':
                    self.wires[op[1]].rename(nm(op[2]))
                elif k == 'Reparent':
                    self.wires[op[1]].reparent(self.objs[op[2]])
                elif k == 'ReparentAndRename':
                    self.wires[op[1]].reparentAndRename(self.objs[op[2]], nm(op[3]))
                else:
                    raise ValueError(k)
            return False, ''
        except Exception as ex:                           # the documented error paths raise Exception / KeyError
            if isinstance(ex, ValueError) and str(ex) == k: raise
            return True, '%s: %s' % (type(ex).__name__, ex)

    # ---- canonical dump (same nesting as Model/Build.v `dump`)
    def dump(self):
        return dump_graph(self.py4hw, self.objs, self.wires, self.ports, unnm)


def dump_graph(py4hw, objs, wires, ports, name_of):
    oid = {id(o): i for i, o in enumerate(objs)}
    wid = {id(w): i for i, w in enumerate(wires)}
    pid = {id(p): i for i, p in enumerate(ports)}
    ix = lambda d, x: d.get(id(x), UNKNOWN)
    def tbl(d, idx):
        out = []
        for k, v in sorted((name_of(k), ix(idx, v)) for k, v in d.items()): out += [k, v]      # sorted by name (see Build.v ztbl)
        return out
    O = []
    for o in objs:
        O.append([[-1 if o.parent is None else ix(oid, o.parent), name_of(o.name), 1 if has_behaviour(o) else 0],
                  tbl(o.children, oid), tbl(o._wires, wid),
                  [ix(pid, p) for p in o.inPorts], [ix(pid, p) for p in o.outPorts], [ix(pid, p) for p in o.inOutPorts]])
    W = []
    for w in wires:
        bidir = isinstance(w, py4hw.BidirWire)
        src = getattr(w, 'source', None)                      # a BidirWire has `sources` and no attribute `source`
        W.append([[ix(oid, w.parent), name_of(w.name), w.getWidth(), -1 if src is None else ix(pid, src), 1 if bidir else 0],
                  [ix(pid, p) for p in w.getSinks()], [ix(pid, p) for p in getattr(w, 'sources', [])]])
    P = []
    for p in ports:
        kind = 0 if isinstance(p, py4hw.InPort) else 1 if isinstance(p, py4hw.OutPort) else 2
        P.append([[kind, ix(oid, p.parent), name_of(p.name), ix(wid, p.wire)]])
    return [O, W, P]


# fingerprint of a dump: the same fold as Model/BuildCheck.v fp_dump
_P = 2305843009213693951
def fp_dump(d):
    h = 1
    for part in d:
        h = (h * 1000003 + len(part) + 7) % _P
        for e in part:
            h = (h * 1000003 + len(e) + 7) % _P
            for row in e:
                h = (h * 1000003 + len(row) + 7) % _P
                for x in row:
                    h = (h * 1000003 + x + 7) % _P
    return h


# ---------------------------------------------------------------- Coq syntax
def zl(xs): return '[' + '; '.join(common.zlit(x) for x in xs) + ']'
def dump_term(d):
    return '[' + '; '.join('[' + '; '.join('[' + '; '.join(zl(r) for r in e) + ']' for e in part) + ']' for part in d) + ']'
def nat(n): return '%d%%nat' % n
def iop_term(op):
    """term of Model/BuildIface.v `iop`"""
    if op[0] in ('AddIfaceSource', 'AddIfaceSink'):
        _, o, pre, s2s, k2s = op
        pl = lambda l: '[' + '; '.join('(%s, %s)' % (common.zlit(g), nat(w)) for g, w in l) + ']'
        return '(%s %s %s (mkIface %s %s))' % (op[0], nat(o), 'None' if pre is None else '(Some %s)' % common.zlit(pre), pl(s2s), pl(k2s))
    return '(Prim %s)' % op_term(op)


def iface_run(rng, n_ops):
    """a random construction sequence with interface calls (sources and sinks on primitive and structural blocks, wires shared between interfaces
    so that second sources / driven wires occur, with and without a name prefix).  returns (world, ops, record)"""
    W = World(); ops, rec = [], []
    def do(op):
        r, txt = W.apply(op); ops.append(op); rec.append((r, W.dump(), txt)); return r
    do(('NewLogic', None, 0, False))
    for j in range(3): do(('NewLogic', 0, 1 + j, j != 1, j))
    for j in range(4): do(('NewWire', 0, 10 + j, rng.choice([1, 8])))
    while len(ops) < n_ops:
        x = rng.random(); no, nw = len(W.objs), len(W.wires)
        if x < 0.12: do(('NewWire', rng.randrange(no), rng.randrange(20, 30), rng.choice([1, 4])))
        elif x < 0.2: do(('NewLogic', rng.randrange(no), rng.randrange(5, 12), rng.random() < 0.6, rng.randrange(30)))
        elif x < 0.35: do((rng.choice(['AddIn', 'AddOut']), rng.randrange(no), rng.randrange(4), rng.randrange(nw)))
        else:
            k = rng.choice(['AddIfaceSource', 'AddIfaceSource', 'AddIfaceSink'])
            ns, nk = rng.randint(0, 3), rng.randint(0, 2)
            sigs = rng.sample(range(0, 9), ns + nk)
            s2s = [(sigs[i], rng.randrange(nw)) for i in range(ns)]; k2s = [(sigs[ns + i], rng.randrange(nw)) for i in range(nk)]
            do((k, rng.randrange(no), rng.choice([None, None, 3, 5]), s2s, k2s))
    return W, ops, rec


def op_term(op):
    k = op[0]
    if k == 'NewLogic':
        return '(NewLogic %s %s %s)' % ('None' if op[1] is None else '(Some %s)' % nat(op[1]), common.zlit(op[2]), common.blit(op[3]))
    if k in ('NewWire', 'NewBidir'): return '(%s %s %s %s)' % (k, nat(op[1]), common.zlit(op[2]), common.zlit(op[3]))
    if k in ('AddIn', 'AddOut', 'AddInOut'): return '(%s %s %s %s)' % (k, nat(op[1]), common.zlit(op[2]), nat(op[3]))
    if k == 'Rename': return '(Rename %s %s)' % (nat(op[1]), common.zlit(op[2]))
    if k == 'Reparent': return '(Reparent %s %s)' % (nat(op[1]), nat(op[2]))
    if k == 'ReparentAndRename': return '(ReparentAndRename %s %s %s)' % (nat(op[1]), nat(op[2]), common.zlit(op[3]))
    raise ValueError(k)


# ---------------------------------------------------------------- random sequences with faults
def random_run(rng, n_ops, fault_rate=0.3, names=6):
    """generates AND executes a sequence on a fresh World.  returns (world, ops, record) with
    record[i] = (raised, dump after op i, exception text).  About `fault_rate` of the calls are aimed at a conflict."""
    W = World()
    ops, rec = [], []
    failed_moves = []                # wires whose last move raised (they are in no table: further moves are the nasty case)
    def do(op):
        r, txt = W.apply(op)
        ops.append(op); rec.append((r, W.dump(), txt))
        if op[0] in ('Rename', 'Reparent', 'ReparentAndRename'):
            if r and op[1] not in failed_moves: failed_moves.append(op[1])
        return r
    do(('NewLogic', None, rng.randrange(names), False))
    while len(ops) < n_ops:
        fault = rng.random() < fault_rate
        x = rng.random()
        no, nw = len(W.objs), len(W.wires)
        if x < 0.16 or nw == 0 and x < 0.4:
            par = None if rng.random() < 0.12 else rng.randrange(no)
            n = rng.randrange(names)
            if fault and par is not None and W.objs[par].children:
                n = unnm(rng.choice(list(W.objs[par].children.keys())))
            do(('NewLogic', par, n, rng.random() < 0.6, rng.randrange(30)))
        elif x < 0.36 or nw == 0:
            p = rng.randrange(no); n = rng.randrange(names)
            if fault and W.objs[p]._wires:
                n = unnm(rng.choice(list(W.objs[p]._wires.keys())))
            do(('NewWire' if rng.random() < 0.65 else 'NewBidir', p, n, rng.choice([1, 1, 2, 8, 32])))
        elif x < 0.72:
            kind = rng.choice(['AddIn', 'AddIn', 'AddOut', 'AddOut', 'AddOut', 'AddInOut'])
            o = rng.randrange(no); w = rng.randrange(nw)
            if kind != 'AddIn':
                prims = [i for i, ob in enumerate(W.objs) if has_behaviour(ob)]
                driven = [i for i, wr in enumerate(W.wires) if getattr(wr, 'source', None) is not None]
                free = [i for i, wr in enumerate(W.wires) if getattr(wr, 'source', None) is None]
                if fault and prims and driven: o, w = rng.choice(prims), rng.choice(driven)
                elif not fault and free and rng.random() < 0.7: w = rng.choice(free)
            do((kind, o, rng.randrange(4), w))
        else:
            w = rng.choice(failed_moves) if failed_moves and rng.random() < 0.35 else rng.randrange(nw)
            kind = rng.choice(['Rename', 'Rename', 'Reparent', 'ReparentAndRename'])
            p = rng.randrange(no); n = rng.randrange(names)
            wr = W.wires[w]
            tgt = wr.parent if kind == 'Rename' else W.objs[p]
            if fault and tgt._wires and kind != 'Reparent':
                n = unnm(rng.choice(list(tgt._wires.keys())))
            if fault and kind == 'Reparent':
                c = [i for i, ob in enumerate(W.objs) if wr.name in ob._wires]
                if c: p = rng.choice(c)
            do({'Rename': ('Rename', w, n), 'Reparent': ('Reparent', w, p), 'ReparentAndRename': ('ReparentAndRename', w, p, n)}[kind])
    return W, ops, rec


def replay_ops(ops):
    """re-executes a recorded sequence on a fresh World"""
    W = World(); rec = []
    for op in ops:
        op = tuple(op)
        r, txt = W.apply(op)
        rec.append((r, W.dump(), txt))
    return W, rec


# ---------------------------------------------------------------- API routes: the factory methods must behave like the constructor calls they wrap
def expand(op):
    """primitive constructor calls a factory call stands for (executed until the first one that raises)"""
    if op[0] == 'WireVia': return [('NewWire', op[1], op[2], op[3])]
    if op[0] == 'Wires': return [('NewWire', op[1], BUNDLE * (op[2] + 1) + i, op[4]) for i in range(op[3])]
    return [op]


def tables(W):
    """(parent index, name) -> identity of the wire / child the parent lists under that name"""
    t = {}
    for i, o in enumerate(W.objs):
        for n, w in o._wires.items(): t[('wire', i, n)] = id(w)
        for n, c in o.children.items(): t[('child', i, n)] = id(c)
    return t


def route_run(rng, n_ops, names=4):
    """world A is built through the factory methods (parent.wire / parent.wires), world B through the plain constructor calls of expand();
    B's sequence is judged against the Coq model and the Spec like every other sequence.  Returns (A, B, opsA, opsB, recB, problems):
    problems = failures of the property seen on A directly ("the earlier wire stays in place": what a parent listed under a name before a call
    that raised it still lists afterwards; after a call that did not raise nothing it listed before is replaced) or differences between the
    object graphs of A and B."""
    A, B = World(), World()
    opsA, opsB, recB, problems = [], [], [], []
    def do(op):
        before = tables(A)
        rA, tA = A.apply(op)
        opsA.append(op)
        rB = False
        for q in expand(op):
            rB, tB = B.apply(q)
            opsB.append(q); recB.append((rB, B.dump(), tB))
            if rB: break
        after = tables(A)
        moved = id(A.wires[op[1]]) if op[0] in ('Rename', 'Reparent', 'ReparentAndRename') and not rA else None      # a successful move leaves its OWN old slot
        lost = sorted(k for k in before if after.get(k) != before[k] and before[k] != moved)
        if lost:
            problems.append({'what': 'a construction call %s entry(ies) its parent already listed: the earlier %s does not stay in place'
                                     % ('that RAISED removed or replaced' if rA else 'replaced', lost[0][0]),
                             'lost': [[k[0], k[1], k[2]] for k in lost], 'call': list(op), 'raised': rA, 'exception': tA, 'calls': [list(o) for o in opsA]})
        elif rA != rB:
            problems.append({'what': 'a factory call and the constructor calls it stands for disagree on raising', 'call': list(op), 'factory_raised': rA, 'exception': tA,
                             'constructor_calls_raised': rB, 'calls': [list(o) for o in opsA], 'constructor_calls': [list(o) for o in opsB]})
        elif A.dump() != B.dump():
            problems.append({'what': 'the object graph built through the factory methods differs from the one built by the constructor calls they stand for',
                             'call': list(op), 'raised': rA, 'calls': [list(o) for o in opsA], 'constructor_calls': [list(o) for o in opsB],
                             'graph_factory': A.dump(), 'graph_constructors': B.dump()})
        return rA
    do(('NewLogic', None, 0, False))
    while len(opsA) < n_ops and not problems:
        x = rng.random(); no, nw = len(A.objs), len(A.wires)
        if x < 0.12:
            do(('NewLogic', rng.randrange(no), rng.randrange(names), rng.random() < 0.5, rng.randrange(30)))
        elif x < 0.30 or nw == 0:
            do(('WireVia' if rng.random() < 0.6 else 'NewWire', rng.randrange(no), rng.choice([rng.randrange(names), BUNDLE * (rng.randrange(names) + 1) + rng.randrange(3)]), rng.choice([1, 2, 8])))
        elif x < 0.62:
            do(('Wires', rng.randrange(no), rng.randrange(names), rng.randrange(0, 4), rng.choice([1, 4])))      # repeated prefixes collide with earlier bundles / members
        elif x < 0.85:
            kind = rng.choice(['AddIn', 'AddOut', 'AddOut'])
            do((kind, rng.randrange(no), rng.randrange(4), rng.randrange(nw)))
        else:
            w = rng.randrange(nw)
            if rng.random() < .5: do(('Rename', w, rng.choice([rng.randrange(names), BUNDLE * (rng.randrange(names) + 1) + rng.randrange(3)])))
            else: do(('ReparentAndRename', w, rng.randrange(no), BUNDLE * (rng.randrange(names) + 1) + rng.randrange(3)))
    return A, B, opsA, opsB, recB, problems


# one directed scenario per fault kind (so every rejection path is exercised whatever the seed)
DIRECTED = {
    'dup_child': [('NewLogic', None, 0, False), ('NewLogic', 0, 1, True), ('NewLogic', 0, 1, False), ('NewLogic', 0, 2, False), ('NewLogic', 1, 1, True)],
    'dup_wire': [('NewLogic', None, 0, False), ('NewWire', 0, 1, 1), ('NewWire', 0, 1, 8), ('NewLogic', 0, 1, False), ('NewWire', 1, 1, 2)],
    'double_driver_out_out': [('NewLogic', None, 0, False), ('NewWire', 0, 0, 4), ('NewLogic', 0, 1, True), ('NewLogic', 0, 2, True),
                              ('AddOut', 1, 0, 0), ('AddOut', 2, 0, 0), ('AddOut', 1, 1, 0), ('AddIn', 2, 0, 0)],
    'double_driver_clocked': [('NewLogic', None, 0, False), ('NewWire', 0, 0, 4), ('NewLogic', 0, 1, True), ('NewLogic', 0, 3, True),
                              ('AddOut', 2, 0, 0), ('AddOut', 1, 0, 0)],
    'double_driver_inout': [('NewLogic', None, 0, False), ('NewWire', 0, 0, 1), ('NewLogic', 0, 1, True), ('NewLogic', 0, 2, True),
                            ('AddInOut', 1, 0, 0), ('AddOut', 2, 0, 0), ('AddInOut', 2, 1, 0), ('AddIn', 2, 2, 0)],
    'structural_ports_do_not_drive': [('NewLogic', None, 0, False), ('NewWire', 0, 0, 1), ('NewLogic', 0, 1, False), ('NewLogic', 0, 2, False),
                                      ('AddOut', 1, 0, 0), ('AddOut', 2, 0, 0), ('AddIn', 1, 1, 0), ('NewLogic', 1, 0, True), ('AddOut', 3, 0, 0),
                                      ('AddOut', 0, 0, 0), ('AddInOut', 2, 0, 0)],
    'primitive_with_children': [('NewLogic', None, 0, True), ('NewLogic', 0, 1, False), ('NewWire', 0, 0, 1), ('AddOut', 0, 0, 0),
                                ('AddOut', 1, 0, 0), ('NewLogic', 1, 1, True), ('AddOut', 2, 0, 0), ('AddIn', 0, 1, 0), ('AddIn', 1, 1, 0)],
    'rename_collision': [('NewLogic', None, 0, False), ('NewWire', 0, 1, 1), ('NewWire', 0, 2, 1), ('Rename', 0, 2), ('NewWire', 0, 1, 3)],
    'rename_same_name': [('NewLogic', None, 0, False), ('NewWire', 0, 1, 1), ('NewWire', 0, 2, 1), ('Rename', 0, 1), ('Rename', 0, 3)],
    'rename_after_failed_rename': [('NewLogic', None, 0, False), ('NewWire', 0, 1, 1), ('NewWire', 0, 2, 1), ('Rename', 0, 2), ('Rename', 0, 3),
                                   ('Rename', 1, 4)],
    'rename_failed_then_same': [('NewLogic', None, 0, False), ('NewWire', 0, 1, 1), ('NewWire', 0, 2, 1), ('Rename', 0, 2), ('Rename', 0, 2)],
    'reparent_collision': [('NewLogic', None, 0, False), ('NewLogic', 0, 1, False), ('NewWire', 0, 5, 1), ('NewWire', 1, 5, 1), ('Reparent', 0, 1),
                           ('Reparent', 0, 0), ('NewWire', 0, 5, 1), ('Reparent', 1, 0)],
    'reparent_ok': [('NewLogic', None, 0, False), ('NewLogic', 0, 1, False), ('NewWire', 0, 5, 1), ('Reparent', 0, 1), ('Reparent', 0, 1),
                    ('ReparentAndRename', 0, 0, 2), ('NewWire', 1, 5, 1)],
    'reparent_rename_collision': [('NewLogic', None, 0, False), ('NewLogic', 0, 1, False), ('NewWire', 0, 5, 1), ('NewWire', 1, 6, 1),
                                  ('ReparentAndRename', 0, 1, 6), ('ReparentAndRename', 0, 1, 7), ('ReparentAndRename', 1, 0, 5)],
    'undriven_ports': [('NewLogic', None, 0, False), ('NewWire', 0, 0, 1), ('NewWire', 0, 1, 1), ('NewLogic', 0, 1, True), ('NewLogic', 0, 2, True),
                       ('AddOut', 1, 0, 0), ('AddIn', 2, 0, 0), ('AddIn', 2, 1, 1), ('NewLogic', 0, 3, False), ('NewLogic', 3, 0, True),
                       ('AddIn', 4, 0, 0), ('AddOut', 4, 1, 1)],
    'undriven_out_no_sinks': [('NewLogic', None, 0, False), ('NewWire', 0, 0, 1), ('NewLogic', 0, 1, False), ('AddOut', 1, 0, 0)],
    'undriven_out_with_sink': [('NewLogic', None, 0, False), ('NewWire', 0, 0, 1), ('NewLogic', 0, 1, False), ('AddOut', 1, 0, 0),
                               ('NewLogic', 0, 2, True), ('AddIn', 2, 0, 0)],
    'undriven_in_no_sinks': [('NewLogic', None, 0, False), ('NewWire', 0, 0, 1), ('NewLogic', 0, 1, False), ('AddIn', 1, 0, 0)],
    'undriven_deep': [('NewLogic', None, 0, False), ('NewWire', 0, 0, 1), ('NewWire', 0, 1, 1), ('NewLogic', 0, 1, True), ('AddOut', 1, 0, 0),
                      ('NewLogic', 0, 2, False), ('NewLogic', 2, 0, False), ('NewLogic', 3, 0, False), ('AddIn', 4, 0, 0), ('AddOut', 4, 1, 1),
                      ('NewLogic', 0, 3, False), ('AddIn', 5, 0, 0)],
    'bidir_dup_name': [('NewLogic', None, 0, False), ('NewWire', 0, 1, 1), ('NewBidir', 0, 1, 1), ('NewBidir', 0, 2, 1), ('NewWire', 0, 2, 1), ('NewBidir', 0, 2, 8)],
    'bidir_rename_collision': [('NewLogic', None, 0, False), ('NewBidir', 0, 1, 1), ('NewWire', 0, 2, 1), ('NewBidir', 0, 3, 1), ('Rename', 0, 2), ('Rename', 0, 3),
                               ('Rename', 0, 1), ('Rename', 0, 4), ('Rename', 1, 4), ('Rename', 2, 1)],
    'bidir_reparent_collision': [('NewLogic', None, 0, False), ('NewLogic', 0, 1, False), ('NewBidir', 1, 5, 1), ('NewWire', 0, 5, 1), ('Reparent', 0, 0),
                                 ('ReparentAndRename', 0, 0, 6), ('Reparent', 0, 1), ('NewBidir', 1, 5, 1), ('Reparent', 2, 0), ('Reparent', 1, 1),
                                 ('ReparentAndRename', 2, 0, 7), ('Reparent', 2, 0)],
    'bidir_reparent_onto_bidir': [('NewLogic', None, 0, False), ('NewLogic', 0, 1, False), ('NewLogic', 1, 0, False), ('NewBidir', 2, 5, 1), ('NewBidir', 0, 5, 1),
                                  ('Reparent', 0, 0), ('Reparent', 0, 1), ('Reparent', 1, 1), ('ReparentAndRename', 1, 1, 6), ('Reparent', 1, 2),
                                  ('ReparentAndRename', 0, 2, 6), ('ReparentAndRename', 0, 2, 5)],
    'bidir_many_drivers': [('NewLogic', None, 0, False), ('NewBidir', 0, 0, 1), ('NewLogic', 0, 1, True), ('NewLogic', 0, 2, True), ('NewLogic', 0, 3, False),
                           ('AddOut', 1, 0, 0), ('AddOut', 2, 0, 0), ('AddInOut', 1, 1, 0), ('AddInOut', 2, 1, 0), ('AddOut', 3, 0, 0), ('AddInOut', 3, 1, 0)],
    'bidir_pad_read': [('NewLogic', None, 0, False), ('NewBidir', 0, 0, 1), ('NewWire', 0, 1, 1), ('NewLogic', 0, 1, True), ('NewLogic', 0, 2, True),
                       ('AddInOut', 1, 0, 0), ('AddOut', 1, 1, 1), ('AddIn', 2, 0, 1)],
    'two_roots': [('NewLogic', None, 0, False), ('NewLogic', None, 0, True), ('NewWire', 0, 0, 1), ('NewWire', 1, 0, 1), ('AddOut', 1, 0, 0),
                  ('AddOut', 1, 0, 1), ('AddOut', 1, 0, 0), ('Reparent', 0, 1), ('ReparentAndRename', 0, 1, 1)],
}


# exhaustive small sweep: every PAIR of calls from a fixed alphabet, in two contexts
PAIR_SETUP = [('NewLogic', None, 0, False), ('NewLogic', 0, 1, True), ('NewLogic', 0, 2, True), ('NewLogic', 0, 3, False),
              ('NewWire', 0, 0, 1), ('NewWire', 0, 1, 1)]
PAIR_CONTEXTS = {'clean': PAIR_SETUP,
                 'bidir': PAIR_SETUP[:4] + [('NewBidir', 0, 0, 1), ('NewBidir', 0, 1, 1), ('NewBidir', 3, 1, 1)],
                 'mixed': PAIR_SETUP[:4] + [('NewBidir', 0, 0, 1), ('NewWire', 0, 1, 1), ('NewWire', 3, 0, 1)],
                 'driven': PAIR_SETUP + [('AddOut', 1, 0, 0), ('AddIn', 2, 0, 0)],
                 'after_failed_rename': PAIR_SETUP + [('Rename', 0, 1)]}          # wire 0 is now in no table and is named like wire 1
def pair_alphabet():
    A = []
    for o in (1, 2, 3):
        for w in (0, 1):
            A += [('AddIn', o, 0, w), ('AddOut', o, 0, w), ('AddInOut', o, 0, w)]
    for w in (0, 1):
        A += [('Rename', w, n) for n in (0, 1, 2)]
        A += [('Reparent', w, p) for p in (0, 3)]
        A += [('ReparentAndRename', w, p, n) for p in (0, 3) for n in (0, 1)]
    A += [('NewWire', p, n, 1) for p in (0, 3) for n in (0, 1)] + [('NewBidir', p, n, 1) for p in (0, 3) for n in (0, 1)]
    A += [('NewLogic', p, n, prim) for p in (0, 3) for n in (1, 4) for prim in (False, True)]
    return A


# ---------------------------------------------------------------- real hierarchies (library blocks)
class NotSupported(Exception):
    pass


def dump_hierarchy(py4hw, top):
    """DFS preorder over children tables; every wire / port reachable from the blocks.  returns (dump, objs)"""
    objs, wires, ports = [], [], []
    seen_w, seen_p = set(), set()
    def addw(w):
        if type(w) not in (py4hw.Wire, py4hw.BidirWire): raise NotSupported('wire of class %s' % type(w).__name__)
        if id(w) not in seen_w: seen_w.add(id(w)); wires.append(w)
    def addp(p):
        if id(p) not in seen_p: seen_p.add(id(p)); ports.append(p)
    def walk(o):
        objs.append(o)
        for c in o.children.values(): walk(c)
    walk(top)
    for o in objs:
        for w in o._wires.values(): addw(w)
        for p in list(o.inPorts) + list(o.outPorts) + list(o.inOutPorts):
            addp(p); addw(p.wire)
    for w in list(wires):
        if w.getSource() is not None: addp(w.getSource())
        for p in w.getSinks(): addp(p)
    for p in ports:
        addw(p.wire)
    names = {}
    def name_of(s): return names.setdefault(s, len(names))
    d = dump_graph(py4hw, objs, wires, ports, name_of)
    for part in d:
        for e in part:
            for r in e:
                if UNKNOWN in r[:]:
                    # widths / names are never UNKNOWN; an index is: something hangs outside the hierarchy
                    raise NotSupported('port or wire owner outside the hierarchy')
    return d, objs, wires


def catalogue():
    """(name, widths, ins(w) -> [(name, width)], outs(w) -> [(name, width)], make(py4hw, hw, I, O))"""
    W = (1, 2, 5, 8, 16, 32)
    Wm = (2, 5, 8)          # structurally large blocks
    C = []
    def two(cls, widths=W, ow=lambda w: w):
        C.append((cls, widths, lambda w: [('a', w), ('b', w)], lambda w: [('r', ow(w))],
                  lambda p, hw, I, O, cls=cls: getattr(p, cls)(hw, 'dut', I[0], I[1], O[0])))
    def one(cls, widths=W, ow=lambda w: w):
        C.append((cls, widths, lambda w: [('a', w)], lambda w: [('r', ow(w))],
                  lambda p, hw, I, O, cls=cls: getattr(p, cls)(hw, 'dut', I[0], O[0])))
    for c in ('And2', 'Or2', 'Xor2', 'Nand2', 'Nor2', 'Add', 'Sub', 'Mul', 'Min2', 'Max2', 'SignedSub'): two(c)
    for c in ('SignedMul', 'SignedMin2', 'SignedMax2', 'Div', 'Mod', 'SignedDiv'): two(c, Wm)
    two('Equal', W, lambda w: 1)
    for c in ('Not', 'Buf', 'Neg', 'Abs', 'Sign'): one(c, W if c in ('Not', 'Buf') else (2, 5, 8, 16), (lambda w: 1) if c == 'Sign' else (lambda w: w))
    one('SignExtend', W, lambda w: w + 3); one('ZeroExtend', W, lambda w: w + 3)
    one('AndBits', W, lambda w: 1); one('OrBits', W, lambda w: 1)
    C.append(('Mux2', W, lambda w: [('s', 1), ('a', w), ('b', w)], lambda w: [('r', w)],
              lambda p, hw, I, O: p.Mux2(hw, 'dut', I[0], I[1], I[2], O[0])))
    C.append(('Mux', (1, 4, 8), lambda w: [('s', 2), ('a', w), ('b', w), ('c', w), ('d', w)], lambda w: [('r', w)],
              lambda p, hw, I, O: p.Mux(hw, 'dut', I[0], I[1:], O[0])))
    C.append(('Select', (1, 4, 8), lambda w: [('sa', 1), ('sb', 1), ('a', w), ('b', w)], lambda w: [('r', w)],
              lambda p, hw, I, O: p.Select(hw, 'dut', I[:2], I[2:], O[0])))
    C.append(('And', (1, 4, 8), lambda w: [('a', w), ('b', w), ('c', w)], lambda w: [('r', w)],
              lambda p, hw, I, O: p.And(hw, 'dut', I, O[0])))
    C.append(('Or', (1, 4, 8), lambda w: [('a', w), ('b', w), ('c', w), ('d', w)], lambda w: [('r', w)],
              lambda p, hw, I, O: p.Or(hw, 'dut', I, O[0])))
    C.append(('Comparator', W, lambda w: [('a', w), ('b', w)], lambda w: [('gt', 1), ('eq', 1), ('lt', 1)],
              lambda p, hw, I, O: p.Comparator(hw, 'dut', I[0], I[1], O[0], O[1], O[2])))
    C.append(('Range', (2, 5, 8, 32), lambda w: [('a', w)], lambda w: [('r', w - 1)],
              lambda p, hw, I, O: p.Range(hw, 'dut', I[0], I[0].getWidth() - 1, 1, O[0])))
    C.append(('Bit', W, lambda w: [('a', w)], lambda w: [('r', 1)],
              lambda p, hw, I, O: p.Bit(hw, 'dut', I[0], I[0].getWidth() - 1, O[0])))
    C.append(('ConcatenateMSBF', (1, 4, 8), lambda w: [('a', w), ('b', w + 1)], lambda w: [('r', 2 * w + 1)],
              lambda p, hw, I, O: p.ConcatenateMSBF(hw, 'dut', I, O[0])))
    C.append(('ShiftLeftConstant', W, lambda w: [('a', w)], lambda w: [('r', w)],
              lambda p, hw, I, O: p.ShiftLeftConstant(hw, 'dut', I[0], 1, O[0])))
    C.append(('ShiftLeft', (4, 8, 16), lambda w: [('a', w), ('b', 3)], lambda w: [('r', w)],
              lambda p, hw, I, O: p.ShiftLeft(hw, 'dut', I[0], I[1], O[0])))
    C.append(('ShiftRight', (4, 8, 16), lambda w: [('a', w), ('b', 3)], lambda w: [('r', w)],
              lambda p, hw, I, O: p.ShiftRight(hw, 'dut', I[0], I[1], O[0])))
    C.append(('RotateLeft', (4, 8), lambda w: [('a', w), ('b', 2)], lambda w: [('r', w)],
              lambda p, hw, I, O: p.RotateLeft(hw, 'dut', I[0], I[1], O[0])))
    C.append(('Reg', W, lambda w: [('d', w), ('e', 1), ('rst', 1)], lambda w: [('q', w)],
              lambda p, hw, I, O: p.Reg(hw, 'dut', I[0], O[0], enable=I[1], reset=I[2])))
    C.append(('Counter', (1, 4, 8, 32), lambda w: [('reset', 1), ('inc', 1)], lambda w: [('q', w)],
              lambda p, hw, I, O: p.Counter(hw, 'dut', I[0], I[1], O[0])))
    C.append(('DelayLine', (1, 8), lambda w: [('a', w), ('en', 1), ('reset', 1)], lambda w: [('r', w)],
              lambda p, hw, I, O: p.DelayLine(hw, 'dut', I[0], I[1], I[2], O[0], 3)))
    C.append(('CountLeadingZeros', (4, 8, 16), lambda w: [('a', w)], lambda w: [('r', w.bit_length()), ('z', 1)],
              lambda p, hw, I, O: p.CountLeadingZeros(hw, 'dut', I[0], O[0], O[1])))
    C.append(('Minterm', (2, 3, 5), lambda w: [('b%d' % i, 1) for i in range(w)], lambda w: [('r', 1)],
              lambda p, hw, I, O: p.Minterm(hw, 'dut', I, 1, O[0])))
    C.append(('EqualConstant', W, lambda w: [('a', w)], lambda w: [('r', 1)],
              lambda p, hw, I, O: p.EqualConstant(hw, 'dut', I[0], 1, O[0])))
    C.append(('Swap', (1, 8), lambda w: [('a', w), ('b', w), ('s', 1)], lambda w: [('ra', w), ('rb', w)],
              lambda p, hw, I, O: p.Swap(hw, 'dut', I[0], I[1], I[2], O[0], O[1])))
    C.append(('TReg', (1,), lambda w: [('t', 1), ('e', 1), ('rst', 1)], lambda w: [('q', 1)],
              lambda p, hw, I, O: p.TReg(hw, 'dut', I[0], O[0], enable=I[1], reset=I[2])))
    return C


def build_block(entry, w, skip_driver=None):
    """HWSystem with the block, every input driven by a Constant except `skip_driver` (index).  returns (py4hw, hw, ins, outs)"""
    py4hw = common.quiet_import()
    name, _, ins, outs, make = entry
    with quiet():
        hw = py4hw.HWSystem()
        I = [hw.wire('i_' + n, wd) for n, wd in ins(w)]
        O = [hw.wire('o_' + n, wd) for n, wd in outs(w)]
        for k, wr in enumerate(I):
            if k != skip_driver:
                py4hw.Constant(hw, 'drv%d' % k, 1, wr)
        make(py4hw, hw, I, O)
    return py4hw, hw, I, O


ATTR_POOL = ['clock', 'propagate', 'run', 'structureName', 'verilogBody', 'clk', 'a', 'b', 'r', 'q', 'sel', 'en', 'reset', 'children_', 'value']


def build_wrapped(entry, w, attr_names, with_inner=True):
    """the usual user idiom: a STRUCTURAL cell that keeps each port wire in an attribute (`self.clock = self.addIn('clock', clock)`) and
    instantiates the library block inside.  attr_names come from ATTR_POOL, which contains the method names the kernel probes.
    with_inner=False: the single-fault variant in which the inner block (the only driver of the outputs) is missing."""
    py4hw = common.quiet_import()
    name, _, ins, outs, make = entry
    class Cell(py4hw.Logic):
        def __init__(self, parent, iname, I, O):
            super().__init__(parent, iname)
            names = list(attr_names)
            for k, wire in enumerate(I):
                setattr(self, names[k % len(names)] if k < len(names) else 'in%d' % k, self.addIn('i%d' % k, wire))
            for k, wire in enumerate(O):
                j = len(I) + k
                setattr(self, names[j] if j < len(names) else 'out%d' % k, self.addOut('o%d' % k, wire))
            if with_inner:
                make(py4hw, self, I, O)
    with quiet():
        hw = py4hw.HWSystem()
        I = [hw.wire('i_' + n, wd) for n, wd in ins(w)]
        O = [hw.wire('o_' + n, wd) for n, wd in outs(w)]
        for k, wr in enumerate(I):
            py4hw.Constant(hw, 'drv%d' % k, 1, wr)
        cell = Cell(hw, 'cell', I, O)
    return py4hw, hw, cell, I, O


def real_integrity(py4hw, obj):
    """True if checkIntegrity raises, plus the exception text"""
    try:
        with quiet():
            py4hw.debug.checkIntegrity(obj)
        return False, ''
    except Exception as ex:
        return True, '%s: %s' % (type(ex).__name__, ex)
