"""C11 — ill-formed netlists are rejected when they are built or checked.
Proof:  Properties/C11.v over the hand-written construction model coq/Model/Build.v (invariants over EVERY operation sequence,
        conflict => raise, every raising call leaves the state untouched, earlier item stays, every wire stays registered,
        checkIntegrity raises iff a visited in/out port is undriven).
Tie:    operation sequences with faults (directed + random; thorough: all pairs of a 48-call alphabet) are executed on the REAL classes
        (py4hw.Logic subclasses, Wire, addIn/addOut/addInOut, rename/reparent/reparentAndRename) and on the model inside Coq; compared
        after EVERY call on raise/no-raise and on the whole object graph (children, _wires, port lists, source, sinks; identities ->
        creation indices).
Spec:   the declarative predicates of Spec/C11.v are evaluated in Coq on the recorded REAL states (impl vs spec).
Integrity: every block of every final state, plus library blocks at several widths with single faults (one driver missing,
        one source cleared, one duplicated driver): real checkIntegrity verdict vs model verdict vs spec verdict.
Repaired defects F1/F2 (known_findings/C11.json, status fixed): their witnesses are replayed on every run; a regression is a VIOLATION."""
import random, time, json
import common
from common import quiet
from props import c11_world as cw

PRE = ('From Coq Require Import ZArith List Bool.\nFrom V Require Import Model.Build Spec.C11 Model.BuildCheck.\n'
       'Import ListNotations.\nOpen Scope Z_scope.\n')
BITS = ['single_driver', 'unique_children', 'unique_wires', 'children_stay', 'drivers_stay', 'wires_stay',
        'conflict_must_raise', 'sinks_exact', 'raising_call_leaves_state_untouched', 'every_wire_registered', 'bidir_sources_exact']


def bit_names(b): return [n for i, n in enumerate(BITS) if b >> i & 1]


def seq_term(ops, rec, W, with_integ=True):
    ex = '[' + '; '.join('(%d, %s)' % (1 if r else 0, cw.dump_term(d)) for r, d, _ in rec) + ']'
    opsT = '[' + '; '.join(cw.op_term(o) for o in ops) + ']'
    hs = '[' + '; '.join(cw.nat(h) for h in range(len(W.objs) if with_integ else 0)) + ']'
    return ('let ex := %s in let ops := %s in (first_diff init ops ex 0, spec_scan init ops ex 0, map (integrity3 (load %s)) %s)'
            % (ex, opsT, cw.dump_term(rec[-1][1]), hs))


def known(ctx, fid):
    for k in ctx.known:
        if k['id'] == fid and k.get('status') == 'known': return k
    return None


def fast_term(ops, rec, W):
    """per call only (raise flag, fingerprint of the real object graph): the comparison and the Spec clauses run on the model state"""
    ex = '[' + '; '.join('(%d, %d)' % (1 if r else 0, cw.fp_dump(d)) for r, d, _ in rec) + ']'
    opsT = '[' + '; '.join(cw.op_term(o) for o in ops) + ']'
    hs = '[' + '; '.join(cw.nat(h) for h in range(len(W.objs))) + ']'
    return 'scan_fast %s %s %s' % (opsT, ex, hs)


class Verdicts:
    def __init__(self):
        self.tie_breaks = []       # impl != model (no spec failure seen on that case)
        self.spec_fail = []        # impl != spec, not a known finding  -> violation with the input


def judge_sequence(ctx, V, tag, ops, rec, W, res):
    fd, scan, integ = res
    ops_j = [list(o) for o in ops]
    # ---- impl vs spec on every recorded real step
    for (i, bits, registered) in scan:
        V.spec_fail.append({'what': 'the real construction API violates the declarative well-formedness / conflict rule',
                            'sequence': tag, 'failing_clauses': bit_names(bits), 'at_op_index': i, 'op': ops_j[i],
                            'raised': bool(rec[i][0]), 'exception': rec[i][2], 'ops': ops_j[:i + 1],
                            'state_after(objs,wires,ports)': rec[i][1],
                            'replay_hint': 'c11_world.replay_ops(ops): executes the calls on py4hw and dumps the object graph'})
        break
    for (oi, clsname, isprim, beh) in getattr(W, 'prim_mismatch', [])[:1]:
        V.spec_fail.append({'what': 'Logic.isPrimitive() = %s for a %s block (class %s): sources/sinks are registered for a block without propagate()/clock(), '
                                    'or not registered for one that has them' % (isprim, 'behavioural' if beh else 'structural', clsname),
                            'sequence': tag, 'object_index': oi, 'ops': ops_j})
    # ---- impl vs model
    if fd is not None:
        i, mr, md = fd[1]
        i = int(i)
        V.tie_breaks.append({'what': 'model (coq/Model/Build.v step) and real py4hw disagree after this call', 'sequence': tag, 'at_op_index': i,
                             'op': ops_j[i] if i < len(ops_j) else None, 'ops': ops_j[:i + 1],
                             'impl(raised,state)': [bool(rec[i][0]), rec[i][1]] if i < len(rec) else None, 'impl_exception': rec[i][2] if i < len(rec) else None,
                             'model(raised,state)': [mr, md]})
    # ---- integrity of every block of the final state
    for h, (mv, spec_bad, stray) in enumerate(integ):
        real, txt = cw.real_integrity(W.py4hw, W.objs[h])
        ctx.count(('integrity', tag, h))
        judge_integrity(ctx, V, {'sequence': tag, 'ops': ops_j, 'root_object_index': h}, real, txt, mv, spec_bad, stray)


def judge_integrity(ctx, V, where, real, txt, mv, spec_bad, stray):
    flags = int(stray)                      # bit 0: a visited in-port's source is in no port list of its block; bit 1: a visited port is on a BidirWire
    if real != bool(spec_bad):
        if real and not spec_bad and (flags & 2) and known(ctx, 'F3-checkIntegrity-crashes-on-BidirWire'):
            ctx.known_finding('F3-checkIntegrity-crashes-on-BidirWire',
                              'F3 checkIntegrity raises AttributeError for an in/out port attached to a BidirWire although blocks drive it (BidirWire.getSource reads self.source, which a BidirWire never has)')
        else:
            d = dict(where)
            d.update({'what': 'checkIntegrity verdict differs from "some visited (in/out) port is attached to a wire that no block drives"',
                      'impl_raises': real, 'impl_exception': txt, 'spec_says_undriven_port_exists': bool(spec_bad),
                      'source_port_in_no_port_list_of_its_block': bool(flags & 1), 'visited_port_on_a_BidirWire': bool(flags & 2)})
            V.spec_fail.append(d)
    if (1 if real else 0) != mv:
        d = dict(where)
        d.update({'what': 'model checkIntegrity and real checkIntegrity disagree', 'impl_raises': real, 'impl_exception': txt, 'model_verdict(0 ok,1 raise,2 fuel)': mv})
        V.tie_breaks.append(d)


def run_sequences(ctx, V, n_random, n_ops):
    batch = []
    for name, ops in cw.DIRECTED.items():
        W, rec = cw.replay_ops(ops)
        batch.append(('directed:' + name, [tuple(o) for o in ops], rec, W))
    for i in range(n_random):
        seed = ctx.seed * 1000003 + i
        W, ops, rec = cw.random_run(random.Random(seed), n_ops, fault_rate=0.4 if i % 2 else 0.25)
        batch.append(('random:seed=%d' % seed, ops, rec, W))
    # API routes (parent.wire / parent.wires vs the constructor calls they wrap): world B joins the batch judged against model and Spec
    n_route = max(20, n_random // 4); route_calls = 0
    for i in range(n_route):
        seed = ctx.seed * 1000003 + 500000 + i
        A, B, opsA, opsB, recB, problems = cw.route_run(random.Random(seed), min(n_ops, 30))
        route_calls += len(opsA)
        for o in opsA: ctx.count(('route', o[0], len(A.objs), len(A.wires)))
        batch.append(('routes:seed=%d' % seed, opsB, recB, B))
        for pb in problems[:1]:
            pb = dict(pb); pb['sequence'] = 'routes:seed=%d' % seed
            pb['replay_hint'] = "c11_world.World().apply(call) for each entry of 'calls' ('Wires', parent, prefix, num, width) = objs[parent].wires('n<prefix>', num, width)"
            V.spec_fail.append(pb)
    ctx.notes['route_sequences'] = {'sequences': n_route, 'factory_calls': route_calls}
    n_raise = 0
    CH = 100
    broken = []
    for k in range(0, len(batch), CH):
        chunk = batch[k:k + CH]
        items = [('s%d' % j, fast_term(ops, rec, W)) for j, (_, ops, rec, W) in enumerate(chunk)]
        res = common.coq_eval('C11_seq_%d' % (k // CH), PRE, items)
        for j, (tag, ops, rec, W) in enumerate(chunk):
            rj = res['s%d' % j]
            if rj[0] is not None:
                broken.append((int(rj[0][1][0]), tag, ops, rec, W, rj))
            else:
                judge_sequence(ctx, V, tag, ops, rec, W, rj)
            for o, (r, d, _) in zip(ops, rec):
                ctx.count((o, r, len(d[0]), len(d[1]), len(d[2])))      # distinct by call, outcome and size of the heap it ran in
                n_raise += 1 if r else 0
            if len(ctx.cov['samples']) < 4:
                ctx.sample({'sequence': tag, 'ops': [list(o) for o in ops[:12]], 'raised': [bool(r) for r, _, _ in rec[:12]]})
    if broken:
        # the model left the real behaviour on these sequences: re-evaluate (a few of) them with the full real dumps so that
        # the Spec clauses are judged on the REAL states (= search for an input that violates the property itself)
        broken.sort(key=lambda b: (b[0], len(b[2])))
        full = broken[:8]
        items = [('f%d' % j, seq_term(ops[:i + 6], rec[:i + 6], W, with_integ=False)) for j, (i, tag, ops, rec, W, _) in enumerate(full)]
        res = common.coq_eval('C11_seq_full', PRE, items, timeout=900)
        for j, (i, tag, ops, rec, W, _) in enumerate(full):
            fd, scan, _ = res['f%d' % j]
            judge_sequence(ctx, V, tag, ops, rec, W, (fd, scan, []))
        for (i, tag, ops, rec, W, rj) in broken[8:]:
            judge_sequence(ctx, V, tag, ops, rec, W, (rj[0], [], []))
        ctx.notes['sequences_where_model_and_impl_differ'] = len(broken)
    ctx.notes['sequences'] = {'directed': len(cw.DIRECTED), 'random': n_random, 'calls': sum(len(b[1]) for b in batch), 'calls_that_raised': n_raise}


def run_interfaces(ctx, V, n_seq):
    """Model/BuildIface.v (addInterfaceSource / addInterfaceSink as derived operation lists: the subject of C11_interface_* and C16_interface_*)
    against the REAL calls: raise / no raise and the whole object graph after every call (`ifirst_diff`)."""
    PREI = PRE.replace('Model.BuildCheck.', 'Model.BuildCheck Model.BuildIface.')
    batch = []
    for i in range(n_seq):
        seed = ctx.seed * 1000003 + 700000 + i
        W, ops, rec = cw.iface_run(random.Random(seed), 18)
        batch.append(('interfaces:seed=%d' % seed, ops, rec))
        for o, (r, d, _) in zip(ops, rec): ctx.count(('iface', o[0], r, len(d[2])))
    items = []
    for j, (tag, ops, rec) in enumerate(batch):
        ex = '[' + '; '.join('(%d, %s)' % (1 if r else 0, cw.dump_term(d)) for r, d, _ in rec) + ']'
        items.append(('i%d' % j, 'ifirst_diff init [%s] %s 0' % ('; '.join(cw.iop_term(o) for o in ops), ex)))
    res = {}
    for b in range(0, len(items), 20):
        res.update(common.coq_eval('C11_iface_%d' % (b // 20), PREI, items[b:b + 20], timeout=900))
    n_calls = 0
    for j, (tag, ops, rec) in enumerate(batch):
        n_calls += sum(1 for o in ops if o[0].startswith('AddIface'))
        fd = res['i%d' % j]
        if fd is not None:
            i = int(fd[1][0])
            V.tie_breaks.append({'what': 'model (coq/Model/BuildIface.v: interface calls as derived operation lists) and real py4hw disagree after this call', 'sequence': tag,
                                 'at_op_index': i, 'op': json.loads(json.dumps(ops[i])) if i < len(ops) else None, 'ops': json.loads(json.dumps(ops[:i + 1])),
                                 'impl(raised,state)': [bool(rec[i][0]), rec[i][1]] if i < len(rec) else None, 'impl_exception': rec[i][2] if i < len(rec) else None,
                                 'model(raised,state)': [fd[1][1], fd[1][2]]})
    ctx.notes['interface_sequences'] = {'sequences': len(batch), 'interface_calls': n_calls, 'raised': sum(1 for _, ops, rec in batch for o, (r, _, _) in zip(ops, rec) if r and o[0].startswith('AddIface'))}


def run_pairs(ctx, V):
    """exhaustive: every ordered pair of calls from a 48-call alphabet in three contexts (clean / one wire driven / after a failed rename)"""
    A = cw.pair_alphabet()
    total = 0
    for cname, pre in cw.PAIR_CONTEXTS.items():
        prelude = PRE + 'Definition pre0 : list op := [' + '; '.join(cw.op_term(o) for o in pre) + '].\n'
        cases = []
        for a in A:
            for b in A:
                W, rec = cw.replay_ops(pre + [a, b])
                cases.append(([a, b], rec[len(pre):], W))
        for k in range(0, len(cases), 600):
            chunk = cases[k:k + 600]
            items = []
            for j, (ops, rec, W) in enumerate(chunk):
                ex = '[' + '; '.join('(%d, %d)' % (1 if r else 0, cw.fp_dump(d)) for r, d, _ in rec) + ']'
                hs = '[' + '; '.join(cw.nat(h) for h in range(len(W.objs))) + ']'
                items.append(('p%d' % j, 'scan_fast_from pre0 [%s] %s %s' % ('; '.join(cw.op_term(o) for o in ops), ex, hs)))
            res = common.coq_eval('C11_pairs_%s_%d' % (cname, k // 600), prelude, items, timeout=900)
            for j, (ops, rec, W) in enumerate(chunk):
                rj = res['p%d' % j]
                full_ops = pre + ops
                tag = 'pairs:%s' % cname
                if rj[0] is not None:
                    W2, rec2 = cw.replay_ops(full_ops)
                    rj = common.coq_eval('C11_seq_full', PRE, [('s', seq_term(full_ops, rec2, W2, with_integ=False))])['s']
                    judge_sequence(ctx, V, tag, full_ops, rec2, W2, (rj[0], rj[1], []))
                    if len(V.spec_fail) + len(V.tie_breaks) > 6: return
                else:
                    # indices reported by the scan are relative to the pair: shift them
                    scan = [(i + len(pre), b, reg) for (i, b, reg) in rj[1]]
                    W2, rec2 = W, cw.replay_ops(full_ops)[1] if scan else None
                    judge_sequence(ctx, V, tag, full_ops, rec2 if scan else [(False, None, '')] * len(pre) + rec, W, (None, scan, rj[2]))
                ctx.count(('pair', cname, tuple(ops[0]), tuple(ops[1])), n=2)
                total += 1
    ctx.notes['exhaustive_pairs'] = {'alphabet': len(A), 'contexts': list(cw.PAIR_CONTEXTS), 'sequences': total}
    ctx.cov['exhaustive'] = False


# ---------------------------------------------------------------- library blocks with single faults
def run_library(ctx, V, widths_per_block, all_inputs):
    py4hw = common.quiet_import()
    rng = random.Random(ctx.seed * 7919 + 5)
    cat = cw.catalogue()
    items, meta = [], []
    skipped = []
    for entry in cat:
        name, widths = entry[0], list(entry[1])
        if len(widths) > widths_per_block:
            widths = [widths[0]] + rng.sample(widths[1:], widths_per_block - 1)
        for w in widths:
            try:
                _, hw, I, O = cw.build_block(entry, w)
                d, objs, wires = cw.dump_hierarchy(py4hw, hw)
            except cw.NotSupported as ex:
                skipped.append('%s/%d: %s' % (name, w, ex)); continue
            except Exception as ex:
                V.spec_fail.append({'what': 'constructing a well-formed library block (every input driven by a Constant) raised', 'block': name, 'width': w,
                                    'fault': 'none', 'impl_exception': '%s: %s' % (type(ex).__name__, ex)})
                continue
            real, txt = cw.real_integrity(py4hw, hw)
            driven = [i for i, wr in enumerate(wires) if wr.getSource() is not None]
            if not driven:
                V.spec_fail.append({'what': 'no wire of a well-formed library block has a registered source', 'block': name, 'width': w, 'fault': 'none'})
                continue
            # (c) duplicated driver on a random driven wire (internal ones included): the constructor must raise, the source must stay
            k = rng.choice(driven); tgt = wires[k]; before = tgt.getSource()
            try:
                with quiet(): py4hw.Constant(hw, 'dupdrv', 0, tgt)
                dup_raised = False
            except Exception:
                dup_raised = True
            ctx.count(('lib-dup', name, w, k))
            if not dup_raised or tgt.getSource() is not before:
                V.spec_fail.append({'what': 'a second driver was accepted on a wire that already has one' if not dup_raised else 'the rejected second driver replaced the first',
                                    'block': name, 'width': w, 'wire': tgt.getFullPath(), 'fault': 'Constant(hw, "dupdrv", 0, <that wire>) after building the block',
                                    'replay_hint': 'c11_world.build_block(entry, width); add the Constant; expect an Exception and wire.getSource() unchanged'})
            # (b) one source cleared (Coq side: clear_source on the same dump; real side: wire.source = None)
            k2 = rng.choice(driven)
            wires[k2].source = None
            real_c, txt_c = cw.real_integrity(py4hw, hw)
            items.append(('b%d' % len(meta), 'let s := load %s in (wf_bits s, [integrity3 s 0%%nat; integrity3 (clear_source s %s) 0%%nat])' % (cw.dump_term(d), cw.nat(k2))))
            meta.append(({'block': name, 'width': w, 'fault': 'none'}, real, txt,
                         {'block': name, 'width': w, 'fault': 'source of wire %s cleared' % wires[k2].getFullPath()}, real_c, txt_c))
            ctx.count(('lib', name, w, 'none')); ctx.count(('lib', name, w, 'cleared', k2))
            # (a) one input driver missing
            n_in = len(I)
            for skip in (range(n_in) if all_inputs else [rng.randrange(n_in)]):
                try:
                    _, hw2, _, _ = cw.build_block(entry, w, skip_driver=skip)
                    d2, _, _ = cw.dump_hierarchy(py4hw, hw2)
                except Exception as ex:
                    skipped.append('%s/%d without driver %d: %s' % (name, w, skip, ex)); continue
                real2, txt2 = cw.real_integrity(py4hw, hw2)
                items.append(('b%d' % len(meta), 'let s := load %s in (wf_bits s, [integrity3 s 0%%nat; integrity3 s 0%%nat])' % cw.dump_term(d2)))
                meta.append(({'block': name, 'width': w, 'fault': 'driver of input %d omitted' % skip}, real2, txt2, None, None, None))
                ctx.count(('lib', name, w, 'undriven', skip))
    # (d) the same blocks inside a user-written STRUCTURAL cell that keeps its port wires in attributes (names from ATTR_POOL, which
    #     contains the method names the kernel probes: clock, propagate, run, structureName, verilogBody): must be constructible and
    #     accepted; without the inner block (the only driver of the outputs) it must be rejected; the source of every wire must be a
    #     port of a block WITH BEHAVIOUR (wf_bits on the dump, whose `primitive` flag is the harness's own ground truth)
    for bi, entry in enumerate(cat):
        name, widths = entry[0], list(entry[1])
        ws = widths if all_inputs else [widths[(ctx.seed + bi) % len(widths)]]
        for w in ws:
            n_ports = len(entry[2](w)) + len(entry[3](w))
            rot = (bi + w + ctx.seed) % 5                                   # the first attribute set is always a probed name
            names = cw.ATTR_POOL[rot:rot + 1] + rng.sample(cw.ATTR_POOL, len(cw.ATTR_POOL))
            names = list(dict.fromkeys(names))[:n_ports]
            for with_inner in (True, False):
                fault = 'none (user cell, port attributes %s)' % names if with_inner else 'inner block omitted: outputs of the user cell undriven (port attributes %s)' % names
                where = {'block': name, 'width': w, 'fault': fault, 'wrapped_in_user_cell': True, 'attr_names': names, 'with_inner': with_inner}
                try:
                    _, hw3, cell, _, _ = cw.build_wrapped(entry, w, names, with_inner)
                    d3, _, _ = cw.dump_hierarchy(py4hw, hw3)
                except cw.NotSupported as ex:
                    skipped.append('%s/%d wrapped: %s' % (name, w, ex)); continue
                except Exception as ex:
                    V.spec_fail.append(dict(where, what='constructing a well-formed user cell around a library block raised (a conflict is reported where there is none)',
                                            impl_exception='%s: %s' % (type(ex).__name__, ex)))
                    continue
                real3, txt3 = cw.real_integrity(py4hw, hw3)
                items.append(('b%d' % len(meta), 'let s := load %s in (wf_bits s, [integrity3 s 0%%nat; integrity3 s 0%%nat])' % cw.dump_term(d3)))
                w1 = dict(where); w1['fault_kind'] = 'none' if with_inner else 'undriven'
                meta.append((w1, real3, txt3, None, None, None))
                ctx.count(('lib-cell', name, w, with_inner, tuple(names)))
    n_acc = n_rej = 0
    for k in range(0, len(items), 250):
        res = common.coq_eval("C11_lib_%d" % (k // 250), PRE, items[k:k + 250], timeout=900)
        for (nm_, _), m in zip(items[k:k + 250], meta[k:k + 250]):
            wf, (a, b) = res[nm_]
            w1, real1, txt1, w2, real2, txt2 = m
            if wf != 0:
                V.spec_fail.append(dict(w1, what='hierarchy read off the real objects is not well-formed: ' + ','.join(bit_names(wf)) +
                                        ' (single_driver: the registered source of every wire must be exactly the out/inout port of a block with behaviour attached to it)'))
            judge_integrity(ctx, V, w1, real1, txt1, *a)
            n_acc += 0 if real1 else 1; n_rej += 1 if real1 else 0
            # expectations of the property itself: well-formed accepted, faulted rejected
            if (w1.get('fault_kind', w1['fault']) == 'none') == real1:
                V.spec_fail.append(dict(w1, what='library block %s by checkIntegrity' % ('REJECTED although well-formed' if real1 else 'ACCEPTED although one input is undriven'),
                                        impl_exception=txt1))
            if w2 is not None:
                judge_integrity(ctx, V, w2, real2, txt2, *b)
                n_rej += 1 if real2 else 0
                if not real2:
                    V.spec_fail.append(dict(w2, what='library block ACCEPTED by checkIntegrity although a port wire has no source'))
    ctx.notes['library'] = {'hierarchies_checked': len(meta), 'accepted': n_acc, 'rejected': n_rej, 'skipped': skipped}
    if meta: ctx.sample({'library_case': meta[len(meta) // 2][0], 'impl_raises': meta[len(meta) // 2][1]})


# ---------------------------------------------------------------- witnesses of the two repaired defects (F1, F2), on the real classes
def replay_witnesses(ctx, V):
    """known_findings/C11.json entries are 'fixed': if a witness reproduces again it is a VIOLATION"""
    out = {}
    ops = [('NewLogic', None, 0, False), ('NewWire', 0, 1, 1), ('NewWire', 0, 2, 1), ('Rename', 0, 2), ('Rename', 0, 3)]
    W, rec = cw.replay_ops(ops)
    hw = W.objs[0]
    out['F1_failed_rename_then_rename_evicts_other_wire'] = 'n2' not in hw._wires or hw._wires['n2'] is not W.wires[1]
    out['F1_failed_rename_changes_state'] = (not rec[3][0]) or rec[3][1] != rec[2][1]
    ops2 = ops[:4] + [('Rename', 0, 2)]
    W2, rec2 = cw.replay_ops(ops2)
    out['F1_second_rename_replaces_other_wire'] = (not rec2[4][0]) or W2.objs[0]._wires.get('n2') is not W2.wires[1]
    ops3 = [('NewLogic', None, 0, False), ('NewWire', 0, 0, 1), ('NewLogic', 0, 1, True), ('NewLogic', 0, 2, True),
            ('AddInOut', 1, 0, 0), ('AddIn', 2, 0, 0)]
    W3, rec3 = cw.replay_ops(ops3)
    real, txt = cw.real_integrity(W3.py4hw, W3.objs[0])
    out['F2_inout_driven_wire_rejected'] = bool(real)
    ctx.notes['repaired_defects_reproduce_again'] = out
    for key, o in (('F1_failed_rename_then_rename_evicts_other_wire', ops), ('F1_failed_rename_changes_state', ops[:4]),
                   ('F1_second_rename_replaces_other_wire', ops2), ('F2_inout_driven_wire_rejected', ops3)):
        if out[key]:
            V.spec_fail.append({'what': 'regression of a repaired defect: ' + key, 'ops': [list(x) for x in o],
                                'root_object_index': 0, 'impl_exception': txt if key.startswith('F2') else ''})
    for o in (ops, ops2, ops3): ctx.count(('witness', tuple(o)))
    return out


def run(ctx):
    ctx.cov['rule'] = ('obligations: theorems of Properties/C11.v (hand-written model, no regeneration). Correspondence cases: one per construction call '
                       '(directed fault scenarios + random sequences, 25-40% of the calls aimed at a conflict), compared on raise/no-raise and the whole object '
                       'graph after EVERY call; distinct by (call, outcome, heap size); plus one per (block or library hierarchy, fault) for checkIntegrity. '
                       'All are non-trivial (each call changes the heap or raises).')
    ctx.notes['translator'] = 'not used: Model/Build.v is hand-written (T-corr); tied by the per-call differential'
    r = ctx.prove(['Properties/C11.v'])
    V = Verdicts()
    n_random, n_ops = (64, 30) if ctx.quick else (900, 36)
    import traceback
    for phase, fn in (('sequences', lambda: run_sequences(ctx, V, n_random, n_ops)),
                      ('interface calls', lambda: run_interfaces(ctx, V, 40 if ctx.quick else 400)),
                      ('exhaustive pairs', (lambda: None) if ctx.quick else (lambda: run_pairs(ctx, V))),
                      ('library', lambda: run_library(ctx, V, widths_per_block=3 if ctx.quick else 6, all_inputs=not ctx.quick)),
                      ('witnesses of repaired defects', lambda: replay_witnesses(ctx, V))):
        try:
            fn()
        except Exception as ex:          # a crash of one phase must not hide what the others found
            V.tie_breaks.append({'what': 'the %s phase of the check raised %s: %s' % (phase, type(ex).__name__, ex), 'traceback': traceback.format_exc()[-2500:]})
        ctx.log(phase + ' done')
    # ---- decide
    V.spec_fail.sort(key=lambda v: 1 if 'object_index' in v else 0)      # structural violations first, the isPrimitive() diagnosis after them
    for v in V.spec_fail[:3]:
        ctx.violation(v)
    if not V.spec_fail:
        for v in V.tie_breaks[:2]:
            # the model no longer describes the code, and no input violating the declarative spec was found
            ctx.violation(dict(v, note='correspondence broken; the declarative clauses hold on every real state seen'), found_input=False)
        if not r['ok']:
            ctx.violation({'what': 'proof obligation no longer checks', 'theorem': r.get('lemma'), 'file': r.get('file'), 'coq_error': r.get('msg')}, found_input=False)
    ctx.assumptions += ['Model/Build.v mirrors Logic.__init__, Wire.__init__, appendWire, setSource/addSource/addSink, In/Out/InOutPort constructors, '
                        'rename/reparent/reparentAndRename and debug.checkIntegrity/checkPort (checked on every run by the per-call differential, not verified)',
                        'Wire and BidirWire are modelled (FakeWire is not: it is in no table); port.wire is never reassigned (Logic.reconnectIn is not modelled)',
                        'whether a block is a primitive leaf (has a callable propagate/clock; ground truth computed by the harness, independent of Logic.isPrimitive) is fixed when the block is constructed',
                        'a constructor that raised leaves no reference to the half-built object with the caller']


def replay(rp):
    """re-executes the recorded calls on the real classes and prints what happens"""
    py4hw = common.quiet_import()
    if 'ops' in rp:
        W, rec = cw.replay_ops([tuple(None if x is None else x for x in o) for o in rp['ops']])
        for o, (r, d, txt) in zip(rp['ops'], rec):
            print('%-40s %s %s' % (o, 'RAISED' if r else 'ok', txt))
        print('final state (objs, wires, ports):'); print(rec[-1][1])
        if 'root_object_index' in rp:
            print('checkIntegrity(object %d):' % rp['root_object_index'], cw.real_integrity(py4hw, W.objs[rp['root_object_index']]))
    elif 'block' in rp:
        entry = [e for e in cw.catalogue() if e[0] == rp['block']][0]
        _, hw, I, O = cw.build_block(entry, rp['width'])
        print('well-formed %s/%d: checkIntegrity ->' % (rp['block'], rp['width']), cw.real_integrity(py4hw, hw))
        print('recorded fault:', rp.get('fault'))
    else:
        print(rp)
    return 0
