"""C01 — generated Verilog behaves like the simulated structural design.
Proved (Properties/C01.v): each Inline* emitter's assign, under the IEEE-1364 expression semantics of Model/VSem.v, stores what the
REGENERATED propagate() stores, for all widths/constants/values (explicit guards; refutations for the excluded classes); BodyReg's
process simulates the regenerated Reg.clock over every input history.
Per run (translation validation over programs): the real generator's text for each design is parsed (round-trip checked), elaborated
in Coq, (a) every inlined primitive / Reg instance of the live netlist is matched SYNTACTICALLY against the emitter models the theorems
talk about, (b) the text is EXECUTED in the Coq Verilog semantics against the real cycle simulator on the same stimulus."""
import random, traceback, zlib
import common, vlog, vparse, blocks
from common import quiet, zlit

NEEDED = ['And2_propagate', 'Or2_propagate', 'Not_propagate', 'Buf_propagate', 'ZeroExtend_propagate', 'Mul_propagate', 'Sub_propagate',
          'AddCarryIn_propagate', 'ShiftLeftConstant_propagate', 'ShiftRightConstant_propagate', 'Mux2_propagate', 'Range_propagate',
          'Bit_propagate', 'Constant_propagate', 'SignExtend_propagate', 'ConcatenateMSBF_propagate', 'ConcatenateLSBF_propagate', 'Repeat_propagate', 'Div_propagate', 'Mod_propagate', 'SignedMul_propagate', 'Reg_clock', 'SynchronousMemory_clock', 'DualPortSynchronousMemory_clock', 'AsynchronousMemory_propagate',
          'IntegerHelper_c2_to_signed']

RESERVED_PREFIX = 'reserved_'


# ---------------------------------------------------------------- expected flat names (independent of rtl_generation's naming code)
def port_name(p):
    py4hw = common.quiet_import()
    from py4hw.rtl_generation import isReservedVerilogKeyword
    return RESERVED_PREFIX + p.name if isReservedVerilogKeyword(p.name) else p.name


def local_name(scope, wire):
    for p in scope.inPorts + scope.outPorts + getattr(scope, 'inOutPorts', []):
        if p.wire is wire: return port_name(p), True
    return 'w_' + wire.name, False


def flat_name(top, scope, wire):
    """name of the flat net that `wire`, seen from module instance `scope`, is (aliased to) after elaboration"""
    name, is_port = local_name(scope, wire)
    if scope is top: return name
    if is_port: return flat_name(top, scope.parent, wire)
    return inst_path(top, scope) + name


def inst_path(top, obj):
    parts = []
    while obj is not top:
        parts.append('i_' + obj.name); obj = obj.parent
    return ''.join(p + '.' for p in reversed(parts))


def N(top, scope, wire):
    return '(N f "%s" %d)' % (flat_name(top, scope, wire), wire.getWidth())


def expected_terms(top):
    """walk the hierarchy the way the generator does; for every inlined child / Reg return (label, coq bool term) saying that the
    elaborated text contains exactly the emitter model's assign(s) / process for it.  Unknown inlinable classes -> ('unmodelled', cls)."""
    py4hw = common.quiet_import()
    gen = py4hw.VerilogGenerator(top)
    inl = {k.__name__ for k in gen.inlinablePrimitives}
    out, unmodelled = [], []
    def walk(obj):
        for ch in obj.children.values():
            cls = type(ch).__name__
            n = lambda w: N(top, obj, w)
            lab = inst_path(top, obj) + 'i_' + ch.name + ':' + cls
            t = None
            if cls in inl:
                if cls in ('And2', 'Or2', 'Xor2'): t = 'inl_bin %s %s %s %s' % ({'And2': 'BAnd', 'Or2': 'BOr', 'Xor2': 'BXor'}[cls], n(ch.r), n(ch.a), n(ch.b))
                elif cls in ('Nand2', 'Nor2'): t = 'inl_nbin %s %s %s %s' % ({'Nand2': 'BAnd', 'Nor2': 'BOr'}[cls], n(ch.r), n(ch.a), n(ch.b))
                elif cls in ('Mul', 'Sub', 'Div', 'Mod'): t = 'inl_bin %s %s %s %s' % ({'Mul': 'BMul', 'Sub': 'BSub', 'Div': 'BDiv', 'Mod': 'BMod'}[cls], n(ch.r), n(ch.a), n(ch.b))
                elif cls == 'SignedMul': t = 'inl_smul %s %s %s' % (n(ch.r), n(ch.a), n(ch.b))
                elif cls == 'Not': t = 'inl_not %s %s' % (n(ch.r), n(ch.a))
                elif cls in ('Buf', 'ZeroExtend'): t = 'inl_buf %s %s' % (n(ch.r), n(ch.a))
                elif cls == 'SignExtend': t = 'inl_signextend %s %s' % (n(ch.r), n(ch.a))
                elif cls == 'Constant': t = 'inl_constant %s %s' % (n(ch.r), zlit(ch.value))
                elif cls == 'ShiftLeftConstant': t = 'inl_shl %s %s %s' % (n(ch.r), n(ch.a), zlit(ch.getParameterValue('n')))
                elif cls == 'ShiftRightConstant': t = 'inl_shr %s %s %s' % (n(ch.r), n(ch.a), zlit(ch.getParameterValue('n')))
                elif cls == 'Mux2': t = 'inl_mux2 %s %s %s %s' % (n(ch.r), n(ch.sel), n(ch.sel0), n(ch.sel1))
                elif cls == 'AddCarryIn': t = 'inl_addci %s %s %s %s' % (n(ch.r), n(ch.a), n(ch.b), n(ch.ci))
                elif cls == 'EqualConstant': t = 'inl_equalconst %s %s %s' % (n(ch.r), n(ch.a), zlit(ch.v & ((1 << ch.a.getWidth()) - 1)))   # the repaired emitter prints the masked constant
                elif cls == 'Equal': t = 'inl_equal %s %s %s' % (n(ch.r), n(ch.a), n(ch.b))
                elif cls == 'Range': t = 'inl_range %s %s %s %s' % (n(ch.r), n(ch.a), zlit(ch.high), zlit(ch.low))
                elif cls == 'Bit': t = 'inl_bit %s %s %s' % (n(ch.r), n(ch.a), zlit(ch.bit))
                elif cls in ('BitsLSBF', 'BitsMSBF'): t = 'inl_bits %s [%s]' % (n(ch.a), '; '.join(n(b) for b in ch.bits))
                elif cls == 'Repeat': t = 'inl_repeat %s %s' % (n(ch.r), n(ch.i))
                elif cls in ('ConcatenateMSBF', 'ConcatenateLSBF'): t = 'inl_concat %s [%s]' % (n(ch.r), '; '.join(n(x) for x in ch.ins))
                elif cls in ('And', 'Or'): t = 'inl_nary %s %s [%s]' % ({'And': 'BAnd', 'Or': 'BOr'}[cls], n(ch.r), '; '.join(n(x) for x in ch.ins))
                elif cls == 'Nor': t = 'inl_nnary BOr %s [%s]' % (n(ch.r), '; '.join(n(x) for x in ch.ins))
                if t is None: unmodelled.append(cls)
                else: out.append((lab, 'has_assigns f (%s)' % t))
            elif cls == 'Reg':
                pre = inst_path(top, ch)
                w = ch.q.getWidth()
                rq = '(N f "%srq" %d)' % (pre, w)
                e = 'Some %s' % N(top, obj, ch.e) if ch.e is not None else 'None'
                r = 'Some %s' % N(top, obj, ch.r) if ch.r is not None else 'None'
                out.append((lab, 'has_posedge_proc f (body_reg_proc %s %s (%s) (%s) %s) && has_assign f (whole %s, rid %s) && net_init_is f "%srq" %s'
                            % (rq, N(top, obj, ch.d), e, r, zlit(ch.reset_value), N(top, obj, ch.q), rq, pre, zlit(ch.reset_value))))
            elif cls in ('SynchronousMemory', 'DualPortSynchronousMemory', 'AsynchronousMemory'):
                # hand-written verilogBody(): the elaborated text must be the body Properties/C01Mem.v talks about (Model/C01Mem.v)
                pre = inst_path(top, ch)
                ra0 = ch.read_address if cls != 'DualPortSynchronousMemory' else ch.read_address_a
                rd0 = ch.readdata if cls != 'DualPortSynchronousMemory' else ch.readdata_a
                aw, w = ra0.getWidth(), rd0.getWidth()
                mem = '(fst (N f "%smem[]" %d)) %d %d%%nat' % (pre, w, w, 1 << aw)
                loc = lambda name: '(N f "%s%s" %d)' % (pre, name, w)
                if cls == 'SynchronousMemory':
                    t = 'match_syncmem f %s %s %s %s %s %s %s' % (mem, loc('rreaddata'), n(ch.read_address), n(ch.write_address), n(ch.write), n(ch.writedata), n(ch.readdata))
                elif cls == 'AsynchronousMemory':
                    t = 'match_asyncmem f %s %s %s %s %s %s' % (mem, n(ch.readdata), n(ch.read_address), n(ch.write_address), n(ch.write), n(ch.writedata))
                else:
                    port = lambda x: '%s %s %s %s %s %s' % (loc('rreaddata_' + x), n(getattr(ch, 'read_address_' + x)), n(getattr(ch, 'write_address_' + x)),
                                                            n(getattr(ch, 'write_' + x)), n(getattr(ch, 'writedata_' + x)), n(getattr(ch, 'readdata_' + x)))
                    t = 'match_dualmem f %s %s %s' % (mem, port('a'), port('b'))
                out.append((lab, t))
            else:
                walk(ch)
    walk(top)
    return out, unmodelled


MATCH_DEFS = '''
Definition N (f : flat) (name : string) (w : Z) : nid := (match net_index (f_nets f) name 0 with Some i => i | None => 4999%nat end, w).
Definition net_init_is (f : flat) (name : string) (v : Z) : bool :=
  match net_index (f_nets f) name 0 with Some i => match nth_error (f_nets f) i with Some n => Z.eqb (fn_init n) v | None => false end | None => false end.
Definition failing (l : list (nat * bool)) : list nat := map fst (filter (fun p => negb (snd p)) l).
'''


def run_batch(ctx, tag, batch):
    """batch: list of dict(label, hw, top, ins, steps, trace, text).  Returns list of verdict dicts."""
    # (b) execute the text against the simulator trace
    res = vlog.compare(tag + '_sim', [(b['text'], b['top'], b['steps'], b['trace']) for b in batch])
    # (a) syntactic match of every inlined primitive / Reg against the emitter models
    items, body = [], [vlog.PRELUDE, 'From V Require Import Model.Inline Model.C01Mem.', MATCH_DEFS]
    exp = {}
    for i, b in enumerate(batch):
        b['sim'] = res[i]
        if res[i][0] == 'parse':
            b['match'] = None; continue
        try:
            terms, unmod = expected_terms(b['top'])
        except Exception as ex:
            b['match'] = ('error', '%s: %s' % (type(ex).__name__, ex)); continue
        exp[i] = (terms, unmod)
        mods = vparse.parse(b['text'])
        body.append('Definition dsg%d : design := %s.' % (i, vparse.cq_design(mods)))
        lst = '[' + '; '.join('(%d%%nat, %s)' % (k, t) for k, (_, t) in enumerate(terms)) + ']'
        items.append(('m%d' % i, 'match elaborate dsg%d 200 %s with inl e => inl e | inr f => inr (failing %s) end' % (i, vparse.cq_str(mods[0][1]), lst)))
    if items:
        out = common.coq_eval(tag + '_match', '\n'.join(body), items)
        for i, (terms, unmod) in exp.items():
            r = out['m%d' % i]
            if r[0] == 'inl': batch[i]['match'] = ('elab', r[1])
            else: batch[i]['match'] = ('ok', len(terms), unmod) if not r[1] else ('missing', [terms[k][0] for k in r[1]], unmod)
    # (c) the proved validator: match_flat = true (decided by vm_compute) puts the design under C01_vsim_compose — Verilog = kernel run for
    #     EVERY stimulus — and the kernel design built from the same terms must reproduce the real simulator's trace on this stimulus
    try:
        from props import c01_compose
        live = [b for b in batch if b['sim'][0] != 'parse']      # rows excluded by the property (None: zero divisor) are skipped by c01_compose.same_trace
        for b, v in zip(live, c01_compose.check(tag + '_compose', live, with_trace=True)):
            b['compose'] = v
    except Exception as ex:
        for b in batch: b.setdefault('compose', ('error', '%s: %s' % (type(ex).__name__, ex)))
    return batch


def make_case(rng, label, ins, outs, body, n_steps=8):
    clkname = random.Random(zlib.crc32(label.encode()) + 7).choice([None, None, 'clk50', 'CLOCK_50'])      # the implicit clock is not always called clk
    hw, top = blocks.make_top('T_' + label, ins, outs, body, clkname=clkname)
    text = vlog.emit(top)
    nz = ('b',) if label in ('Div', 'Mod') else ()
    steps = blocks.stimulus(rng, ins, n_steps, nonzero=nz)
    srng = random.Random(zlib.crc32(label.encode()) + len(steps))       # settle-only (0 cycles) and two-cycle steps besides single cycles
    steps = [(pk, srng.choice([1, 1, 1, 0, 2])) for pk, _ in steps]
    trace = vlog.run_impl(hw, top, steps)
    if nz: trace[0] = None                      # before the first poke b = 0: division by zero, excluded by the property
    return dict(label=label, hw=hw, top=top, ins=ins, steps=steps, trace=trace, text=text)


# ---------------------------------------------------------------- known findings (genuine defects on the pinned tree)
def known_witnesses(ctx):
    py4hw = common.quiet_import()
    P = py4hw
    W = []
    W.append(('reg-powerup', 'Reg(reset_value=3): Verilog `reg rq = 3` shows 3 at power-up, the simulator shows q=0 until the first edge',
              'RegRv3', [('d', 4), ('r', 1)], [('q', 4)], lambda t, i, o: P.Reg(t, 'x', i['d'], o['q'], reset=i['r'], reset_value=3), [([('d', 5), ('r', 0)], 0)]))
    W.append(('mux2-wide-select', 'Mux2 with a 2-bit select: InlineMux2 tests sel != 0, propagate() tests sel & 1 (sel=2 differs)',
              'Mux2w', [('s', 2), ('a', 4), ('b', 4)], [('r', 4)], lambda t, i, o: P.Mux2(t, 'x', i['s'], i['a'], i['b'], o['r']), [([('s', 2), ('a', 1), ('b', 14)], 0)]))
    W.append(('reg-wide-enable', 'Reg with a 2-bit enable: BodyReg tests e == 1, clock() tests e != 0 (e=2 differs)',
              'RegE2', [('d', 4), ('e', 2)], [('q', 4)], lambda t, i, o: P.Reg(t, 'x', i['d'], o['q'], enable=i['e']), [([('d', 9), ('e', 2)], 1)]))
    W.append(('equalconstant-oversized', 'EqualConstant with a constant >= 2**w: the inlined comparison uses the untruncated constant, the simulated Minterm compares modulo 2**w',
              'EqK', [('a', 3)], [('r', 1)], lambda t, i, o: P.EqualConstant(t, 'x', i['a'], 9, o['r']), [([('a', 1)], 0)]))
    W.append(('xor2-mixed-widths', 'Xor2 whose result is wider than operand a: the simulated NAND network leaves ones in the upper result bits (C08-xor2-wide-result), the inlined `a ^ b` zero-extends',
              'Xor2w', [('a', 1), ('b', 2)], [('r', 2)], lambda t, i, o: P.Xor2(t, 'x', i['a'], i['b'], o['r']), [([('a', 0), ('b', 0)], 0)]))
    def msgseq(t, i, o):
        from py4hw.logic.protocol.uart.sequencer import MsgSequencer
        return MsgSequencer(t, 'x', i['ready'], o['valid'], o['v'], 'Hey!')
    W.append(('msgsequencer-ready-polarity', 'MsgSequencer.verilogBody() tests `ready == 1` where clock() tests `ready == 0` in the VALID state: with ready held high the simulator '
              'sends one character every two cycles, the Verilog never lowers valid',
              'MsgSeq', [('ready', 1)], [('valid', 1), ('v', 8)], msgseq, [([('ready', 1)], 1)] * 6))
    mem_ins = [('ra', 2), ('wa', 2), ('we', 1), ('wd', 4)]
    W.append(('dualport-async-read', 'DualPortSynchronousMemory.verilogBody() reads the array combinationally (`assign readdata_a = mem[read_address_a]`), clock() registers the read: '
              'the Verilog shows a written word one cycle before the simulator',
              'DualMem', mem_ins + [('rb', 2), ('wb', 2), ('web', 1), ('wdb', 4)], [('rd', 4), ('rdb', 4)],
              lambda t, i, o: P.DualPortSynchronousMemory(t, 'x', i['ra'], i['wa'], i['we'], o['rd'], i['wd'], i['rb'], i['wb'], i['web'], o['rdb'], i['wdb']),
              [([('ra', 1), ('wa', 1), ('we', 1), ('wd', 5), ('rb', 0), ('wb', 0), ('web', 0), ('wdb', 0)], 1)] * 2))
    W.append(('asyncmem-read-before-write', 'AsynchronousMemory.propagate() reads before it writes: one evaluation with write=1 and read_address == write_address leaves the OLD word '
              'on readdata (a second evaluation shows the new one), the Verilog `always @(*) if (write) mem[..] = ..` is transparent',
              'AsyncMem', mem_ins, [('rd', 4)], lambda t, i, o: P.AsynchronousMemory(t, 'x', i['ra'], i['wa'], i['we'], o['rd'], i['wd']),
              [([('ra', 1), ('wa', 1), ('we', 1), ('wd', 5)], 0)]))
    def two_adders(t, i, o):
        P.Add(t, 'dbl', i['x'], i['x'], o['r1'])          # both operands on the same wire: emitted first, its body is `r = b + b + ci`
        P.Add(t, 'sum', i['a'], i['b'], o['r2'])          # same module name Add4: bound to the first body
    W.append(('shared-module-aliased-ports', 'two instances share the module Add4; the first has both operands on one wire, so the single emitted body reads `b + b` '
              '(getWireNames keeps one port name per wire) and the second instance computes b+b instead of a+b',
              'AddAlias', [('x', 4), ('a', 4), ('b', 4)], [('r1', 4), ('r2', 4)], two_adders, [([('x', 3), ('a', 1), ('b', 2)], 0)]))
    cases = []
    for fid, text, label, ins, outs, body, steps in W:
        try:
            hw, top = blocks.make_top('K_' + label, ins, outs, body)
            vt = vlog.emit(top); tr = vlog.run_impl(hw, top, steps)
            cases.append((fid, text, (vt, top, steps, tr)))
        except Exception as ex:
            ctx.notes.setdefault('known_witness_errors', []).append('%s: %s' % (fid, ex))
    res = vlog.compare('C01_known', [c[2] for c in cases])
    status = {e['id']: e.get('status', 'known') for e in ctx.known}
    for (fid, text, _), r in zip(cases, res):
        ctx.count(('known', fid))
        if r[0] == 'diff':
            if status.get(fid) == 'known': ctx.known_finding(fid, text)
            else: ctx.violation({'what': 'defect not listed as known (or listed as fixed) is present: ' + text, 'finding': fid, 'diff(step,port,impl,verilog)': r[1:]})
        elif r[0] != 'ok':
            ctx.notes.setdefault('known_witness_errors', []).append('%s: %r' % (fid, r))


def run(ctx):
    ctx.level = 'translation_validation'
    ctx.cov['rule'] = ('program = one library block (random legal widths/parameters) or one random netlist wrapped in a top module, emitted by the real '
                       'generator as a hierarchy; distinct by (label, port widths, emitted text hash); non-trivial = has at least one output that changes over the stimulus')
    missing = ctx.regen(NEEDED)
    r = ctx.prove(['Properties/C01.v', 'Properties/C01Compose.v', 'Properties/C01Mem.v'])
    rng = random.Random(ctx.seed)
    known_witnesses(ctx)
    cat = blocks.catalogue(rng, ctx.tier) + blocks.pair_catalogue(random.Random(ctx.seed * 31 + 77), ctx.tier)     # + two instances of one class per hierarchy (shared modules)
    n_rand = 24 if ctx.quick else 200
    batch, programs, bad, tie_only = [], 0, [], []
    comp_stats = {}
    def flush(tag):
        nonlocal batch
        if not batch: return
        for b in run_batch(ctx, tag, batch):
            key = (b['label'], tuple(b['ins']), hash(b['text']))
            changing = any(len({tuple(row) for row in b['trace'] if row is not None}) > 1 for _ in [0])
            ctx.count(key, n=len(b['steps']), nontrivial=changing)
            if len(ctx.cov['samples']) < 4:
                ctx.sample({'design': b['label'], 'ports': b['ins'], 'first_step': b['steps'][0], 'impl_trace_head': b['trace'][:3], 'text_head': b['text'][:300]})
            cv = b.get('compose', ('notrun',))
            comp_stats[cv[0]] = comp_stats.get(cv[0], 0) + 1
            if cv[0] != 'ok': ctx.notes.setdefault('designs_outside_composition_theorem', []).append('%s: %s' % (b['label'][:60], cv[0]))
            if b['sim'] != ('ok',): bad.append(b)
            elif b.get('match') and b['match'][0] != 'ok': tie_only.append(b)
            elif cv[0] in ('nomatch', 'kernel-differs', 'error'): tie_only.append(b)
        batch = []
    k = 0
    for label, ins, outs, body in cat:
        try:
            batch.append(make_case(rng, label, ins, outs, body)); programs += 1
        except Exception as ex:
            ctx.notes.setdefault('build_errors', []).append('%s: %s: %s' % (label, type(ex).__name__, ex))
        if len(batch) >= 25: flush('C01_b%d' % k); k += 1
    flush('C01_b%d' % k); k += 1
    for j in range(n_rand):
        rr = random.Random(ctx.seed * 7919 + j)
        try:
            hw, top, ins, outs, info = blocks.random_top(rr, n_blocks=rr.randint(3, 10))
            text = vlog.emit(top); steps = blocks.stimulus(rr, ins, 8); trace = vlog.run_impl(hw, top, steps)
            batch.append(dict(label='rand%d:%s' % (j, '+'.join(info['blocks'])), hw=hw, top=top, ins=ins, steps=steps, trace=trace, text=text)); programs += 1
        except Exception as ex:
            ctx.notes.setdefault('build_errors', []).append('rand%d: %s: %s' % (j, type(ex).__name__, ex))
        if len(batch) >= 12: flush('C01_r%d' % k); k += 1
    flush('C01_r%d' % k)
    ctx.cov['programs'] = programs
    ctx.notes['composition_theorem_verdicts'] = comp_stats      # ok = under C01_vsim_compose (all stimuli); notcovered/guard = execution only
    ctx.cov['programs_under_composition_theorem'] = comp_stats.get('ok', 0)
    ctx.cov['disagreements_checked'] = len(bad) + len(tie_only)
    for b in bad:
        ctx.violation({'what': 'emitted Verilog, executed under the Coq 1364 semantics, differs from the simulator (or is outside the emitted subset)',
                       'design': b['label'], 'ports_in': b['ins'], 'verdict': b['sim'], 'steps': b['steps'], 'impl_trace': b['trace'], 'text': b['text'][:6000],
                       'replay_hint': 'rebuild with blocks.catalogue/random_top (same VERIF_SEED), vlog.emit, vlog.compare'})
    if not bad:
        broken = []
        if missing: broken.append('translator rejected %s' % missing)
        if not r['ok']: broken.append('proof obligation no longer checks: %s in %s' % (r.get('lemma'), r.get('file')))
        for b in tie_only: broken.append('emitter model / validator no longer matches the emitted text for %s: match=%r compose=%r' % (b['label'], b.get('match'), b.get('compose')))
        if broken:
            # the executions above were the search (every design ran under the Verilog semantics against the simulator) and found nothing
            ctx.violation({'what': '; '.join(broken)[:3000], 'theorem': r.get('lemma'), 'file': r.get('file'), 'coq_error': r.get('msg')}, found_input=False)
    ctx.assumptions += ['Model/VSem.v is a faithful rendering of IEEE 1364-2005 for the emitted subset (two-valued, cycle abstraction); no Verilog simulator is available to cross-check it',
                        'py/vparse.py parses the emitted text (print-back token round trip checked per design)',
                        'composition of leaves (wiring, scheduling) is validated per design by execution, not by a composition theorem']
