"""C16 helpers: the REAL Axi2Reg / Reg2Axi / Axi2Clk / VitisKernelFSM objects behind a uniform stepping interface
(poke the cycle's inputs, clk(1), read the outputs; snapshot / restore of every wire and Reg.value), schedule
generators, and the protocol monitors (the property written directly over an observed trace, in Python)."""
import math, random
import common, netlist
from common import quiet


def _imports():
    py4hw = common.quiet_import()
    with quiet():
        from py4hw.logic.bus.axi import AXI4StreamInterface
        import py4hw.emulation.vitiswrapping as vw
    return py4hw, AXI4StreamInterface, vw


class Block:
    """common part: wires, registers, snapshot/restore, netlist dump"""
    def finish(self, hw, dut, regnames):
        self.hw, self.dut = hw, dut
        with quiet():
            self.sim = hw.getSimulator()
        self.wires = netlist.all_wires(hw)
        self.regs = [dut.children[n] for n in regnames]

    def snapshot(self):
        return tuple(w.get() for w in self.wires) + tuple(r.value for r in self.regs)

    def restore(self, snap):
        n = len(self.wires)
        for w, v in zip(self.wires, snap[:n]): w.put(v)
        for r, v in zip(self.regs, snap[n:]): r.value = v

    sideband, noise = (), None

    def step(self, i):
        for w, v in zip(self.inw, i): w.put(v)
        if self.noise is not None:          # undriven optional signals of the stream carry arbitrary values: the sink must ignore them
            for w in self.sideband: w.put(self.noise.getrandbits(w.getWidth()))
        with quiet():
            self.sim.clk(1)
        return self.obs()

    def obs(self):
        return [w.get() for w in self.outw]

    def dump(self):
        return netlist.Dump(self.hw)



PLACES = ('top', 'nested', 'staged', 'staged_nested')

def _place(py4hw, hw, place):
    """where the adapter is instantiated: directly in the HWSystem; inside two levels of structural containers (the rtl_kernel pattern of
    createHILVitis); and 'staged': the containers exist and the system HAS ALREADY BEEN SIMULATED before the adapter is added to them"""
    if place == 'top': return hw
    k = py4hw.Logic(hw, 'rtl_kernel')
    parent = py4hw.Logic(k, 'wrapper') if 'nested' in place else k
    if 'staged' in place:
        a, b = hw.wire('pre_a', 1), hw.wire('pre_b', 1)
        py4hw.Buf(parent, 'pre_buf', a, b)
        hw.getSimulator().clk(2)
    return parent

class A2R(Block):
    """inputs (start, reset, done, tvalid, tdata); outputs [q, loaded, active, tready]"""
    name = 'Axi2Reg'
    def __init__(self, W, DW, opts=None):
        py4hw, AXIS, vw = _imports()
        self.W, self.DW, self.opts = W, DW, dict(opts or {})
        self.place = self.opts.pop('_place', 'top')
        with quiet():
            hw = py4hw.HWSystem()
            st, rs, dn = hw.wire('ap_start', 1), hw.wire('ap_reset', 1), hw.wire('ap_done', 1)
            q, ld, ac = hw.wire('q', W), hw.wire('loaded', 1), hw.wire('active', 1)
            s = AXIS(hw, 'stream', dw=DW, **self.opts)
            dut = vw.Axi2Reg(_place(py4hw, hw, self.place), 'axi2reg', st, rs, dn, s, q, ld, ac)
        self.stream = s
        self.inw = [st, rs, dn, s.tvalid, s.tdata]
        self.outw = [q, ld, ac, s.tready]
        # optional sideband signals of the interface: inputs of the sink, to be ignored by it
        self.sideband = [w for n, w in s.sourceToSink if n not in ('tvalid', 'tdata')]
        self.finish(hw, dut, ['reg_data', 'loaded', 'active'])

    def model_snapshot(self):
        return tuple(r.value for r in self.regs) + tuple(w.get() for w in self.outw[:3])


class R2A(Block):
    """inputs (start, reset, done, load_outs, tready, reg_in); outputs [tvalid, tdata, tlast, tkeep, sent, active]"""
    name = 'Reg2Axi'
    def __init__(self, W, DW, opts=None):
        py4hw, AXIS, vw = _imports()
        self.W, self.DW, self.KW = W, DW, DW // 8
        self.opts = dict(opts or {}); self.opts.update(has_tlast=True, has_tkeep=True)      # Reg2Axi drives tlast and tkeep
        self.place = self.opts.pop('_place', 'top')
        with quiet():
            hw = py4hw.HWSystem()
            st, rs, dn = hw.wire('ap_start', 1), hw.wire('ap_reset', 1), hw.wire('ap_done', 1)
            lo, ri = hw.wire('load_outs', 1), hw.wire('reg_in', W)
            se, ac = hw.wire('sent', 1), hw.wire('active', 1)
            s = AXIS(hw, 'stream', dw=DW, **self.opts)
            dut = vw.Reg2Axi(_place(py4hw, hw, self.place), 'reg2axi', st, rs, dn, lo, ri, s, se, ac)
        self.stream = s
        self.inw = [st, rs, dn, lo, s.tready, ri]
        self.outw = [s.tvalid, s.tdata, s.tlast, s.tkeep, se, ac]
        self.finish(hw, dut, ['tvalid', 'tdata_ext', 'sent', 'active'])

    def model_snapshot(self):
        o = self.obs()
        return tuple(r.value for r in self.regs) + (o[0], o[1], o[4], o[5])


class A2C(Block):
    """Axi2Clk (contains Axi2ClkFSM).  inputs (start, reset, done, tvalid, tdata); outputs [clk_out, load_outs, active, tready]"""
    name = 'Axi2Clk'
    def __init__(self, DW=64):
        py4hw, AXIS, vw = _imports()
        self.DW = DW
        with quiet():
            hw = py4hw.HWSystem()
            st, rs, dn = hw.wire('ap_start', 1), hw.wire('ap_reset', 1), hw.wire('ap_done', 1)
            ck, lo, ac = hw.wire('clk_out', 1), hw.wire('load_outs', 1), hw.wire('active', 1)
            s = AXIS(hw, 'stream', dw=DW)
            dut = vw.Axi2Clk(hw, 'axi2clk', st, rs, dn, s, ck, lo, ac)
        self.inw = [st, rs, dn, s.tvalid, s.tdata]
        self.outw = [ck, lo, ac, s.tready]
        self.finish(hw, dut, ['active'])
        self.fsm = dut.children['clk_count']

    def snapshot(self):
        return Block.snapshot(self) + (self.fsm.state, self.fsm.target)

    def restore(self, snap):
        Block.restore(self, snap[:-2]); self.fsm.state, self.fsm.target = snap[-2:]


class VKF(Block):
    """VitisKernelFSM alone.  inputs (ap_start, ap_reset, load_outs, all_sent); outputs [ap_done, ap_idle, ap_ready]"""
    name = 'VitisKernelFSM'
    def __init__(self):
        py4hw, AXIS, vw = _imports()
        with quiet():
            hw = py4hw.HWSystem()
            st, rs = hw.wire('ap_start', 1), hw.wire('ap_reset', 1)
            dn, idl, rdy = hw.wire('ap_done', 1), hw.wire('ap_idle', 1), hw.wire('ap_ready', 1)
            lo, al = hw.wire('load_outs', 1), hw.wire('all_sent', 1)
            dut = vw.VitisKernelFSM(hw, 'fsm', st, rs, dn, idl, rdy, lo, al)
        self.inw = [st, rs, lo, al]
        self.outw = [dn, idl, rdy]
        self.hw, self.dut = hw, dut
        with quiet():
            self.sim = hw.getSimulator()
        self.wires = netlist.all_wires(hw)
        self.regs = []
        self.fsm = dut


class Link(Block):
    """COMPOSITION: Reg2Axi -> one AXI4-Stream -> Axi2Reg in one HWSystem.
    order 'pc' / 'cp': which adapter is instantiated first;  source 'poke': reg_in is poked by the bench,
    'gated_first' / 'gated_last': reg_in is the output of a Reg on a second, gated ClockDriver (created before / after the adapters)
    whose data input is poked.  reset/done are shared, each kernel has its own start.
    inputs (start_p, start_c, reset, done, load_outs, x, en): x = reg_in (poke) or the data input of the gated register, en = its clock enable.
    step(i, n) holds the inputs for one clk(n) call.  outputs [tvalid, tdata, tlast, tkeep, sent, p_active, q, loaded, c_active, tready, reg_in]"""
    name = 'Reg2Axi->Axi2Reg'
    def __init__(self, W, Q, DW, order='pc', source='poke', clkname='clk_dut', twin=False):
        py4hw, AXIS, vw = _imports()
        self.W, self.Q, self.DW, self.order, self.source = W, Q, DW, order, source
        self.clkname, self.twin = clkname, twin      # name of the gated driver ('clk' = the system clock's own name); twin: a second, unrelated gated driver of the SAME name
        with quiet():
            hw = py4hw.HWSystem()
            sp, sc, rs, dn = hw.wire('ap_start_p', 1), hw.wire('ap_start_c', 1), hw.wire('ap_reset', 1), hw.wire('ap_done', 1)
            lo, ri = hw.wire('load_outs', 1), hw.wire('reg_in', W)
            se, pa = hw.wire('sent', 1), hw.wire('p_active', 1)
            q, ld, ca = hw.wire('q', Q), hw.wire('loaded', 1), hw.wire('c_active', 1)
            x, en = hw.wire('dut_d', W), hw.wire('dut_en', 1)
            s = AXIS(hw, 's', dw=DW, has_tlast=True, has_tkeep=True)
            aux_en, aux_q = hw.wire('aux_en', 1), hw.wire('aux_q', W)
            self.aux_en = aux_en
            def dut():
                r = py4hw.Reg(hw, 'dut', d=x, q=ri)
                r.clockDriver = py4hw.ClockDriver(clkname, base=hw.clockDriver, wire=en, enable=en)
                if twin:        # an unrelated block on its own gated clock (enabled exactly when the first is not), driver of the same name
                    a = py4hw.Reg(hw, 'aux', d=x, q=aux_q)
                    a.clockDriver = py4hw.ClockDriver(clkname, base=hw.clockDriver, wire=aux_en, enable=aux_en)
                return r
            self.dutreg = dut() if source == 'gated_first' else None
            for who in order:
                if who == 'p': self.p = vw.Reg2Axi(hw, 'reg2axi', sp, rs, dn, lo, ri, s, se, pa)
                else: self.c = vw.Axi2Reg(hw, 'axi2reg', sc, rs, dn, s, q, ld, ca)
            if source == 'gated_last': self.dutreg = dut()
        self.inw = [sp, sc, rs, dn, lo, (ri if source == 'poke' else x), en]
        self.outw = [s.tvalid, s.tdata, s.tlast, s.tkeep, se, pa, q, ld, ca, s.tready, ri]
        self.hw, self.dut = hw, None
        with quiet():
            self.sim = hw.getSimulator()
        self.wires = netlist.all_wires(hw)

    def step(self, i, n=1):
        for w, v in zip(self.inw, i): w.put(v)
        self.aux_en.put(1 - i[6])
        with quiet():
            self.sim.clk(n)
        return self.obs()


class LinkRef:
    """the composition of the two reference machines of the property (plain integers): the spec of the link"""
    def __init__(self, W, Q, DW, gated):
        self.W, self.Q, self.DW, self.gated = W, Q, DW, gated
        self.tv = self.td = self.se = self.pa = 0
        self.q = self.ld = self.ca = 0
        self.ri = 0
        self.trace_regin = []

    def cycle(self, i):
        sp, sc, rs, dn, lo, x, en = i
        ri = self.ri if self.gated else x & ((1 << self.W) - 1)        # what reg_in shows during the cycle
        self.trace_regin.append(ri)
        tready = self.ca
        acc = self.tv and tready
        p_hs = self.pa and acc
        loadp = lo and self.pa
        tv = 0 if (rs or p_hs) else 1 if loadp else self.tv
        td = (ri & ((1 << self.DW) - 1)) if loadp else self.td
        se = 0 if (rs or dn or (sp and not self.pa)) else 1 if p_hs else self.se
        pa = 0 if (rs or dn) else 1 if sp else self.pa
        clear = rs or dn or (sc and not self.ca)
        beat = self.ca and self.tv
        q, ld = (0, 0) if clear else (self.td & ((1 << self.Q) - 1), 1) if beat else (self.q, self.ld)
        ca = 0 if (rs or dn) else 1 if sc else self.ca
        if self.gated:
            if en: self.ri = x & ((1 << self.W) - 1)
        else:
            self.ri = ri
        self.tv, self.td, self.se, self.pa, self.q, self.ld, self.ca = tv, td, se, pa, q, ld, ca

    def obs(self):
        keep = (1 << math.ceil(self.W / 8)) - 1
        return [self.tv, self.td, self.tv, keep, self.se, self.pa, self.q, self.ld, self.ca, self.ca, self.ri]


def link_schedule(rng, W, n, kind, multi):
    """(start_p, start_c, reset, done, load_outs, x, en, ncycles) per clk() call"""
    out = []
    nc = (lambda: rng.choice([1, 1, 2, 2, 3, 5])) if multi else (lambda: 1)
    d = lambda: data_values(rng, W)
    if kind == 'random':
        ps, pc, pl = [rng.choice([0.1, 0.3, 0.6]) for _ in range(3)]
        for _ in range(n):
            out.append((_bits(rng, ps), _bits(rng, pc), _bits(rng, 0.05), _bits(rng, 0.06), _bits(rng, pl), d(), _bits(rng, 0.5), nc()))
    elif kind == 'late_consumer':       # producer started and loaded first: the beat waits (back-pressure) until the consumer kernel starts
        while len(out) < n:
            out.append((0, 0, 1, 0, 0, d(), 1, nc()))
            out.append((1, 0, 0, 0, 0, d(), 1, 1))
            out.append((0, 0, 0, 0, 1, d(), _bits(rng, 0.7), 1))
            for _ in range(rng.randint(0, 3)): out.append((0, 0, 0, 0, 0, d(), _bits(rng, 0.5), nc()))
            out.append((0, 1, 0, 0, 0, d(), _bits(rng, 0.5), nc()))
            for _ in range(rng.randint(0, 2)): out.append((0, 0, 0, 0, _bits(rng, 0.4), d(), _bits(rng, 0.5), nc()))
            out.append((0, 0, 0, 1, 0, d(), 0, 1))
    elif kind == 'streaming':           # both active, load pulses while the gated register keeps changing
        out.append((1, 1, 0, 0, 0, d(), 1, 1))
        for _ in range(n):
            out.append((0, 0, 0, 0, _bits(rng, 0.5), d(), _bits(rng, 0.7), nc()))
    return out[:n]


# ------------------------------------------------------------------ interface configurations
def draw_opts(rng, W, sink):
    """optional signals of AXI4StreamInterface (TLAST/TKEEP/TSTRB flags, TID/TDEST/TUSER widths), some narrower than the payload"""
    o = {}
    for flag in ('has_tlast', 'has_tkeep', 'has_tstrb'):
        if rng.random() < 0.5: o[flag] = True
    for name in ('iw', 'rw', 'uw'):
        if rng.random() < 0.5: o[name] = rng.choice([1, 2, 3, 4, 8, 16])
    return o


# ------------------------------------------------------------------ schedules
def _bits(rng, p):
    return 1 if rng.random() < p else 0

def data_values(rng, width):
    ext = [0, 1, (1 << width) - 1, 1 << (width - 1), (1 << width) - 2, 0x5555555555555555 & ((1 << width) - 1)]
    return ext[rng.randrange(len(ext))] if rng.random() < 0.4 else rng.getrandbits(width)

def a2r_schedule(rng, DW, n, kind):
    """(start, reset, done, tvalid, tdata) per cycle"""
    out = []
    if kind == 'random':
        ps, pr, pd, pv = [rng.choice([0.05, 0.2, 0.5, 0.9]) for _ in range(4)]
        pr, pd = pr * 0.4, pd * 0.4
        for _ in range(n):
            out.append((_bits(rng, ps), _bits(rng, pr), _bits(rng, pd), _bits(rng, pv), data_values(rng, DW)))
    elif kind == 'session':            # start pulse, some beats with gaps, done; repeated
        while len(out) < n:
            out.append((1, 0, 0, _bits(rng, 0.5), data_values(rng, DW)))
            for _ in range(rng.randint(0, 6)):
                out.append((_bits(rng, 0.1), 0, 0, _bits(rng, 0.6), data_values(rng, DW)))
            out.append((0, _bits(rng, 0.2), 1, _bits(rng, 0.5), data_values(rng, DW)))
            for _ in range(rng.randint(0, 2)):
                out.append((0, 0, 0, _bits(rng, 0.7), data_values(rng, DW)))
    elif kind == 'back2back':          # valid held high, data changing every cycle, start held (level) or pulsed
        level = rng.random() < 0.5
        for k in range(n):
            out.append((1 if (level or k == 1) else 0, 1 if k == 0 else 0, _bits(rng, 0.08), 1, data_values(rng, DW)))
    elif kind == 'midreset':           # reset / done in the very cycle of a beat, restart while active / inactive
        for k in range(n):
            c = rng.randrange(8)
            out.append((1 if c in (0, 1, 5) else 0, 1 if c == 2 else 0, 1 if c in (3, 5) else 0, _bits(rng, 0.8), data_values(rng, DW)))
    return out[:n]

def r2a_schedule(rng, W, n, kind):
    """(start, reset, done, load_outs, tready, reg_in) per cycle"""
    out = []
    if kind == 'random':
        ps, pr, pd, pl, py = [rng.choice([0.05, 0.2, 0.5, 0.9]) for _ in range(5)]
        pr, pd = pr * 0.3, pd * 0.3
        for _ in range(n):
            out.append((_bits(rng, ps), _bits(rng, pr), _bits(rng, pd), _bits(rng, pl), _bits(rng, py), data_values(rng, W)))
    elif kind == 'session':            # the intended use: start, load pulse, back-pressure, accept, done after sent
        while len(out) < n:
            out.append((1, 0, 0, 0, _bits(rng, 0.5), data_values(rng, W)))
            for _ in range(rng.randint(1, 3)):
                out.append((0, 0, 0, 1, 0 if rng.random() < 0.7 else 1, data_values(rng, W)))     # load pulse
                for _ in range(rng.randint(0, 5)):                                                  # stall
                    out.append((0, 0, 0, 0, 0, data_values(rng, W)))
                out.append((0, 0, 0, 0, 1, data_values(rng, W)))                                     # accept
                out.append((0, 0, 0, 0, _bits(rng, 0.5), data_values(rng, W)))
            out.append((0, 0, 1, 0, _bits(rng, 0.5), data_values(rng, W)))                           # done (nothing pending)
    elif kind == 'backpressure':       # ready toggling patterns against load level held high (as createHILVitis wires it)
        pat = rng.choice([[0, 1], [0, 0, 1], [1], [0, 0, 0, 0, 1], [1, 1, 0]])
        for k in range(n):
            out.append((1 if k == 0 else 0, 0, 0, 1 if k > 0 else 0, pat[k % len(pat)], data_values(rng, W)))
    elif kind == 'loadpending':        # load while a beat is pending / in the accept cycle
        out.append((1, 0, 0, 0, 0, 0))
        for k in range(n):
            out.append((0, 0, 0, _bits(rng, 0.6), _bits(rng, 0.3), data_values(rng, W)))
    elif kind == 'midtransfer':        # reset / done / restart in the middle of a transfer
        for k in range(n):
            c = rng.randrange(10)
            out.append((1 if c in (0, 1) else 0, 1 if c == 2 else 0, 1 if c == 3 else 0, 1 if c in (4, 5, 6) else 0, _bits(rng, 0.35), data_values(rng, W)))
    return out[:n]


# ------------------------------------------------------------------ protocol monitors (impl-vs-spec oracle)
class A2RMonitor:
    """C16 for the stream->register adapter, over the observed trace.  check(prev_obs, inputs, new_obs) -> None | message"""
    def __init__(self, W, history=True):
        self.W = W
        self.history = history  # False: single transitions from an arbitrary snapshot (no path known)
        self.hist = []          # (inputs, active_before)

    def check(self, prev, i, new):
        st, rs, dn, tv, td = i
        q0, ld0, ac0, rdy0 = prev
        q1, ld1, ac1, rdy1 = new
        if rdy1 != ac1: return 'tready=%d differs from active=%d' % (rdy1, ac1)
        clear = rs or dn or (st and not ac0)
        beat = rdy0 and tv                      # the peer's VALID met our READY in this cycle
        if clear:
            if (q1, ld1) != (0, 0): return 'reset/done/restart did not clear (q=%d loaded=%d)' % (q1, ld1)
        elif beat:
            if q1 != td & ((1 << self.W) - 1): return 'beat %d transferred but q=%d (expected low %d bits = %d)' % (td, q1, self.W, td & ((1 << self.W) - 1))
            if ld1 != 1: return 'beat transferred but loaded=0'
        else:
            if (q1, ld1) != (q0, ld0): return 'q/loaded changed (%d,%d)->(%d,%d) without a beat or a clear' % (q0, ld0, q1, ld1)
        exp_ac = 0 if (rs or dn) else 1 if st else ac0
        if ac1 != exp_ac: return 'active=%d expected %d' % (ac1, exp_ac)
        if not ac1 and (q1, ld1) != (0, 0): return 'inactive but q=%d loaded=%d' % (q1, ld1)
        if not self.history: return None
        # the same, read from the history: the most recent beat / clear decides
        self.hist.append((i, ac0))
        exp = (0, 0)
        for (s2, r2, d2, v2, t2), a2 in reversed(self.hist):
            if r2 or d2 or (s2 and not a2): break
            if a2 and v2: exp = (t2 & ((1 << self.W) - 1), 1); break
        if (q1, ld1) != exp: return 'history says (q,loaded)=%s, block shows (%d,%d)' % (exp, q1, ld1)
        return None


class R2AMonitor:
    """C16 for the register->stream adapter.  check -> (message | None, outside_assumption_message | None)"""
    def __init__(self, W, DW, counts=True):
        self.W, self.DW = W, DW
        self.counts = counts        # False: single transitions from an arbitrary snapshot (no path, no totals)
        self.keep = ((1 << math.ceil(W / 8)) - 1)
        self.env_ok = True          # done only after a completed transfer, so far
        self.latest = 0             # value at the latest load pulse
        self.acc = self.lds = 0

    def state(self):
        return (self.env_ok, self.latest)

    def check(self, prev, i, new):
        st, rs, dn, lo, rdy, x = i
        tv0, td0, tl0, tk0, se0, ac0 = prev
        tv1, td1, tl1, tk1, se1, ac1 = new
        if tl1 != tv1: return 'tlast=%d differs from tvalid=%d' % (tl1, tv1), None
        if tk1 != self.keep: return 'tkeep=%d expected constant %d' % (tk1, self.keep), None
        accepted = tv0 and rdy
        loadp = lo and ac0
        if dn and not rs and (tv0 or lo): self.env_ok = False       # done with a beat pending / being loaded: outside the assumption
        if tv0 and not accepted and not rs and not tv1: return 'VALID dropped before the beat was accepted (no reset)', None
        if rs and (tv1 or se1 or ac1): return 'reset did not clear VALID/sent/active (tvalid=%d sent=%d active=%d)' % (tv1, se1, ac1), None
        if dn and (se1 or ac1): return 'done did not clear sent/active (sent=%d active=%d)' % (se1, ac1), None
        if not tv0 and tv1 and not loadp: return 'VALID raised without a load pulse while active', None
        if loadp: self.latest = x & ((1 << self.DW) - 1)
        if td1 != self.latest: return 'tdata=%d, value at the latest load pulse is %d' % (td1, self.latest), None
        if not se0 and se1 and not (accepted and ac0): return 'sent rose without an accepted beat', None
        clear = rs or dn or (st and not ac0)
        if se0 and not clear and not se1: return 'sent dropped without reset/done/restart', None
        if accepted and ac0 and not clear and not se1: return 'beat accepted while active but sent not raised', None
        exp_ac = 0 if (rs or dn) else 1 if st else ac0
        if ac1 != exp_ac: return 'active=%d expected %d' % (ac1, exp_ac), None
        self.acc += 1 if accepted else 0
        self.lds += 1 if loadp else 0
        msg = None
        if accepted and tv1:
            msg = 'accepted beat still offered in the next cycle (duplicate)'
        elif tv1 and not ac1:
            msg = 'VALID high while inactive (a beat accepted now is not withdrawn)'
        if msg:
            return (msg, None) if self.env_ok else (None, msg)
        if self.counts and self.env_ok and self.acc > self.lds: return 'more beats accepted (%d) than load pulses (%d)' % (self.acc, self.lds), None
        if rs:      # a reset clears VALID, sent and active (checked above): the adapter is back in its power-up state, start afresh
            self.env_ok = True; self.acc = self.lds = 0
        return None, None


class A2CMonitor:
    """extension: after a handshake taken in IDLE with target n>=1: exactly n clk_out pulses then one load_outs cycle.
    Tracks the FSM phase from the outputs only."""
    def __init__(self):
        self.phase = 'idle'; self.want = 0; self.seen = 0; self.sub = 0; self.stale = False

    def check(self, prev, i, new, count_before):
        st, rs, dn, tv, td = i
        ck0, lo0, ac0, rdy0 = prev
        ck1, lo1, ac1, rdy1 = new
        hs = ac0 and tv and rdy0
        if self.phase == 'idle':
            if lo1 != 0: return 'load_outs high in idle'
            if hs:
                self.phase, self.want, self.seen, self.sub = 'run', td, 0, 0
                self.stale = count_before != 0
            elif ck1 != 0: return 'clk_out high in idle'
            return None
        if self.phase == 'run':
            exp = 1 if self.sub == 0 else 0
            if ck1 != exp or lo1 != 0: return ('pulse %d of %d: clk_out=%d load_outs=%d expected %d,0' % (self.seen + 1, self.want, ck1, lo1, exp)) if self.seen < self.want else 'more than %d pulses' % self.want
            if self.sub == 1:
                self.seen += 1
                if self.seen == self.want: self.phase = 'end'
            self.sub ^= 1
            return None
        if self.phase == 'end':
            self.phase = 'idle'
            if (ck1, lo1) != (0, 1): return 'after %d pulses: clk_out=%d load_outs=%d expected 0,1' % (self.want, ck1, lo1)
            return None
