"""C03 — behavioural blocks (body text produced by py4hw's Python->Verilog transpiler).  Classes live in a real module file so
that inspect.getsource works.  build(p, name) -> top object containing one instance of the block."""
import common
p = common.quiet_import()
from py4hw.base import Logic


class Acc(Logic):
    def __init__(self, parent, name, a, en, r, z):
        super().__init__(parent, name)
        self.a = self.addIn('a', a); self.en = self.addIn('en', en); self.r = self.addOut('r', r); self.z = self.addOut('z', z)
        self.acc = 0
        self.state = 3

    def clock(self):
        if self.en.get():
            self.acc = self.acc + self.a.get()
            if self.state == 0:
                self.state = 1
            elif self.state == 1:
                self.state = 2
            else:
                self.state = 0
        self.r.prepare(self.acc)
        self.z.prepare(self.state)


class Comb(Logic):
    def __init__(self, parent, name, a, b, r):
        super().__init__(parent, name)
        self.a = self.addIn('a', a); self.b = self.addIn('b', b); self.r = self.addOut('r', r)

    def propagate(self):
        t = self.a.get() + 1
        if self.b.get() == 1:
            self.r.put(t)
        else:
            self.r.put(self.a.get() & 3)


class CombOps(Logic):
    def __init__(self, parent, name, a, b, r, s):
        super().__init__(parent, name)
        self.a = self.addIn('a', a); self.b = self.addIn('b', b); self.r = self.addOut('r', r); self.s = self.addOut('s', s)

    def propagate(self):
        x = (self.a.get() ^ self.b.get()) | (self.a.get() << 2)
        y = (self.a.get() - self.b.get()) * 3
        if (x > y) and (self.a.get() != 0):
            self.r.put(x >> 1)
        elif x <= 7 or not (y == 2):
            self.r.put(y % 5)
        else:
            self.r.put(x // 3)
        self.s.put(~self.a.get())


class Fsm(Logic):
    def __init__(self, parent, name, start, stop, busy, cnt):
        super().__init__(parent, name)
        self.start = self.addIn('start', start); self.stop = self.addIn('stop', stop)
        self.busy = self.addOut('busy', busy); self.cnt = self.addOut('cnt', cnt)
        self.state = 0
        self.n = 0

    def clock(self):
        if (self.state == 0):
            self.busy.prepare(0)
            if (self.start.get()):
                self.state = 1
                self.n = 0
        elif (self.state == 1):
            self.busy.prepare(1)
            self.n += 1
            if (self.stop.get() or self.n == 9):
                self.state = 2
        elif (self.state == 2):
            self.cnt.prepare(self.n)
            self.state = 0


class AttrPortMismatch(Logic):
    """DESIGN.md section 7 #11: the attribute holding the port is named differently from the port"""
    def __init__(self, parent, name, a, r):
        super().__init__(parent, name)
        self.a = self.addIn('a', a)
        self.imm_type = self.addOut('imm_typ', r)

    def propagate(self):
        self.imm_type.put(self.a.get() + 1)


class AttrPortMismatchSeq(Logic):
    def __init__(self, parent, name, a, r):
        super().__init__(parent, name)
        self.din = self.addIn('a', a)
        self.r = self.addOut('r', r)

    def clock(self):
        self.r.prepare(self.din.get())


class TernaryComb(Logic):
    """DESIGN.md section 7 #24: a conditional expression inside a combinational propagate"""
    def __init__(self, parent, name, a, b, r):
        super().__init__(parent, name)
        self.a = self.addIn('a', a); self.b = self.addIn('b', b); self.r = self.addOut('r', r)

    def propagate(self):
        t = self.a.get() if not self.b.get() else self.a.get() + 1
        self.r.put(t)


class TernarySeq(Logic):
    def __init__(self, parent, name, a, b, r):
        super().__init__(parent, name)
        self.a = self.addIn('a', a); self.b = self.addIn('b', b); self.r = self.addOut('r', r)
        self.t = 0

    def clock(self):
        self.t = self.a.get() if self.b.get() else 0
        self.r.prepare(self.t)


def _wrap(ins, outs, body):
    from props.c03_designs import make_top
    return make_top(p, ins, outs, body)


def build(_p, name):
    from py4hw.logic.protocol.uart.serdes import UARTSerializer, UARTDeserializer
    from py4hw.logic.protocol.uart.clock import ClockSyncFSM
    from py4hw.logic.clock import AutoReset
    B = {
        'Acc': lambda: _wrap([('a', 8), ('en', 1)], [('r', 8), ('z', 2)], lambda t, I, O: Acc(t, 'dut', I[0], I[1], O[0], O[1])),
        'Comb': lambda: _wrap([('a', 8), ('b', 1)], [('r', 8)], lambda t, I, O: Comb(t, 'dut', I[0], I[1], O[0])),
        'CombOps': lambda: _wrap([('a', 8), ('b', 8)], [('r', 8), ('s', 8)], lambda t, I, O: CombOps(t, 'dut', I[0], I[1], O[0], O[1])),
        'Fsm': lambda: _wrap([('start', 1), ('stop', 1)], [('busy', 1), ('cnt', 4)], lambda t, I, O: Fsm(t, 'dut', I[0], I[1], O[0], O[1])),
        'TwoInstances': lambda: _wrap([('a', 8), ('b', 1)], [('r', 8), ('s', 8)], lambda t, I, O: (Comb(t, 'd0', I[0], I[1], O[0]), Comb(t, 'd1', I[0], I[1], O[1]))),
        'UARTSerializer': lambda: _wrap([('valid', 1), ('v', 8), ('ck', 1)], [('ready', 1), ('tx', 1)], lambda t, I, O: UARTSerializer(t, 'dut', O[0], I[0], I[1], I[2], O[1])),
        'UARTDeserializer': lambda: _wrap([('rx', 1), ('smp', 1), ('ready', 1)], [('valid', 1), ('v', 8), ('des', 1)],
                                          lambda t, I, O: UARTDeserializer(t, 'dut', I[0], I[1], I[2], O[0], O[1], O[2])),
        'ClockSyncFSM': lambda: _wrap([('start', 1), ('stop', 1)], [('sync', 1), ('active', 1)], lambda t, I, O: ClockSyncFSM(t, 'dut', I[0], I[1], O[0], O[1])),
        'AutoReset': lambda: _wrap([], [('reset', 1)], lambda t, I, O: AutoReset(t, 'dut', O[0])),
        'AttrPortMismatch': lambda: _wrap([('a', 8)], [('r', 8)], lambda t, I, O: AttrPortMismatch(t, 'dut', I[0], O[0])),
        'AttrPortMismatchSeq': lambda: _wrap([('a', 8)], [('r', 8)], lambda t, I, O: AttrPortMismatchSeq(t, 'dut', I[0], O[0])),
        'TernaryComb': lambda: _wrap([('a', 8), ('b', 1)], [('r', 8)], lambda t, I, O: TernaryComb(t, 'dut', I[0], I[1], O[0])),
        'TernarySeq': lambda: _wrap([('a', 8), ('b', 1)], [('r', 8)], lambda t, I, O: TernarySeq(t, 'dut', I[0], I[1], O[0])),
    }
    return B[name]()


CASES = ['Acc', 'Comb', 'CombOps', 'Fsm', 'TwoInstances', 'UARTSerializer', 'UARTDeserializer', 'ClockSyncFSM', 'AutoReset',
         'AttrPortMismatch', 'AttrPortMismatchSeq', 'TernaryComb', 'TernarySeq']
