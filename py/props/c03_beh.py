"""C03 — behavioural blocks (body text produced by py4hw's Python->Verilog transpiler).  Classes live in a real module file so
that inspect.getsource works.  build(p, name) -> top object containing one instance of the block."""
import common
p = common.quiet_import()
from py4hw.base import Logic


class Acc(Logic):
    def __init__(self, parent, name, a, en, r, z):
        super().__init__(parent, name)
        self.a = self.addIn('a', a); self.en = self.addIn('en', en); self.r = self.addOut('r', r); self.z = self.addOut('z', z)
        self.acc = 0
        self.state = 3

    def clock(self):
        if self.en.get():
            self.acc = self.acc + self.a.get()
            if self.state == 0:
                self.state = 1
            elif self.state == 1:
                self.state = 2
            else:
                self.state = 0
        self.r.prepare(self.acc)
        self.z.prepare(self.state)


class Comb(Logic):
    def __init__(self, parent, name, a, b, r):
        super().__init__(parent, name)
        self.a = self.addIn('a', a); self.b = self.addIn('b', b); self.r = self.addOut('r', r)

    def propagate(self):
        t = self.a.get() + 1
        if self.b.get() == 1:
            self.r.put(t)
        else:
            self.r.put(self.a.get() & 3)


class CombOps(Logic):
    def __init__(self, parent, name, a, b, r, s):
        super().__init__(parent, name)
        self.a = self.addIn('a', a); self.b = self.addIn('b', b); self.r = self.addOut('r', r); self.s = self.addOut('s', s)

    def propagate(self):
        x = (self.a.get() ^ self.b.get()) | (self.a.get() << 2)
        y = (self.a.get() - self.b.get()) * 3
        if (x > y) and (self.a.get() != 0):
            self.r.put(x >> 1)
        elif x <= 7 or not (y == 2):
            self.r.put(y % 5)
        else:
            self.r.put(x // 3)
        self.s.put(~self.a.get())


class Fsm(Logic):
    def __init__(self, parent, name, start, stop, busy, cnt):
        super().__init__(parent, name)
        self.start = self.addIn('start', start); self.stop = self.addIn('stop', stop)
        self.busy = self.addOut('busy', busy); self.cnt = self.addOut('cnt', cnt)
        self.state = 0
        self.n = 0

    def clock(self):
        if (self.state == 0):
            self.busy.prepare(0)
            if (self.start.get()):
                self.state = 1
                self.n = 0
        elif (self.state == 1):
            self.busy.prepare(1)
            self.n += 1
            if (self.stop.get() or self.n == 9):
                self.state = 2
        elif (self.state == 2):
            self.cnt.prepare(self.n)
            self.state = 0


class AttrPortMismatch(Logic):
    """DESIGN.md section 7 #11: the attribute holding the port is named differently from the port"""
    def __init__(self, parent, name, a, r):
        super().__init__(parent, name)
        self.a = self.addIn('a', a)
        self.imm_type = self.addOut('imm_typ', r)

    def propagate(self):
        self.imm_type.put(self.a.get() + 1)


class AttrPortMismatchSeq(Logic):
    def __init__(self, parent, name, a, r):
        super().__init__(parent, name)
        self.din = self.addIn('a', a)
        self.r = self.addOut('r', r)

    def clock(self):
        self.r.prepare(self.din.get())


class TernaryComb(Logic):
    """DESIGN.md section 7 #24: a conditional expression inside a combinational propagate"""
    def __init__(self, parent, name, a, b, r):
        super().__init__(parent, name)
        self.a = self.addIn('a', a); self.b = self.addIn('b', b); self.r = self.addOut('r', r)

    def propagate(self):
        t = self.a.get() if not self.b.get() else self.a.get() + 1
        self.r.put(t)


class TernarySeq(Logic):
    def __init__(self, parent, name, a, b, r):
        super().__init__(parent, name)
        self.a = self.addIn('a', a); self.b = self.addIn('b', b); self.r = self.addOut('r', r)
        self.t = 0

    def clock(self):
        self.t = self.a.get() if self.b.get() else 0
        self.r.prepare(self.t)


def _wrap(ins, outs, body):
    from props.c03_designs import make_top
    return make_top(p, ins, outs, body)


def build(_p, name):
    from py4hw.logic.protocol.uart.serdes import UARTSerializer, UARTDeserializer
    from py4hw.logic.protocol.uart.clock import ClockSyncFSM
    from py4hw.logic.clock import AutoReset
    B = {
        'Acc': lambda: _wrap([('a', 8), ('en', 1)], [('r', 8), ('z', 2)], lambda t, I, O: Acc(t, 'dut', I[0], I[1], O[0], O[1])),
        'Comb': lambda: _wrap([('a', 8), ('b', 1)], [('r', 8)], lambda t, I, O: Comb(t, 'dut', I[0], I[1], O[0])),
        'CombOps': lambda: _wrap([('a', 8), ('b', 8)], [('r', 8), ('s', 8)], lambda t, I, O: CombOps(t, 'dut', I[0], I[1], O[0], O[1])),
        'Fsm': lambda: _wrap([('start', 1), ('stop', 1)], [('busy', 1), ('cnt', 4)], lambda t, I, O: Fsm(t, 'dut', I[0], I[1], O[0], O[1])),
        'TwoInstances': lambda: _wrap([('a', 8), ('b', 1)], [('r', 8), ('s', 8)], lambda t, I, O: (Comb(t, 'd0', I[0], I[1], O[0]), Comb(t, 'd1', I[0], I[1], O[1]))),
        'UARTSerializer': lambda: _wrap([('valid', 1), ('v', 8), ('ck', 1)], [('ready', 1), ('tx', 1)], lambda t, I, O: UARTSerializer(t, 'dut', O[0], I[0], I[1], I[2], O[1])),
        'UARTDeserializer': lambda: _wrap([('rx', 1), ('smp', 1), ('ready', 1)], [('valid', 1), ('v', 8), ('des', 1)],
                                          lambda t, I, O: UARTDeserializer(t, 'dut', I[0], I[1], I[2], O[0], O[1], O[2])),
        'ClockSyncFSM': lambda: _wrap([('start', 1), ('stop', 1)], [('sync', 1), ('active', 1)], lambda t, I, O: ClockSyncFSM(t, 'dut', I[0], I[1], O[0], O[1])),
        'AutoReset': lambda: _wrap([], [('reset', 1)], lambda t, I, O: AutoReset(t, 'dut', O[0])),
        'AttrPortMismatch': lambda: _wrap([('a', 8)], [('r', 8)], lambda t, I, O: AttrPortMismatch(t, 'dut', I[0], O[0])),
        'AttrPortMismatchSeq': lambda: _wrap([('a', 8)], [('r', 8)], lambda t, I, O: AttrPortMismatchSeq(t, 'dut', I[0], O[0])),
        'TernaryComb': lambda: _wrap([('a', 8), ('b', 1)], [('r', 8)], lambda t, I, O: TernaryComb(t, 'dut', I[0], I[1], O[0])),
        'TernarySeq': lambda: _wrap([('a', 8), ('b', 1)], [('r', 8)], lambda t, I, O: TernarySeq(t, 'dut', I[0], I[1], O[0])),
    }
    return B[name]()


CASES = ['Acc', 'Comb', 'CombOps', 'Fsm', 'TwoInstances', 'UARTSerializer', 'UARTDeserializer', 'ClockSyncFSM', 'AutoReset',
         'AttrPortMismatch', 'AttrPortMismatchSeq', 'TernaryComb', 'TernarySeq']


# ------------------------------------------------------------------------------------------------ generated behavioural blocks
# Transpiled blocks whose PORT names / state attributes / local variables are adversarial (Verilog keywords, names carrying the
# generator's own prefixes, the implicit clock name).  The header of such a module is written by rtl_generation (getPortName ->
# reserved_ prefix) and its body by the transpiler: both must agree on every name.  The classes are written to a real module file
# (inspect.getsource must work) in a scratch directory that is removed at exit.
import keyword as _pykw, os as _os, sys as _sys, tempfile as _tempfile, importlib as _importlib, atexit as _atexit, shutil as _shutil

_GEN = {}

TEMPLATE_COMB = """
class {cls}(Logic):
    def __init__(self, parent, name, a, b, r):
        super().__init__(parent, name)
        self.{aa} = self.addIn({pa!r}, a); self.{ab} = self.addIn({pb!r}, b); self.{ar} = self.addOut({pr!r}, r)

    def propagate(self):
        {lv} = self.{aa}.get() + 1
        if self.{ab}.get() == 1:
            self.{ar}.put({lv})
        else:
            self.{ar}.put(self.{aa}.get() & 3)
"""
TEMPLATE_SEQ = """
class {cls}(Logic):
    def __init__(self, parent, name, a, b, r):
        super().__init__(parent, name)
        self.{aa} = self.addIn({pa!r}, a); self.{ab} = self.addIn({pb!r}, b); self.{ar} = self.addOut({pr!r}, r)
        self.{sv} = 0

    def clock(self):
        if self.{ab}.get():
            self.{sv} = self.{sv} + self.{aa}.get()
        self.{ar}.prepare(self.{sv})
"""


def _pyname(n, fallback):
    return n if (n.isidentifier() and not _pykw.iskeyword(n) and not hasattr(Logic, n)) else fallback


def generated_specs(words, var_words):
    """[(case name, kind, template arguments)]: every word as an input-port and as an output-port name of a combinational and of a
    sequential transpiled block (attribute = the port name when Python allows it, else a neutral name); var_words as names of a
    local variable / a state attribute"""
    specs = []
    for i, w in enumerate(words):
        w2 = words[(i + 1) % len(words)]
        if w2 == w: w2 = 'r'
        for kind in ('comb', 'seq'):
            for same_attr in (False, True):
                aa, ar = (_pyname(w, 'pa'), _pyname(w2, 'pr')) if same_attr else ('pa', 'pr')
                if same_attr and (aa, ar) == ('pa', 'pr'): continue
                specs.append(('ports[%s,%s,%s,attr=%s]' % (kind, w, w2, 'port' if same_attr else 'neutral'), kind,
                              dict(aa=aa, ab='pb', ar=ar, pa=w, pb='b', pr=w2, lv='t', sv='acc')))
        specs.append(('ports[seq,b,%s as enable]' % w, 'seq', dict(aa='pa', ab='pb', ar='pr', pa='a', pb=w, pr='r', lv='t', sv='acc')))
    for w in var_words:
        v = _pyname(w, None)
        if v is None or v in ('pa', 'pb', 'pr'): continue
        specs.append(('local_variable[%s]' % w, 'comb', dict(aa='pa', ab='pb', ar='pr', pa='a', pb='b', pr='r', lv=v, sv='acc')))
        specs.append(('state_attribute[%s]' % w, 'seq', dict(aa='pa', ab='pb', ar='pr', pa='a', pb='b', pr='r', lv='t', sv=v)))
    return specs


def generated_module(specs):
    """write the classes of the specs to a module file and import it; returns {case name: class}"""
    key = tuple(n for n, _, _ in specs)
    if key in _GEN: return _GEN[key]
    d = _tempfile.mkdtemp(prefix='c03_gen_')
    _atexit.register(_shutil.rmtree, d, True)
    modname = 'c03_genbeh_%d_%d' % (_os.getpid(), len(_GEN))
    src = ['from py4hw.base import Logic\n']
    for k, (n, kind, args) in enumerate(specs):
        src.append((TEMPLATE_COMB if kind == 'comb' else TEMPLATE_SEQ).format(cls='Gen%s%d' % (kind.capitalize(), k), **args))
    open(_os.path.join(d, modname + '.py'), 'w').write('\n'.join(src))
    _sys.path.insert(0, d)
    try:
        mod = _importlib.import_module(modname)
    finally:
        _sys.path.remove(d)
    out = {n: getattr(mod, 'Gen%s%d' % (kind.capitalize(), k)) for k, (n, kind, args) in enumerate(specs)}
    _GEN[key] = out
    return out


def build_generated(specs, name):
    cls = generated_module(specs)[name]
    return _wrap([('a', 8), ('b', 1)], [('r', 8)], lambda t, I, O: cls(t, 'dut', I[0], I[1], O[0]))
