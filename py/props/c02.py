"""C02 — Python-to-Verilog transpilation preserves the behaviour of behavioural blocks.
Technique: translation validation with a Coq-PROVED validator (Properties/C02.v: tv_block src tgt = true implies equal
trajectories on every in-domain history).  Per run, for every program (all behavioural blocks of the repository, the
hand-written corner/finding classes of c02_cases.py and grammar-generated classes):
   source  = PySyntax term of the REAL method's ast (c02_dump), target = parsed text the REAL transpiler returned;
   required outcome: the transpiler raises, OR tv_block source target = true (then correct by the theorem) AND,
   as an independent test of the whole chain, the text executed in VSem equals the real simulator on a random history
   restricted to the domain (PySem under g_dom tells where the history leaves it);
   additionally PySem under g_all must equal the real simulator (the source-side model is tied to the real semantics).
Anything else (text that does not parse / elaborate / validate / behaves differently) is a VIOLATION with
(class source, constructor arguments, history, first differing cycle) as replay, unless it matches a known finding
signature (construct kind + kind of failure) of known_findings/C02.json."""
import os, sys, json, random, hashlib, collections
import common
from common import quiet
from props import c02_lib as L, c02_gen as G, c02_dump

GEN_DIR = os.path.join(common.CASES, 'gen_py')


# ------------------------------------------------------------------ programs
def build_repo(name, W):
    py4hw = common.quiet_import()
    with quiet():
        hw = py4hw.HWSystem()
        w = lambda n, k=1: hw.wire(n, k)
        if name == 'UARTDeserializer':
            from py4hw.logic.protocol.uart.serdes import UARTDeserializer
            top = UARTDeserializer(hw, 'des', w('rx'), w('rx_sample'), w('ready'), w('valid'), w('v', W), w('cd'))
        elif name == 'UARTSerializer':
            from py4hw.logic.protocol.uart.serdes import UARTSerializer
            top = UARTSerializer(hw, 'ser', w('ready'), w('valid'), w('v', W), w('ucp'), w('tx'))
        elif name == 'ClockSyncFSM':
            from py4hw.logic.protocol.uart.clock import ClockSyncFSM
            top = ClockSyncFSM(hw, 'cs', w('start'), w('stop'), w('sync'), w('active'))
        elif name == 'AutoReset':
            from py4hw.logic.clock import AutoReset
            top = AutoReset(hw, 'ar', w('reset'))
        elif name == 'Axi2ClkFSM':
            from py4hw.emulation.vitiswrapping import Axi2ClkFSM
            top = Axi2ClkFSM(hw, 'fsm', w('ah'), w('ct', W), w('rcc'), w('cc', W), w('co'), w('lo'))
        elif name == 'VitisKernelFSM':
            from py4hw.emulation.vitiswrapping import VitisKernelFSM
            top = VitisKernelFSM(hw, 'vk', w('ap_start'), w('ap_reset'), w('ap_done'), w('ap_idle'), w('ap_ready'), w('load_outs'), w('all_sent'))
        elif name == 'CMDRequest':
            from py4hw.emulation.HILWrapperUART import CMDRequest
            top = CMDRequest(hw, 'rq', w('ready'), w('valid'), w('c', 8), w('index_in', W), w('v_in', W), w('index_out', W), w('sii'), w('svi'),
                             w('sio'), w('cp'), w('sr'))
        elif name == 'CMDResponse':
            from py4hw.emulation.HILWrapperUART import CMDResponse
            top = CMDResponse(hw, 'rs', w('vin', W), w('size', 4), w('start_resp'), w('ready'), w('valid'), w('v', 8))
        elif name == 'CounterBehavioural':
            mod = test_module()
            top = mod.CounterBehavioural(hw, 'counter', w('inc'), w('q', W))
        elif name == 'SelectType':
            mod = test_module()
            top = mod.SelectType(hw, 'select', w('op', 7), w('q', 3))
        else:
            raise KeyError(name)
    return hw, top

REPO = [('UARTDeserializer', 8), ('UARTSerializer', 8), ('ClockSyncFSM', 1), ('AutoReset', 1), ('Axi2ClkFSM', 8), ('Axi2ClkFSM', 31),
        ('VitisKernelFSM', 1), ('CMDRequest', 8), ('CMDRequest', 32), ('CMDResponse', 16), ('CMDResponse', 32), ('CounterBehavioural', 32),
        ('CounterBehavioural', 3), ('SelectType', 7)]

_test_mod = []
def test_module():
    if not _test_mod:
        sys.modules.setdefault('pytest', type(sys)('pytest'))      # the test file imports pytest at the top; nothing of it is used here
        _test_mod.append(L.load_module(os.path.join(common.REPO, 'test', 'unit', 'Test_RtlGeneration.py'), 'c02_Test_RtlGeneration'))
    return _test_mod[0]


def build_case(cname, widths):
    py4hw = common.quiet_import()
    from props import c02_cases
    with quiet():
        hw = py4hw.HWSystem()
        top = getattr(c02_cases, cname)(hw, 'dut', hw.wire('a', widths[0]), hw.wire('b', widths[1]), hw.wire('o', widths[2]))
    return hw, top


def build_gen(mod, cname, ins, outs, consts):
    py4hw = common.quiet_import()
    with quiet():
        hw = py4hw.HWSystem()
        ws = [hw.wire(n, w) for n, w in list(ins) + list(outs)]
        top = getattr(mod, cname)(hw, 'dut', *ws, *[v for _, v in consts])
    return hw, top


def rebuild(recipe):
    k = recipe[0]
    if k == 'repo': return build_repo(recipe[1], recipe[2])
    if k == 'case': return build_case(recipe[1], recipe[2])
    if k == 'gen':
        _, modtext, cname, ins, outs, consts = recipe
        os.makedirs(GEN_DIR, exist_ok=True)
        h = hashlib.sha1(modtext.encode()).hexdigest()[:10]
        path = os.path.join(GEN_DIR, 'c02_replay_%s.py' % h)
        open(path, 'w').write(modtext)
        mod = L.load_module(path, 'c02_replay_%s' % h)
        return build_gen(mod, cname, ins, outs, consts)
    raise KeyError(k)


# ------------------------------------------------------------------ judging one program
def match_known(ctx, prog, outcome):
    """id of a known finding (status 'known') whose signature (construct feature, kind of failure) this program shows"""
    feats = set(prog.dump.features) | set('unsupported: ' + u for u in prog.dump.unsupported)
    for kf in ctx.known:
        if kf.get('status') != 'known': continue
        sig = kf.get('signature', {})
        if outcome in sig.get('outcomes', []) and any(f in feats for f in sig.get('features', [])):
            return kf
    return None


def judge(ctx, prog, r, stats):
    """r: result of the Coq evaluation (or None if the text was unusable).  Returns None if fine, else (outcome, detail)."""
    if r is not None and 'eval_error' in r:
        return ('notvalid', {'what': 'the emitted text (or the source term) cannot be evaluated in Coq: evaluation fails or does not terminate',
                             'coq': r['eval_error']})
    start = 0                                           # row 0: after construction (Simulator.__init__ has propagated once) / power-up + settle
    # tie: PySem (Python's own semantics) == the real simulator, wherever both are defined
    if r is not None and prog.trace:
        pyrows = r['py'][0]
        d = L.first_diff(pyrows, prog.trace, start=start)
        if d is not None:
            # a concrete history on which the real execution of the Python method leaves Python's own semantics (PySem): either the
            # simulator kernel the blocks run on changed (Wire.put/prepare/settle, call order) or the model/dumper is wrong
            det = {'what': 'the real simulator executing the Python method disagrees with PySem (Python\'s semantics of the method: prepare = last '
                           'write wins, masked; put immediate; attributes immediate): kernel behaviour changed, or the source-side model / dumper is not faithful',
                   'first_differing_row': d[0], 'column': d[1], 'pysem': d[2], 'python': d[3]}
            if r.get('v') and r['v'][0] != 'elab' and d[0] < len(r['v'][0]) and d[1] < len(r['v'][0][d[0]]): det['verilog'] = r['v'][0][d[0]][d[1]]
            return ('tie', det)
        if prog.sim_error is None and not prog.dump.unsupported and len(pyrows) != len(prog.trace):
            return ('tie', {'what': 'PySem stops (Python exception / unsupported) where the real simulator does not', 'pysem_rows': len(pyrows),
                            'real_rows': len(prog.trace)})
    if prog.raised is not None:
        stats['refused'] += 1
        return None
    if prog.parse_error is not None:
        return ('parse', {'what': 'the transpiler returned text that does not parse', 'parse_error': prog.parse_error})
    if r['v'][0] == 'elab':
        return ('elab', {'what': 'the transpiler returned text that does not elaborate (undeclared identifier / unsupported item)', 'error': str(r['v'][1])})
    vrows, stable, fclk = r['v']
    ndom = len(r['dom'][0])                             # rows 0..ndom-1 are inside the domain
    stats['in_domain_rows'] += ndom - 1
    limit = min(ndom, len(prog.trace))
    if prog.dump.unsupported:
        # the source contains a construct PySem gives no meaning to: the domain cannot be judged by PySem; an accepted translation is
        # compared with the real execution on the whole history (it is a violation anyway: the construct had to be refused)
        limit = len(prog.trace)
    d = L.first_diff(vrows, prog.trace, start=start, limit=limit)
    ctx.cov['disagreements_checked'] += max(0, limit - start)
    if r['tv'] is True:
        stats['validated'] += 1
        if not stable:
            return ('differs', {'what': 'validated by tv_block but VSem does not reach a fixpoint (contradicts C02_block_sound)'})
        if d is not None:
            return ('differs', {'what': 'validated by tv_block but the text executed in VSem differs from the real simulator inside the domain '
                                        '(contradicts the theorem: model / dumper / parser fault)',
                                'first_differing_row': d[0], 'column': d[1], 'verilog': d[2], 'python': d[3]})
        return None
    det = {'what': 'the transpiler returned text that tv_block does not validate'}
    if d is not None:
        det.update({'first_differing_row': d[0], 'column': d[1], 'verilog': d[2], 'python': d[3], 'what':
                    'the transpiler returned text that does not validate AND behaves differently from the Python method inside the domain'})
    elif not stable:
        det['what'] += ' (and whose always @* does not settle)'
    return ('notvalid', det)


def replay_record(prog, outcome, det):
    obs = prog.outs + prog.attrs
    rec = {'outcome': outcome, 'program': prog.name, 'origin': prog.origin, 'kind': prog.kind, 'recipe': prog.recipe,
           'class_source': prog.source_text, 'observed_columns': obs, 'history': prog.steps, 'features': sorted(prog.dump.features),
           'unsupported_constructs': prog.dump.unsupported, 'emitted_verilog': prog.text, 'transpiler_exception': prog.raised}
    rec.update(det)
    if 'first_differing_row' in det:
        rec['history'] = prog.steps[:det['first_differing_row']]
        if 0 <= det['column'] < len(obs): rec['differing_signal'] = obs[det['column']]
    return rec


def safe_evaluate(ctx, tag, progs, depth=0):
    """one Coq case file for the whole batch; if that evaluation fails or does not terminate (a mistranslated text can make VSem
    shift by an astronomically large amount), bisect down to the culprit programs, which get the verdict 'eval'"""
    try:
        return L.evaluate(tag, progs, timeout=(300 if ctx.quick else 900) if depth == 0 else 120)
    except RuntimeError as ex:
        if len(progs) == 1:
            ctx.log('Coq evaluation failed for %s: %s' % (progs[0].name, str(ex)[-300:]))
            return {0: {'eval_error': str(ex)[-600:]}}
        h = len(progs) // 2
        a = safe_evaluate(ctx, tag + 'a', progs[:h], depth + 1)
        b = safe_evaluate(ctx, tag + 'b', progs[h:], depth + 1)
        out = dict(a)
        for k, v in b.items(): out[h + k] = v
        return out


def process(ctx, progs, tag, stats):
    rng = ctx.rng
    nsteps = 25 if ctx.quick else 40
    for p in progs:
        p.transpile()
        p.make_steps(rng, nsteps)
        p.run_real()
    withtext = [p for p in progs if p.mods is not None]
    rest = [p for p in progs if p.mods is None]
    res = safe_evaluate(ctx, tag, withtext) if withtext else {}
    res2 = L.evaluate_source_only(tag + '_src', rest) if rest else {}
    n_bad = 0
    for p in progs:
        r = res[withtext.index(p)] if p.mods is not None else dict(res2[rest.index(p)], tv=None, v=None)
        ctx.cov['programs'] += 1
        key = (hashlib.sha1(p.source_text.encode()).hexdigest()[:12], tuple(q.wire.getWidth() for q in p.top.inPorts + p.top.outPorts))
        ctx.count(key, n=1, nontrivial=True)
        stats['origin ' + p.origin.split(':')[0]] += 1
        verdict = judge(ctx, p, r, stats)
        if verdict is None:
            if p.raised is None: stats['ok'] += 1
            if len(ctx.cov['samples']) < 6 and p.raised is None:
                ctx.sample({'program': p.name, 'origin': p.origin, 'source_head': p.source_text[:300], 'first_step': p.steps[0],
                            'rows(out ports ++ attrs)': p.trace[:3], 'tv_block': True, 'in_domain_rows': len(r['dom'][0]) - 1})
            continue
        outcome, det = verdict
        if outcome == 'notvalid' and 'first_differing_row' not in det and 'coq' not in det and \
                'BoolOp with more than 3 operands' in p.dump.features and not p.dump.unsupported:
            # documented incompleteness of the validator (association of an n-ary and/or, n > 3): only the differential speaks
            stats['validator incomplete (n-ary and/or), differential ok'] += 1
            continue
        kf = match_known(ctx, p, outcome) if outcome != 'tie' and outcome != 'differs' else None
        if kf is not None:
            stats['known ' + kf['id']] += 1
            ctx.known_finding(kf['id'], '%s — %s [first seen on %s: %s]' % (kf['id'], kf['text'][:160], p.name, det['what'][:80]))
            continue
        n_bad += 1
        # kept until the end of the run: discrepancies with a concrete differing cycle are reported first
        ctx.notes.setdefault('_pending', []).append((0 if 'first_differing_row' in det else 1 if outcome in ('parse', 'elab') else 2,
                                                     len(p.source_text), replay_record(p, outcome, det)))
    return n_bad


def flush_violations(ctx, limit=6):
    pend = ctx.notes.pop('_pending', [])
    pend.sort(key=lambda t: (t[0], t[1]))
    for rank, _, rec in pend[:limit]:
        ctx.violation(rec, found_input=rank < 2)
    if len(pend) > limit:
        ctx.notes['violations_not_written_out'] = len(pend) - limit


# ------------------------------------------------------------------ run
def run(ctx):
    try:
        _run(ctx)
    finally:
        flush_violations(ctx)


def _run(ctx):
    ctx.level = 'translation_validation'
    ctx.cov['programs'] = 0
    ctx.cov['disagreements_checked'] = 0
    ctx.cov['rule'] = ('a program = (class source, port widths); programs: the behavioural blocks of the repository, c02_cases.py, and classes drawn from '
                       'the grammar of c02_gen.py with one PRNG seeded by the run seed; each is transpiled by the REAL transpiler, validated by the Coq-proved '
                       'tv_block, and executed on a random history in PySem (g_dom, g_all), VSem and the real simulator; disagreements_checked = rows '
                       '(history prefixes inside the domain) on which VSem and the real simulator were compared; distinct = distinct (source, widths)')
    r = ctx.prove(['Properties/C02.v'])
    b = common.build(['Model/Tv.vo', 'Model/PySem.vo', 'Model/VSem.vo'])
    if not b['ok']:
        ctx.violation({'what': 'the C02 models do not build', 'coq_error': b['msg']}, found_input=False); return
    stats = collections.Counter()
    bad = 0
    # 1. repository classes and hand-written cases
    progs = []
    for name, W in REPO:
        try:
            hw, top = build_repo(name, W)
        except Exception as ex:
            ctx.violation({'what': 'cannot construct the repository block %s (width %d): %s' % (name, W, ex)}, found_input=False); continue
        progs.append(L.Program('%s/%d' % (name, W), hw, top, 'repo', recipe=['repo', name, W]))
    from props import c02_cases
    for cname, widths in c02_cases.FINDINGS + c02_cases.REFUSED + c02_cases.CORNERS:
        hw, top = build_case(cname, widths)
        progs.append(L.Program('%s%s' % (cname, list(widths)), hw, top, 'case', recipe=['case', cname, list(widths)]))
    bad += process(ctx, progs, 'C02_repo', stats)
    ctx.log('repository + hand-written programs: %d, not ok: %d' % (len(progs), bad))
    # 2. grammar-generated classes
    n_plain, n_out, n_find = (90, 36, 24) if ctx.quick else (1500, 288, 224)
    flav = ['plain'] * n_plain + ['out:' + G.OUT_KINDS[k % len(G.OUT_KINDS)] for k in range(n_out)] + \
           ['find:' + G.FIND_KINDS[k % len(G.FIND_KINDS)] for k in range(n_find)]
    os.makedirs(GEN_DIR, exist_ok=True)
    batch = 70 if ctx.quick else 150
    opstat = collections.Counter()
    for b0 in range(0, len(flav), batch):
        fl = flav[b0:b0 + batch]
        text, gens = G.make_module(ctx.rng, len(fl), 3, fl, prefix='G%d_' % b0, open_ids={k['id'] for k in ctx.known if k.get('status') == 'known'})
        modname = 'c02_gen_%d_%d' % (ctx.seed, b0)
        path = os.path.join(GEN_DIR, modname + '.py')
        open(path, 'w').write(text)
        mod = L.load_module(path, modname)
        progs = []
        for g in gens:
            for k, v in g.ops.items(): opstat[k] += v
            opstat['kind ' + g.kind] += 1
            try:
                hw, top = build_gen(mod, g.name, g.ins, g.outs, g.consts)
            except Exception as ex:
                ctx.log('generated class %s cannot be constructed: %s' % (g.name, ex)); continue
            single = 'from py4hw.base import Logic\n\n' + g.src
            progs.append(L.Program(g.name, hw, top, g.flavour, source_text=g.src,
                                   recipe=['gen', single, g.name, [list(x) for x in g.ins], [list(x) for x in g.outs], [list(x) for x in g.consts]]))
        bad += process(ctx, progs, 'C02_gen_%d' % b0, stats)
        ctx.log('generated programs %d..%d done, not ok so far: %d' % (b0, b0 + len(fl), bad))
        try: os.remove(path)
        except OSError: pass
    ctx.notes['outcomes'] = dict(stats)
    ctx.notes['generator_distribution'] = dict(opstat)
    if not r['ok'] and bad == 0:
        ctx.violation({'what': 'proof obligation no longer checks: %s in %s' % (r.get('lemma'), r.get('file')), 'coq_error': r.get('msg')}, found_input=False)
    if stats['validated'] < 20:
        ctx.violation({'what': 'fewer than 20 programs were accepted by the transpiler and validated: the check has lost its subject', 'stats': dict(stats)},
                      found_input=False)
    ctx.assumptions += [
        'py/vparse.py parses the emitted text faithfully (fail-closed, print-back check) and Model/VSem.v is the meaning of the Verilog subset (IEEE 1364-2005 '
        'sizing/signedness, blocking/NBA, two-valued relaxed power-up); checked here against the real simulator on every validated program',
        'c02_dump.py renders the Python ast faithfully and Model/PySem.v is Python\'s meaning of the subset; checked here (PySem g_all == real simulator on every history)',
        'the domain: values at the positions where fixed-width arithmetic is not a ring homomorphism (operands of // % >> comparisons and/or/not, conditions, '
        'shift amounts, values stored in integers) stay in [0, 2^31); histories leaving it are cut at that point',
        'uninitialised output regs are 0 at power-up (relaxed two-valued semantics; DESIGN §7 #6 recorded, not alarmed)']


def replay(rp):
    """./check --replay <file>: rebuild the program, run the same pipeline on the recorded history, print the verdict"""
    ctx = common.Ctx('C02', 'quick', 1)
    ctx.cov['programs'] = 0; ctx.cov['disagreements_checked'] = 0
    if not rp.get('recipe'):
        print(json.dumps(rp, indent=1)[:3000]); return 0
    hw, top = rebuild(rp['recipe'])
    p = L.Program(rp['program'], hw, top, rp.get('origin', 'replay'), source_text=rp.get('class_source'), recipe=rp['recipe'])
    p.transpile()
    p.steps = [([tuple(x) for x in ins], n) for ins, n in rp['history']] or None
    if p.steps is None: p.make_steps(random.Random(1), 10)
    p.run_real()
    if p.mods is not None: r = L.evaluate('C02_replay', [p])[0]
    else: r = dict(L.evaluate_source_only('C02_replay', [p])[0], tv=None, v=None)
    v = judge(ctx, p, r, collections.Counter())
    print('replay of %s: transpiler_exception=%s parse_error=%s tv_block=%s' % (p.name, p.raised, p.parse_error, r.get('tv')))
    if p.text: print(p.text)
    if v is None:
        print('REPLAY: no discrepancy (fixed)'); return 0
    print('REPLAY: still failing:', v[0], json.dumps(v[1], default=str)[:1500])
    print('real simulator rows:', p.trace[-3:]);
    if r.get('v') and r['v'][0] != 'elab': print('verilog (VSem) rows:', r['v'][0][-3:])
    return 1
