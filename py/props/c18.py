"""C18 — a schematic shows the circuit that exists: every block once, wired as built.

Technique: translation validation with a Coq-PROVED checker.  The 2400-line heuristic placer is not modelled.
Proof : Properties/C18.v — `C18_check_sound : schem_ok c l = true -> SchemOK c l` (Spec/C18.v: exactly one symbol per
        child/port, no overlap, per wire one connected figure touching driver + every reader, no foreign pin), the
        reachability closure is proved, not trusted.
Run   : the REAL `Schematic(obj)` (placeAndRoute=True, Agg, no rendering) on structural library blocks at several
        widths/arities and on random netlists wrapped in a Logic subclass; each result + the block's real connectivity
        (computed from the object graph only) is dumped as Coq terms and `schem_ok` is evaluated by vm_compute.
Verdict: validator false / exception / timeout on a block  ->  VIOLATION with the netlist recipe as replay,
        unless it matches the narrow known finding C18-F1 (self-loop on a column-1 instance).
Self-test: seeded corruptions of real layouts (dropped net, foreign pin, missing symbol, stacked symbols, relabelled net)
        must all be rejected by the validator."""
import copy, json, random, time, traceback
import common
from common import quiet
from props import c18_dump as D, c18_gen as G

PRELUDE = 'From Coq Require Import List ZArith Bool.\nImport ListNotations.\nFrom V Require Import Model.Schem.\n'
CLAUSES = ['circuit dump well-formed', 'symbol ids distinct', 'only symbols of children/ports', 'exactly one symbol per child/port',
           'no two instance/port symbols in one cell or overlapping', 'net ends name pins of their own wire', 'per-wire figure connected to driver and all readers',
           'pins of different wires are drawn at different points', 'every net is routed and its polyline ends exactly on the pins it names',
           'the point a symbol computes for a pin lies on the marker it paints for that pin']
NF = len(CLAUSES)
BATCH = 120          # layouts per case file (each coq_eval call also re-checks the library build: a few seconds)
PLACER_TIMEOUT_S = 20
MAX_REPORTS = 5         # replay files written per run; further rejected layouts are only counted
MAX_TIMEOUTS = 2        # after this many non-terminating blocks the sweep stops (each costs PLACER_TIMEOUT_S)


# ---------------------------------------------------------------------------------------------- one block
def place(recipe):
    """returns dict(status=..., conn, lay, info) ; status in ok / notinscope / build_failed / timeout / exception"""
    try:
        obj = G.build(recipe)
    except Exception as ex:
        return {'status': 'build_failed', 'error': '%s: %s' % (type(ex).__name__, ex)}
    try:
        conn = D.connectivity(obj)
    except D.NotInScope as ex:
        return {'status': 'notinscope', 'error': str(ex)}
    res = {'conn': conn, 'crosscheck': D.leaf_crosscheck(obj, conn)}
    try:
        s, info = D.run_schematic(obj, PLACER_TIMEOUT_S)
    except D.PlacerTimeout as ex:
        res.update(status='timeout', error=str(ex)); return res
    except Exception as ex:
        res.update(status='exception', error='%s: %s' % (type(ex).__name__, ex), traceback=traceback.format_exc()[-2500:]); return res
    res.update(status='ok', info=info, lay=D.dump_layout(s, conn))
    try:
        res['placer'] = placer_inputs(s)
    except Exception as ex:
        res['placer'] = {'error': '%s: %s' % (type(ex).__name__, ex)}
    return res


def placer_inputs(s):
    """what the last replaceAsColRow() of the real placer worked on and what it produced: the symbol grid with each symbol's getWidth()/getHeight(),
    the track counts of the channels, the class constants, and the x/y every cell's symbol ended up with (input and output of Model/Placer.v `place`)"""
    m = s.symbol_matrix
    nr, nc = m.shape
    cells, seen, twice = [], {}, False
    for r in range(nr):
        row = []
        for c in range(nc):
            sym = m[r, c]
            if sym is None: row.append(None); continue
            if id(sym) in seen: twice = True
            seen[id(sym)] = 1
            row.append((sym.getWidth(), sym.getHeight(), sym.x, sym.y))
        cells.append(row)
    chans = [(d.get('feedback_tracks', 0), d['tracks']) for d in s.channels]
    S = type(s)
    cfg = (S.GRID_SIZE, S.CELL_MARGIN_VERTICAL, S.CELL_MARGIN_HORIZONTAL, S.NET_SPACING, S.NET_TRACK_SPACING)
    return {'nr': nr, 'nc': nc, 'cells': cells, 'chans': chans, 'cfg': cfg, 'object_in_two_cells': twice}


def placer_tie(ctx, placed):
    """Model/Placer.v `place_rects` (the subject of C18_placer_no_overlap) evaluated in Coq on the REAL grids against the coordinates the real
    replaceAsColRow assigned: per cell (row-major) x, y, w, h must agree.  Returns the number of layouts compared."""
    z = common.zlit
    items, keep = [], []
    for k, (r, p) in enumerate(placed):
        pl = p.get('placer')
        if not pl or 'error' in pl or pl['object_in_two_cells']: continue
        vals = [v for row in pl['cells'] for c in row if c for v in c] + [v for ch in pl['chans'] for v in ch] + list(pl['cfg'])
        if not all(isinstance(v, int) for v in vals):
            ctx.notes.setdefault('placer_tie_skipped_non_integer', []).append(json.dumps(r)[:80]); continue
        n = 0; rows = []
        for row in pl['cells']:
            cs = []
            for c in row:
                if c is None: cs.append('None')
                else: cs.append('Some (CS %d%%nat KOther None %s %s)' % (n, z(c[0]), z(c[1]))); n += 1
            rows.append('[' + '; '.join(cs) + ']')
        term = 'place_rects (PCfg %s) [%s] %d%%nat [%s]' % (' '.join(z(v) for v in pl['cfg']), '; '.join('Chan %s %s' % (z(a), z(b)) for a, b in pl['chans']), pl['nc'], '; '.join(rows))
        items.append(('p%d' % len(items), term)); keep.append((r, pl))
        if len(items) >= (60 if ctx.quick else 400): break
    if not items: return 0
    out = {}
    for b in range(0, len(items), 40):
        out.update(common.coq_eval('C18_placer_%d' % (b // 40), 'From V Require Import Model.Schem Model.Placer.\nFrom Coq Require Import ZArith List. Import ListNotations. Open Scope Z_scope.\n', items[b:b + 40]))
    for j, (r, pl) in enumerate(keep):
        model = [tuple(int(v) for v in t) for t in out['p%d' % j]]
        real = []; n = 0
        for row in pl['cells']:
            for c in row:
                if c is not None: real.append((n, c[2], c[3], c[0], c[1])); n += 1
        ctx.count(('placer_tie', pl['nr'], pl['nc'], len(real)))
        if model != real:
            d = next((i for i, (a, b) in enumerate(zip(model, real)) if a != b), min(len(model), len(real)))
            ctx.violation({'what': 'Model/Placer.v `place` (hand model of Schematic.replaceAsColRow) and the real placer assign different coordinates (correspondence broken)',
                           'recipe': r, 'grid': [pl['nr'], pl['nc']], 'first_difference(cell index, model (id,x,y,w,h), real)': [d, model[d] if d < len(model) else None, real[d] if d < len(real) else None]},
                          found_input=False)
            return len(keep)
    ctx.notes['placer_model_layouts_compared'] = len(keep)
    return len(keep)


def validate(tag, cases):
    """cases: list of (conn, lay).  returns the list of parsed schem_diag values (flat tuples)."""
    out = []
    for b in range(0, len(cases), BATCH):
        items = [('k%d' % i, 'schem_diag %s %s' % (D.circuit_term(c), D.layout_term(l))) for i, (c, l) in enumerate(cases[b:b + BATCH])]
        res = common.coq_eval('%s_%d' % (tag, b // BATCH), PRELUDE, items)
        out += [res[n] for n, _ in items]
    return out


def explain(conn, lay, diag):
    """human-readable failing clause + symbol/net/wire from a schem_diag value"""
    flags = list(diag[:NF]); missing, extra, pairs, badnets, badwires, clash, badgeo, badmarks = diag[NF:NF + 8]
    name = {s['id']: '%s %s' % (s['kind'], s['name']) for s in lay['syms']}
    ename = lambda e: {0: 'in-port %d', 1: 'child %d', 2: 'out-port %d'}[e[0]] % e[1] + (' (%s)' % conn['child_names'][e[1]] if e[0] == 1 and e[1] < len(conn['child_names']) else '')
    pname = lambda p: '%s%s pin %s%d' % (p[0][0], p[0][1], 'out' if p[1] else 'in', p[2])
    ex = {'failed_clauses': [c for c, f in zip(CLAUSES, flags) if not f]}
    if missing: ex['elements_without_exactly_one_symbol'] = [ename(e) for e in missing]
    if extra: ex['symbols_standing_for_nothing_in_the_block'] = [name.get(i, i) for i in extra]
    if pairs: ex['symbols_in_one_cell_or_overlapping'] = [(name.get(a, a), name.get(b, b)) for a, b in pairs]
    if badnets: ex['bad_nets'] = [lay['nets'][i]['text'] for i in badnets if i < len(lay['nets'])]
    if badwires:
        ex['bad_wires'] = []
        for (wid, has_drv, unreached, nloose) in badwires:
            w = conn['wires'][wid]
            ex['bad_wires'].append({'wire': w['name'], 'driver': pname(w['drv']), 'driver_has_symbol': has_drv,
                                    'readers_not_reached': [pname(w['rd'][k]) for k in unreached],
                                    'nets_not_connected_to_driver': nloose,
                                    'nets_drawn_for_it': [n['text'] for n in lay['nets'] if n['wire'] == wid]})
    if clash:
        ex['pins_of_different_wires_at_one_point'] = [{'symbols': (name.get(a, a), name.get(b, b)), 'point': (x, y),
                                                       'pins': [pname(q['pin']) for q in lay['pins'] if (q['x'], q['y']) == (x, y)]} for (a, b, x, y) in clash[:8]]
    if badgeo:
        ex['nets_not_routed_or_not_ending_on_their_pins'] = [{'net': lay['nets'][i]['text'], 'from': lay['nets'][i].get('from'), 'to': lay['nets'][i].get('to')}
                                                             for i in badgeo[:8] if i < len(lay['nets'])]
    if badmarks:
        pos = {(q['sym'], q['pin']): (q['x'], q['y']) for q in lay['pins']}
        ex['pins_computed_off_the_marker_painted_for_them'] = [{'symbol': name.get(lay['marks'][i]['sym']), 'pin': pname(lay['marks'][i]['pin']),
                                                                'painted_marker_box': lay['marks'][i]['box'],
                                                                'computed_point': pos.get((lay['marks'][i]['sym'], lay['marks'][i]['pin']))}
                                                               for i in badmarks[:8] if i < len(lay['marks'])]
    if lay.get('objs_not_in_matrix'): ex['symbols_created_but_not_in_grid'] = lay['objs_not_in_matrix'][:10]
    if lay.get('undrawn_net_ends'): ex['net_ends_on_symbols_not_in_grid'] = list(lay['undrawn_net_ends'].values())[:10]
    return ex


def matches_F1(conn, lay, info, diag):
    """known finding C18-F1, narrow: ONLY the per-wire clause fails; insertFeedback's `assert(sinkcol > 0)` was swallowed
    by placeAndRoute; every failing wire is driven by a child whose symbol sits in grid column 1, all of its nets are
    connected, and every unreached reader is an input pin of that SAME child (a self-loop)."""
    flags = list(diag[:NF]); badwires = diag[NF + 4]
    if flags != [True] * 6 + [False] + [True] * (NF - 7) or not badwires: return False
    if not any('error in passthrough' in x and 'AssertionError' in x for x in info.get('swallowed', [])): return False
    col = {s['for']: s['col'] for s in lay['syms'] if s['for'] is not None}
    for (wid, has_drv, unreached, nloose) in badwires:
        w = conn['wires'][wid]
        if not has_drv or nloose != 0 or not unreached: return False
        if w['drv'][0][0] != 'ch' or col.get(w['drv'][0]) != 1: return False
        if any(w['rd'][k][0] != w['drv'][0] for k in unreached): return False
    return True


def matches_F2(conn, lay, info, diag):
    """known finding C18-F2, narrow: ONLY the pin-point clause fails, and every clashing pair is two INPUT pins (index >= 1) of one
    child of class Add / Sub / Mul (the '+' '-' '*' circle) that has more than two in-ports."""
    flags = list(diag[:NF]); clash = diag[NF + 5]
    if flags != [True] * 7 + [False] + [True] * (NF - 8) or not clash: return False
    wire_of = {}
    for w in conn['wires']:
        for q in [w['drv']] + w['rd']: wire_of[q] = w['id']
    by_pt = {}
    for q in lay['pins']: by_pt.setdefault((q['x'], q['y']), []).append(q)
    for pt, qs in by_pt.items():
        if len(set(wire_of.get(q['pin']) for q in qs)) < 2: continue
        for q in qs:
            e, is_out, ix = q['pin']
            if e[0] != 'ch' or is_out or ix < 1 or any(o['sym'] != q['sym'] for o in qs): return False
            if conn['child_names'][e[1]].split(':')[0] not in ('Add', 'Sub', 'Mul') or conn['children'][e[1]][0] <= 2: return False
    return True


# ---------------------------------------------------------------------------------------------- corruptions (self-test)
def corruptions(conn, lay, rng):
    """layouts that genuinely violate the property, derived from a real (accepted) layout"""
    out = []
    real = [s for s in lay['syms'] if s['kind'] in ('KInst', 'KIn', 'KOut')]
    byid = {s['id']: s for s in lay['syms']}
    sink_nets = [i for i, n in enumerate(lay['nets']) if n['snk'][1] is not None]
    if sink_nets:
        i = rng.choice(sink_nets); l2 = copy.deepcopy(lay); del l2['nets'][i]
        out.append(('dropped net ' + lay['nets'][i]['text'], l2))
        i = rng.choice(sink_nets); n = lay['nets'][i]; others = [w['id'] for w in conn['wires'] if w['id'] != n['wire']]
        if others:
            l2 = copy.deepcopy(lay); l2['nets'][i]['wire'] = rng.choice(others)
            out.append(('net relabelled with another wire: ' + n['text'], l2))
        cands = []
        for i in sink_nets:
            n = lay['nets'][i]; p = n['snk'][1]
            for w in conn['wires']:
                if w['id'] != n['wire']:
                    for q in w['rd']:
                        if q[0] == p[0]: cands.append((i, q))
        if cands:
            i, q = rng.choice(cands); l2 = copy.deepcopy(lay); l2['nets'][i]['snk'] = (l2['nets'][i]['snk'][0], q)
            out.append(('net end moved to a pin of another wire on the same symbol: ' + lay['nets'][i]['text'], l2))
    pins = lay.get('pins', [])
    wire_of = {}
    for w in conn['wires']:
        for q in [w['drv']] + w['rd']: wire_of[q] = w['id']
    cl = [(a, b) for a in pins for b in pins if a is not b and wire_of.get(a['pin']) != wire_of.get(b['pin'])]
    if cl:
        a, b = rng.choice(cl); l2 = copy.deepcopy(lay)
        for q in l2['pins']:
            if q['sym'] == b['sym'] and q['pin'] == b['pin']: q.update(x=a['x'], y=a['y'])
        for n in l2['nets']:                       # the nets of that pin follow it, as they would in the real drawing
            if n['src'] == (b['sym'], b['pin']): n['from'] = (a['x'], a['y'])
            if n['snk'] == (b['sym'], b['pin']): n['to'] = (a['x'], a['y'])
        out.append(('pin drawn on the point of a pin of another wire', l2))
    if sink_nets:
        i = rng.choice(sink_nets); l2 = copy.deepcopy(lay); t = l2['nets'][i]['to']
        if t is not None:
            l2['nets'][i]['to'] = (t[0] + rng.choice([-1, 1]), t[1]) if rng.random() < .5 else (t[0], t[1] + rng.choice([-1, 1]))
            out.append(('net polyline ends one pixel off its pin: ' + lay['nets'][i]['text'], l2))
        i = rng.choice(range(len(lay['nets']))); l2 = copy.deepcopy(lay); l2['nets'][i]['from'] = None; l2['nets'][i]['to'] = None
        out.append(('net never routed: ' + lay['nets'][i]['text'], l2))
    if lay.get('marks'):
        m = rng.choice(lay['marks']); l2 = copy.deepcopy(lay); d = m['box'][3] - m['box'][1] + 3
        for q in l2['pins']:
            if q['sym'] == m['sym'] and q['pin'] == m['pin']: q['y'] += d
        for n in l2['nets']:
            if n['src'] == (m['sym'], m['pin']) and n['from']: n['from'] = (n['from'][0], n['from'][1] + d)
            if n['snk'] == (m['sym'], m['pin']) and n['to']: n['to'] = (n['to'][0], n['to'][1] + d)
        out.append(('pin computed below the marker painted for it', l2))
    if len(real) >= 2:
        a, b = rng.sample(real, 2)
        l2 = copy.deepcopy(lay)
        for s in l2['syms']:
            if s['id'] == b['id']: s.update(row=a['row'], col=a['col'], x=a['x'], y=a['y'])
        out.append(('symbol %s placed on top of %s' % (b['name'], a['name']), l2))
        v = rng.choice(real); l2 = copy.deepcopy(lay); l2['syms'] = [s for s in l2['syms'] if s['id'] != v['id']]
        out.append(('symbol %s %s missing from the grid' % (v['kind'], v['name']), l2))
        v = rng.choice(real); l2 = copy.deepcopy(lay); d = dict(v); d['id'] = max(byid) + 1; d['row'] += 50; d['y'] += 5000; l2['syms'].append(d)
        out.append(('second symbol for %s %s' % (v['kind'], v['name']), l2))
    return out


# ---------------------------------------------------------------------------------------------- the sweep
def recipes_for(ctx):
    lib = G.LIB_QUICK if ctx.quick else G.LIB_THOROUGH
    n_rand, n_top = (45, 12) if ctx.quick else (2500, 400)
    rs = [('lib', n, list(p)) for n, p in lib] + [('selfloop', list(v)) for v in G.SELFLOOPS] + [('loop', list(v)) for v in G.LOOPS] + [('par', list(v)) for v in G.PARS] + [('gate', list(v)) for v in G.GATES] + [('dup', list(v)) for v in G.DUPS]
    for i in range(n_rand):
        seed = ctx.seed * 100003 + i
        rs.append(('rand', seed, G.rand_params(random.Random(seed), i)))
    for i in range(n_top):                     # a whole port-less HWSystem drawn as a block
        seed = ctx.seed * 100003 + 50000 + i
        rs.append(('top', seed, G.top_params(random.Random(seed), i)))
    return rs


def place_all(ctx, recipes):
    """run the real placer on every recipe; failures to terminate / exceptions are violations right away"""
    placed = []
    stats = {'build_failed': 0, 'notinscope': 0, 'swallowed_exceptions': 0, 'crosscheck_disagreements': 0}
    t0 = time.time(); n_timeouts = 0
    for r in recipes:
        if n_timeouts >= MAX_TIMEOUTS:
            ctx.log('sweep stopped after %d non-terminating blocks' % n_timeouts); break
        p = place(r)
        st = p['status']
        if st == 'timeout': n_timeouts += 1
        if st == 'build_failed':
            stats['build_failed'] += 1; ctx.log('cannot build %s: %s' % (r, p['error'])); continue
        if st == 'notinscope':
            stats['notinscope'] += 1; continue
        if p['crosscheck']:
            stats['crosscheck_disagreements'] += 1; ctx.log('connectivity cross-check (leaf Wire.source) disagrees for %s: %s' % (r, p['crosscheck'][:2]))
        if st in ('timeout', 'exception'):
            ctx.count(('fail', json.dumps(r)))
            ctx.violation({'what': 'Schematic(obj) did not terminate within %ss' % PLACER_TIMEOUT_S if st == 'timeout' else 'Schematic(obj) raised ' + p['error'],
                           'recipe': r, 'children': p['conn']['child_names'], 'traceback': p.get('traceback'),
                           'replay_hint': 'props.c18_gen.build(recipe); props.c18_dump.run_schematic(obj)'})
            continue
        if p['info']['swallowed']: stats['swallowed_exceptions'] += 1
        placed.append((r, p))
    ctx.notes['placer_seconds'] = round(time.time() - t0, 1)
    ctx.log('placer ran on %d blocks in %.1fs' % (len(placed), time.time() - t0))
    for k, v in stats.items(): ctx.notes[k] = v
    return placed


def classify(ctx, placed, diags):
    rejected = 0
    for (r, p), dg in zip(placed, diags):
        conn, lay, info = p['conn'], p['lay'], p['info']
        key = (r[0], r[1] if r[0] == 'lib' else '', tuple(conn['children']), len(conn['wires']), len(lay['syms']), len(lay['nets']),
               hash(D.layout_term(lay)))
        ctx.count(key, nontrivial=len(lay['nets']) >= 1 and len(lay['syms']) >= 2)
        kinds = [s['kind'] for s in lay['syms']]
        ctx.sample({'recipe': r, 'children': conn['child_names'], 'wires': len(conn['wires']), 'symbols': len(lay['syms']), 'nets': len(lay['nets']),
                    'passthroughs': kinds.count('KPass'), 'feedback_markers': kinds.count('KFbStart') + kinds.count('KFbStop'),
                    'first_nets': [n['text'] for n in lay['nets'][:4]], 'validator': 'schem_ok = %s' % all(dg[:NF])}, limit=6)
        if all(dg[:NF]): continue
        rejected += 1
        ex = explain(conn, lay, dg)
        if matches_F1(conn, lay, info, dg) and any(k['id'] == 'C18-F1' and k['status'] == 'known' for k in ctx.known):
            ctx.known_finding('C18-F1', 'C18-F1 self-loop on a column-1 instance loses its net (insertFeedback assert swallowed): %s' % json.dumps(r))
            ctx.notes.setdefault('known_finding_witnesses', []).append({'recipe': r, 'wires': ex.get('bad_wires')})
            continue
        if len(ctx.violations) >= MAX_REPORTS:
            ctx.notes['further_rejected_layouts_not_written_out'] = ctx.notes.get('further_rejected_layouts_not_written_out', 0) + 1
            continue
        if matches_F2(conn, lay, info, dg) and any(k['id'] == 'C18-F2' and k['status'] == 'known' for k in ctx.known):
            ctx.known_finding('C18-F2', 'C18-F2 Add with carry-in: input pins b and ci are drawn at one point (BinaryOperatorSymbol.getPortSinkPos): %s' % json.dumps(r))
            ctx.notes.setdefault('known_finding_witnesses', []).append({'recipe': r, 'pins': ex.get('pins_of_different_wires_at_one_point')})
            continue
        ctx.violation({'what': 'the schematic does not show the circuit: ' + '; '.join(ex['failed_clauses']), 'recipe': r,
                       'children': conn['child_names'], 'diagnosis': ex, 'swallowed_exceptions': info['swallowed'],
                       'circuit': D.public(conn, lay)['circuit'], 'layout_symbols': lay['syms'], 'layout_nets': [n['text'] for n in lay['nets']],
                       'replay_hint': './check --replay <this file>  (rebuilds the block from recipe, re-runs Schematic and the Coq validator)'})
    ctx.notes['validated'] = len(placed); ctx.notes['rejected'] = rejected
    return rejected


def negative_controls(ctx, placed):
    """seeded corruptions of real layouts; judged only if the original layout is accepted"""
    rng = random.Random(ctx.seed * 7919 + 5)
    idx = [i for i, (r, p) in enumerate(placed) if 3 <= len(p['lay']['nets']) <= (30 if ctx.quick else 60) and not p['info']['swallowed']]   # (small ones: each control repeats the whole layout)
    rng.shuffle(idx)
    out = []
    for i in idx[:5 if ctx.quick else 40]:
        r, p = placed[i]
        for what, l2 in corruptions(p['conn'], p['lay'], rng):
            out.append((i, what, p['conn'], l2))
    return out


def judge_negatives(ctx, placed, diags, negs, ndiags):
    n_rej = 0; n = 0
    for (i, what, _, _), dg in zip(negs, ndiags):
        if not all(diags[i][:NF]): continue            # the original itself was rejected: nothing to learn
        n += 1
        ctx.count(('neg', what.split(':')[0][:24], json.dumps(placed[i][0])[:60]))
        if all(dg[:NF]):
            ctx.violation({'what': 'validator self-test: a corrupted layout was ACCEPTED (%s)' % what, 'recipe': placed[i][0]}, found_input=False)
        else: n_rej += 1
    ctx.notes['negative_controls_rejected'] = n_rej
    ctx.cov['negative_controls'] = n


def run(ctx):
    ctx.level = 'translation_validation'
    ctx.cov['rule'] = ('program = one structural block (library block at given widths/arities, or random netlist wrapped in a Logic subclass: fan-out, '
                       'register feedback incl. self-loops, long forward edges, unused in-ports, no in-ports, multi-output children, one wire on two pins) '
                       'placed and routed by the real Schematic(obj); validated = schem_ok evaluated by vm_compute on the dumped result; '
                       'distinct = different (children, wires, symbols, nets, layout term); non-trivial = at least 2 symbols and 1 net; '
                       'disagreements_checked = layouts the validator rejected (each classified: known finding or violation); '
                       'negative_controls = seeded corruptions of accepted layouts that the validator must reject')
    r = ctx.prove(['Properties/C18.v'])
    ctx.log('proof build: %s' % ('ok' if r['ok'] else 'BROKEN at %s' % r.get('lemma')))
    placed = place_all(ctx, recipes_for(ctx))
    negs = negative_controls(ctx, placed)
    alld = validate('C18_run', [(p['conn'], p['lay']) for _, p in placed] + [(c, l2) for _, _, c, l2 in negs])
    diags, ndiags = alld[:len(placed)], alld[len(placed):]
    rejected = classify(ctx, placed, diags)
    ctx.log('validated %d layouts in Coq, %d rejected by the validator' % (len(placed), rejected))
    ctx.cov['programs'] = len(placed)
    ctx.cov['disagreements_checked'] = rejected
    judge_negatives(ctx, placed, diags, negs, ndiags)
    if not ctx.violations:
        try:
            placer_tie(ctx, placed)
        except Exception as ex:
            ctx.violation({'what': 'the placer-model tie could not be evaluated: %s: %s' % (type(ex).__name__, str(ex)[-800:])}, found_input=False)
    ctx.cov['painted_pin_markers_checked'] = sum(len(p['lay'].get('marks', [])) for _, p in placed)
    if placed and ctx.cov['painted_pin_markers_checked'] == 0 and not ctx.violations:
        ctx.violation({'what': 'no pin marker was recognised in any symbol\'s draw() output: the independent source of pin positions is gone '
                               '(InstanceSymbol.draw changed shape?) - clause ok_marks would be vacuous'}, found_input=False)
    if len(placed) == 0 and not ctx.violations:
        ctx.violation({'what': 'no schematic could be validated (every block failed to build or is out of scope)'}, found_input=False)
    if not r['ok'] and not ctx.violations:
        ctx.violation({'what': 'proof obligation no longer checks: %s in %s' % (r.get('lemma'), r.get('file')), 'coq_error': r.get('msg')}, found_input=False)
    ctx.assumptions += [
        'py/props/c18_dump.py reads the block\'s real connectivity (children, ports, port.wire) and the schematic\'s result (symbol_matrix, nets) faithfully; '
        'the driver of every wire is cross-checked against the leaf-level Wire.source',
        'only what Schematic builds is validated (symbols in symbol_matrix, NetSymbol source/sink/ports, x/y/width/height); pixel-level routing of net polylines and matplotlib rendering are not',
        'termination / success of the placer is observed per instance (%ds wall-clock limit), not proved' % PLACER_TIMEOUT_S,
    ]
    ctx.cov['trusted_base'] = [t for t in ctx.cov['trusted_base'] if 'py2coq' not in t and 'PyInt' not in t]


def replay(rp):
    """./check --replay <file>: rebuild the block from its recipe, re-run the real Schematic and the Coq validator"""
    recipe = rp.get('recipe')
    if recipe is None:
        print(json.dumps(rp, indent=1)[:4000]); return 0
    recipe = tuple(recipe)
    p = place(recipe)
    print('replay C18: recipe', recipe, '->', p['status'], p.get('error', ''))
    if p['status'] != 'ok':
        print(p.get('traceback', '')); return 1
    dg = validate('C18_replay', [(p['conn'], p['lay'])])[0]
    print('children:', p['conn']['child_names'])
    print('swallowed exceptions inside placeAndRoute:', p['info']['swallowed'])
    for n in p['lay']['nets']: print('  net', n['text'])
    if all(dg[:NF]):
        print('validator: schem_ok = true'); return 0
    print('validator: schem_ok = false'); print(json.dumps(explain(p['conn'], p['lay'], dg), indent=1))
    return 1
