"""C18 helper — run the real Schematic(obj) and dump (a) the block's REAL connectivity, computed from the py4hw object
graph only (children, ports, port.wire — nothing from schematic.py), and (b) what the schematic shows (the symbols that
are in symbol_matrix = what drawAll() draws, and the nets), both as terms of coq/Model/Schem.v.

Element numbering (Model/Schem.v `elem`):  EIn i = i-th in-port of the block, EChild k = k-th child (dict order),
EOut j = j-th out-port.  A pin is  Pin elem is_output index ; a block in-port is the (output) pin  Pin (EIn i) true 0 ,
a block out-port the (input) pin  Pin (EOut j) false 0 .
"""
import io, os, signal, sys, time, traceback


class NotInScope(Exception):
    """the block is outside the property's quantifier (in/out ports, an undriven or multiply driven internal wire)"""


class PlacerTimeout(BaseException):
    """BaseException on purpose: placeAndRoute() swallows `Exception` around createNets / passthroughCreation"""


# ---------------------------------------------------------------------------------------------- real connectivity
def connectivity(obj):
    """{'nin','nout','children':[(n_in_pins,n_out_pins)], 'wires':[{'id','name','drv':pin,'rd':[pin]}]} + lookup tables.
    pin = (('in'|'ch'|'out', index), is_output, pin_index)"""
    children = list(obj.children.values())
    if len(children) == 0:
        raise NotInScope('not structural')
    if obj.inOutPorts or any(c.inOutPorts for c in children):
        raise NotInScope('in/out ports')
    wires, order = {}, []
    pin_of_port = {}

    def rec(w):
        if w is None:
            raise NotInScope('a port without wire')
        k = id(w)
        if k not in wires:
            wires[k] = {'wire': w, 'drivers': [], 'readers': []}; order.append(k)
        return wires[k]
    for i, p in enumerate(obj.inPorts):
        pin = (('in', i), True, 0); pin_of_port[id(p)] = pin; rec(p.wire)['drivers'].append(pin)
    for k, c in enumerate(children):
        for i, p in enumerate(c.inPorts):
            pin = (('ch', k), False, i); pin_of_port[id(p)] = pin; rec(p.wire)['readers'].append(pin)
        for i, p in enumerate(c.outPorts):
            pin = (('ch', k), True, i); pin_of_port[id(p)] = pin; rec(p.wire)['drivers'].append(pin)
    for j, p in enumerate(obj.outPorts):
        pin = (('out', j), False, 0); pin_of_port[id(p)] = pin; rec(p.wire)['readers'].append(pin)
    wl = []
    for n, k in enumerate(order):
        e = wires[k]
        if len(e['drivers']) != 1:
            raise NotInScope('wire %s has %d drivers at this level' % (e['wire'].getFullPath(), len(e['drivers'])))
        wl.append({'id': n, 'name': e['wire'].getFullPath(), 'drv': e['drivers'][0], 'rd': e['readers']})
    elem_of_obj = {}
    for i, p in enumerate(obj.inPorts): elem_of_obj[id(p)] = ('in', i)
    for k, c in enumerate(children): elem_of_obj[id(c)] = ('ch', k)
    for j, p in enumerate(obj.outPorts): elem_of_obj[id(p)] = ('out', j)
    return {'nin': len(obj.inPorts), 'nout': len(obj.outPorts),
            'children': [(len(c.inPorts), len(c.outPorts)) for c in children],
            'child_names': [type(c).__name__ + ':' + c.name for c in children],
            'wires': wl,
            '_children': children, '_wire_id': {k: n for n, k in enumerate(order)}, '_pin_of_port': pin_of_port, '_elem_of_obj': elem_of_obj}


def leaf_crosscheck(obj, conn):
    """second, independent route to the driver of each wire: Wire.source is the LEAF out-port registered by the
    primitive's constructor; its ancestor that is a direct child of obj must be the child our port scan found.
    returns a list of disagreements (strings)."""
    bad = []
    children = list(obj.children.values())
    wire_by_id = {}
    for c in children:
        for p in c.inPorts + c.outPorts: wire_by_id[id(p.wire)] = p.wire
    for p in obj.inPorts + obj.outPorts: wire_by_id[id(p.wire)] = p.wire
    for k, n in conn['_wire_id'].items():
        w = wire_by_id[k]; drv = conn['wires'][n]['drv']
        src = getattr(w, 'source', None)
        anc = None
        x = src.parent if src is not None else None
        while x is not None:
            if x.parent is obj: anc = x; break
            x = x.parent
        if anc is not None:
            if drv[0] != ('ch', children.index(anc)):
                bad.append('%s: leaf source under child %s, port scan says %s' % (w.getFullPath(), anc.name, drv))
        elif drv[0][0] == 'ch':
            c = children[drv[0][1]]
            if src is not None:     # driven by a leaf that is not below the child that claims the out-port
                bad.append('%s: port scan says child %s, leaf source is %s' % (w.getFullPath(), c.name, src.getFullPath()))
    return bad


# ---------------------------------------------------------------------------------------------- the real placer
def run_schematic(obj, timeout_s=30):
    """Schematic(obj) with placeAndRoute=True, no rendering.  returns (schematic, info); raises PlacerTimeout or
    whatever the constructor raises."""
    import matplotlib
    matplotlib.use('Agg')
    from py4hw.schematic import Schematic
    info = {'swallowed': []}
    so, se = sys.stdout, sys.stderr
    buf_o, buf_e = io.StringIO(), io.StringIO()

    def on_alarm(signum, frame):
        raise PlacerTimeout('placeAndRoute still running after %ss' % timeout_s)
    old = signal.signal(signal.SIGALRM, on_alarm)
    signal.setitimer(signal.ITIMER_REAL, timeout_s)
    t0 = time.time()
    try:
        sys.stdout, sys.stderr = buf_o, buf_e
        s = Schematic(obj)
    finally:
        signal.setitimer(signal.ITIMER_REAL, 0)
        signal.signal(signal.SIGALRM, old)
        sys.stdout, sys.stderr = so, se
    info['time_s'] = round(time.time() - t0, 3)
    out = buf_o.getvalue()
    for tag in ('WARNING: error in create nets', 'WARNING: error in passthrough'):
        if tag in out:
            err = buf_e.getvalue().strip().split('\n')
            info['swallowed'].append(tag + ': ' + (err[-1] if err else ''))
    return s, info


# ---------------------------------------------------------------------------------------------- what is shown
def symbol_kind(sym):
    import py4hw.schematic_symbols as SS
    for cls, k in ((SS.PassthroughSymbol, 'KPass'), (SS.FeedbackStartSymbol, 'KFbStart'), (SS.FeedbackStopSymbol, 'KFbStop'),
                   (SS.MissingConnectionSymbol, 'KMissing'), (SS.InPortSymbol, 'KIn'), (SS.OutPortSymbol, 'KOut'),
                   (SS.InOutPortSymbol, 'KInOut')):
        if isinstance(sym, cls): return k
    if isinstance(sym, SS.VirtualSymbol): return 'KOtherVirtual'
    return 'KInst'


class RecCanvas:
    """a canvas that only logs what a symbol's draw() paints (no matplotlib): ('poly', xs, ys) / ('text', x, y, text, anchor) / ..."""
    def __init__(self): self.ops = []
    def setForecolor(self, *a, **k): pass
    def setFillcolor(self, *a, **k): pass
    def setLineWidth(self, *a, **k): pass
    def drawText(self, x, y, text=None, anchor=None, **k): self.ops.append(('text', x, y, str(text), anchor))
    def drawPolygon(self, x, y, fill=False, **k): self.ops.append(('poly', list(x), list(y)))
    def drawLine(self, x0, y0, x1, y1, **k): self.ops.append(('line', x0, y0, x1, y1))
    def drawRectangle(self, x0, y0, x1, y1, **k): self.ops.append(('rect', x0, y0, x1, y1))
    def drawRoundRectangle(self, *a, **k): self.ops.append(('rrect',) + a)
    def drawArc(self, *a, **k): self.ops.append(('arc',) + a)
    def drawEllipse(self, *a, **k): self.ops.append(('ellipse',) + a)
    def drawSpline(self, *a, **k): self.ops.append(('spline',) + a)
    def drawImage(self, *a, **k): self.ops.append(('image',) + a)


def painted_markers(x, in_ports, out_ports):
    """INDEPENDENT of getPortSourcePos / getPortSinkPos: what x.draw() paints.  A pin marker is a small closed polygon
    (at most 16 x 12 px) that sits on the left edge (input side) or the right edge (output side) of the symbol.  Which port a
    marker belongs to: the port whose NAME is written as a label beside it (anchor 'w' right of an input marker, anchor 'e' left of
    an output marker) when labels are painted and the names are unambiguous, else the drawing order (k-th marker = k-th port).
    returns [(port, (x0, y0, x1, y1))]"""
    rc = RecCanvas()
    try:
        x.draw(rc)
    except Exception:
        return []
    left, right = x.x, x.x + x.getWidth()
    ins, outs = [], []
    for k, op in enumerate(rc.ops):
        if op[0] != 'poly' or len(op[1]) < 5 or (op[1][0], op[2][0]) != (op[1][-1], op[2][-1]): continue
        x0, x1, y0, y1 = min(op[1]), max(op[1]), min(op[2]), max(op[2])
        if x1 - x0 > 16 or y1 - y0 > 12 or x1 - x0 < 2 or y1 - y0 < 2: continue
        box = (int(x0), int(y0), int(x1), int(y1))
        lab = None
        for op2 in rc.ops[k + 1:k + 2]:                      # the label, if any, is painted right after its marker
            if op2[0] == 'text' and y0 - 2 <= op2[2] <= y1 + 4: lab = op2
        if x0 == left and (x1 < right or not out_ports): ins.append((box, lab))
        elif x1 == right: outs.append((box, lab))
    res = []
    for marks, ports, anchor in ((ins, list(in_ports), 'w'), (outs, list(out_ports), 'e')):
        if not marks or not ports: continue
        names = [p.name for p in ports]
        labelled = all(l is not None and l[4] == anchor for _, l in marks) and len(set(names)) == len(names)
        if labelled:
            for box, l in marks:
                if l[3] in names: res.append((ports[names.index(l[3])], box))
        elif len(marks) == len(ports):
            res += [(pt, box) for pt, (box, _) in zip(ports, marks)]
    return res


def dump_layout(s, conn):
    """symbols = the entries of symbol_matrix (that is what drawAll draws), nets = s.nets."""
    sid = {}
    syms = []
    nr, nc = s.symbol_matrix.shape
    for c in range(nc):
        for r in range(nr):
            x = s.symbol_matrix[r, c]
            if x is None: continue
            if id(x) not in sid: sid[id(x)] = len(sid)        # the same object in two cells keeps ONE id (checker: ids NoDup)
            o = getattr(x, 'obj', None)
            syms.append({'id': sid[id(x)], 'kind': symbol_kind(x), 'for': conn['_elem_of_obj'].get(id(o)) if o is not None else None,
                         'name': str(getattr(x, 'name', '?')), 'cell': (r, c),
                         'row': int(getattr(x, 'r', -1) if getattr(x, 'r', None) is not None else -1),
                         'col': int(getattr(x, 'c', -1) if getattr(x, 'c', None) is not None else -1),
                         'x': int(x.x), 'y': int(x.y), 'w': int(x.getWidth()), 'h': int(x.getHeight())})
    # where each drawn instance / port symbol puts each pin of the thing it stands for (symbol geometry, asked per port —
    # independent of the nets): (symbol id, pin, x, y)
    pins = []
    marks = []
    children = conn['_children']

    def pos(x, f, port):
        try:
            d = f(port); return (int(x.x + d[0]), int(x.y + d[1]))
        except Exception:
            return None           # the symbol cannot place this pin: no entry (a net ending there is then rejected)
    seen = set()
    for c in range(nc):
        for r in range(nr):
            x = s.symbol_matrix[r, c]
            if x is None or id(x) in seen: continue
            seen.add(id(x))
            o = getattr(x, 'obj', None); e = conn['_elem_of_obj'].get(id(o)) if o is not None else None
            if e is None or symbol_kind(x) not in ('KInst', 'KIn', 'KOut'): continue
            todo = []
            if e[0] == 'ch':
                todo = [(x.getPortSinkPos, pt) for pt in children[e[1]].inPorts] + [(x.getPortSourcePos, pt) for pt in children[e[1]].outPorts]
            elif e[0] == 'in': todo = [(x.getPortSourcePos, o)]
            else: todo = [(x.getPortSinkPos, o)]
            for f, pt in todo:
                xy = pos(x, f, pt)
                if xy is not None: pins.append({'sym': sid[id(x)], 'pin': conn['_pin_of_port'][id(pt)], 'x': xy[0], 'y': xy[1]})
            if e[0] == 'ch': mk = painted_markers(x, children[e[1]].inPorts, children[e[1]].outPorts)
            elif e[0] == 'in': mk = painted_markers(x, [], [o])
            else: mk = painted_markers(x, [o], [])
            for pt, box in mk:
                marks.append({'sym': sid[id(x)], 'pin': conn['_pin_of_port'][id(pt)], 'box': box})
    n_drawn = len(sid)
    undrawn = {}
    nch = len(conn['children'])
    extra_w = {}

    def end(sym, port):
        if id(sym) not in sid:
            sid[id(sym)] = len(sid); undrawn[sid[id(sym)]] = '%s %s' % (type(sym).__name__, getattr(sym, 'name', '?'))
        pin = None
        if port is not None:
            pin = conn['_pin_of_port'].get(id(port), (('ch', nch), False, 0))      # a port of nothing in this block: out-of-range pin
        return (sid[id(sym)], pin)
    nets = []
    for n in s.nets:
        k = id(n.wire)
        if k in conn['_wire_id']: wid = conn['_wire_id'][k]
        else:
            if k not in extra_w: extra_w[k] = len(conn['wires']) + len(extra_w)
            wid = extra_w[k]
        path = None
        try:
            if n.x is not None and len(n.x) >= 1 and len(n.y) == len(n.x):
                path = ((int(n.x[0]), int(n.y[0])), (int(n.x[-1]), int(n.y[-1])))
        except Exception:
            path = None
        nets.append({'wire': wid, 'src': end(n.source, n.sourcePort), 'snk': end(n.sink, n.sinkPort),
                     'from': path[0] if path else None, 'to': path[1] if path else None,
                     'text': '%s: %s.%s -> %s.%s' % (n.wire.getFullPath(), getattr(n.source, 'name', '?'), n.sourcePort.name if n.sourcePort is not None else None,
                                                     getattr(n.sink, 'name', '?'), n.sinkPort.name if n.sinkPort is not None else None)})
    in_matrix = set(id(x) for x in s.symbol_matrix.flatten() if x is not None)
    lost = ['%s %s' % (type(o).__name__, getattr(o, 'name', '?')) for o in s.objs if id(o) not in in_matrix]
    return {'syms': syms, 'nets': nets, 'pins': pins, 'marks': marks, 'undrawn_net_ends': undrawn, 'objs_not_in_matrix': lost, 'n_drawn': n_drawn}


# ---------------------------------------------------------------------------------------------- Coq terms
def _elem(e):
    return '(%s %d)' % ({'in': 'EIn', 'ch': 'EChild', 'out': 'EOut'}[e[0]], e[1])

def _pin(p):
    return '(Pin %s %s %d)' % (_elem(p[0]), 'true' if p[1] else 'false', p[2])

def _opt(x, f):
    return 'None' if x is None else '(Some %s)' % f(x)

def _z(n):
    return '%d%%Z' % n if n >= 0 else '(%d)%%Z' % n

def circuit_term(conn):
    ws = '; '.join('WC %d %s [%s]' % (w['id'], _pin(w['drv']), '; '.join(_pin(p) for p in w['rd'])) for w in conn['wires'])
    ch = '; '.join('(%d, %d)' % c for c in conn['children'])
    return '(Circ %d %d [%s] [%s])' % (conn['nin'], conn['nout'], ch, ws)

def layout_term(lay):
    ss = '; '.join('Sym %d %s %s %s %s %s %s %s %s' % (s['id'], s['kind'] if s['kind'] in KINDS else 'KOther', _opt(s['for'], _elem),
                                                      _z(s['row']), _z(s['col']), _z(s['x']), _z(s['y']), _z(s['w']), _z(s['h'])) for s in lay['syms'])
    _pt = lambda xy: '(%s, %s)' % (_z(xy[0]), _z(xy[1]))
    ns = '; '.join('Net %d (End %d %s) (End %d %s) %s %s' % (n['wire'], n['src'][0], _opt(n['src'][1], _pin), n['snk'][0], _opt(n['snk'][1], _pin),
                                                            _opt(n.get('from'), _pt), _opt(n.get('to'), _pt)) for n in lay['nets'])
    ps = '; '.join('PinAt %d %s %s %s' % (a['sym'], _pin(a['pin']), _z(a['x']), _z(a['y'])) for a in lay.get('pins', []))
    ms = '; '.join('MarkAt %d %s %s %s %s %s' % ((m['sym'], _pin(m['pin'])) + tuple(_z(v) for v in m['box'])) for m in lay.get('marks', []))
    return '(Lay [%s] [%s] [%s] [%s])' % (ss, ns, ps, ms)

KINDS = ('KInst', 'KIn', 'KOut', 'KInOut', 'KPass', 'KFbStart', 'KFbStop', 'KMissing')


def public(conn, lay):
    """JSON-able copy for replay files / samples"""
    c = {k: v for k, v in conn.items() if not k.startswith('_')}
    return {'circuit': c, 'layout': lay}
