"""C08 — logic, selection and comparison blocks implement their truth tables exactly.
Proof : Properties/C08.v — theorems over Model/StructLogic.v (hand-written compositions of the REGENERATED primitives of
        Gen/Prims.v, wired as the constructors wire them) against Spec/C08.v, for every width / arity / constant.
Tie   : Gen/Prims.v is regenerated from py4hw/logic/*.py on every run (a changed primitive breaks its characterising lemma);
        the structural models are run inside Coq against the REAL blocks (built by the real constructors, simulated by the
        real simulator) on full truth tables (small arity/width) and boundary+random inputs beyond.
Search: the same sweep compares the real blocks with the Coq SPEC; the first disagreeing input is the replay."""
import itertools, json, os, random, time
import common
from common import quiet, zlist
from props import c08_blocks

PRELUDE_SPEC = 'From V Require Import Base.Bits Spec.C08.\n'
PRELUDE_BOTH = 'From V Require Import Base.Bits Spec.C08 Gen.WireOps Gen.Prims Model.StructLogic.\n'
CHK = '''
(* a whole truth table travels as ONE hexadecimal numeral: case k occupies bits [k*W, (k+1)*W), inside a case the input
   fields come first (least significant), then the output fields, each as wide as its wire (nested list literals of
   thousands of cases take seconds to parse; a numeral does not) *)
Fixpoint split_fields (ws : list Z) (p : Z) : list Z :=
  match ws with [] => [] | w :: t => Z.land p (Z.ones w) :: split_fields t (Z.shiftr p w) end.
Fixpoint unpack (n : nat) (iw ow : list Z) (W p : Z) : list (list Z * list Z) :=
  match n with
  | O => []
  | S n' => let f := split_fields (iw ++ ow) p in (firstn (length iw) f, skipn (length iw) f) :: unpack n' iw ow W (Z.shiftr p W)
  end.
Fixpoint eqlZ (a b : list Z) : bool :=
  match a, b with [], [] => true | x :: a', y :: b' => (x =? y) && eqlZ a' b' | _, _ => false end.
(* (index, spec output, model output) of the first cases whose implementation output differs from the spec / the model *)
Fixpoint chk (k : nat) (fs fm : list Z -> list Z) (cases : list (list Z * list Z)) (budget : nat) : list (nat * list Z * list Z) :=
  match cases, budget with
  | [], _ => [] | _, O => []
  | (i, o) :: t, S b => if eqlZ (fs i) o && eqlZ (fm i) o then chk (S k) fs fm t budget
                        else (k, fs i, fm i) :: chk (S k) fs fm t b
  end.
'''


def boundary(w):
    m = (1 << w) - 1
    return sorted({0, 1 & m, 2 & m, m, m - 1 if m else 0, 1 << (w - 1), (1 << (w - 1)) - 1, ((1 << (w - 1)) + 1) & m})


def inputs_for(widths, rng, full_bits, n_random):
    total = sum(widths)
    if total <= full_bits:
        return [list(t) for t in itertools.product(*[range(1 << w) for w in widths])], True
    out, seen = [], set()
    def add(t):
        t = tuple(t)
        if t not in seen: seen.add(t); out.append(list(t))
    bl = [boundary(w) for w in widths]
    if len(widths) <= 3:
        for t in itertools.product(*bl): add(t)
    else:
        for k in range(8): add([b[min(k, len(b) - 1)] for b in bl])
    for _ in range(n_random):
        kind = rng.random()
        if kind < .25 and len(widths) >= 2:       # equal / adjacent operands (comparators, Equal, AnyEqual)
            v = rng.getrandbits(max(widths))
            add([(v + rng.choice([0, 0, 1, -1])) & ((1 << w) - 1) for w in widths])
        elif kind < .4:                           # sparse: mostly zeros / all-ones
            add([rng.choice([0, (1 << w) - 1, rng.getrandbits(w)]) for w in widths])
        else:
            add([rng.getrandbits(w) for w in widths])
    return out, False


def run_impl(py4hw, blk, cfg, ins_list):
    with quiet():
        hw = py4hw.HWSystem()
        iw, ow = blk.build(hw, cfg)
        sim = hw.getSimulator()
    outs = []
    for vals in ins_list:
        for w, v in zip(iw, vals): w.put(v)
        with quiet():
            sim.propagateAll()
        outs.append([w.get() for w in ow])
    run_impl.out_widths = [w.getWidth() for w in ow]
    return outs


def coq_compare(tag, groups, with_model):
    """groups: list of (blk, cfg, ins_list, outs).  One coqc call.  returns per group a list of (index, spec_out, model_out)."""
    body = [PRELUDE_BOTH if with_model else PRELUDE_SPEC, CHK]
    items = []
    for g, (blk, cfg, ins_list, outs, ow) in enumerate(groups):
        iw = blk.in_widths(cfg)
        W, P = sum(iw) + sum(ow), 0
        for k, (i, o) in enumerate(zip(ins_list, outs)):
            off = k * W
            for w, v in zip(iw + ow, i + o):
                assert 0 <= v < (1 << w), (blk.name, cfg, i, o)
                P |= v << off; off += w
        cases = '(unpack (Z.to_nat %d) %s %s %d 0x%x)' % (len(ins_list), zlist(iw), zlist(ow), W, P)
        fs = blk.spec(cfg)
        fm = blk.model(cfg) if with_model else fs
        items.append(('g%d' % g, 'chk 0 %s %s %s 3' % (fs, fm, cases)))
    res = common.coq_eval(tag, '\n'.join(body), items, timeout=900)
    return [res['g%d' % g] for g in range(len(groups))]


def sweep(ctx, with_model, full_bits, n_random, only=None, tag='C08'):
    """returns (spec_mismatches, model_mismatches): lists of dicts (block, config, inputs, impl, spec/model)."""
    py4hw = common.quiet_import()
    blocks = c08_blocks.catalogue(py4hw, ctx.quick, getattr(ctx, 'c08_policies', None))
    rng = random.Random(ctx.seed * 7919 + 8)
    groups, ncases = [], 0
    spec_bad, model_bad = [], []
    batch_no = [0]
    model_failed = [None]

    def flush():
        nonlocal groups, ncases
        if not groups: return
        t0 = time.time()
        wm = with_model and not model_failed[0]
        try:
            res = coq_compare('%s_b%d' % (tag, batch_no[0]), groups, wm)
        except RuntimeError as ex:
            if not wm: raise
            # the model terms do not evaluate over the regenerated primitives (tie broken): go on with implementation vs spec
            model_failed[0] = str(ex)[-1500:]
            ctx.log('model terms do not evaluate over the regenerated primitives; continuing with implementation vs spec')
            wm = False
            res = coq_compare('%s_b%d' % (tag, batch_no[0]), groups, False)
        batch_no[0] += 1
        for (blk, cfg, ins_list, outs, ow), bad in zip(groups, res):
            for (k, so, mo) in bad:
                rec = {'block': blk.name, 'config': cfg, 'inputs': ins_list[k], 'impl': outs[k]}
                if so != outs[k]: spec_bad.append(dict(rec, spec=so))
                if wm and mo != outs[k]: model_bad.append(dict(rec, model=mo))
        ctx.log('batch %d: %d configs, %d cases, coq %.1fs' % (batch_no[0], len(groups), ncases, time.time() - t0))
        groups, ncases = [], 0

    for blk in blocks:
        if only and blk.name not in only: continue
        for cfg in blk.configs:
            widths = blk.in_widths(cfg)
            fb = full_bits + (1 if (blk.name in ('And', 'Or', 'Xor', 'Nor') and not ctx.quick) else 0)     # arity 5 x width 3 in full
            ins_list, full = inputs_for(widths, rng, fb, n_random)
            try:
                outs = run_impl(py4hw, blk, cfg, ins_list)
            except Exception as ex:      # a legal configuration must build and simulate
                spec_bad.append({'block': blk.name, 'config': cfg, 'inputs': None, 'impl': 'raised %s: %s' % (type(ex).__name__, ex), 'spec': 'a value'})
                continue
            ow = run_impl.out_widths
            ctx.count((blk.name, json.dumps(cfg, sort_keys=True), 'full' if full else 'sampled'), n=len(ins_list))
            if blk.name in ('Mux', 'Comparator', 'PriorityEncoder') and len(ctx.cov['samples']) < 6 and sum(widths) > 3:
                k = len(ins_list) // 3
                ctx.sample({'block': blk.name, 'config': cfg, 'inputs': ins_list[k], 'impl_outputs': outs[k]})
            groups.append((blk, cfg, ins_list, outs, ow)); ncases += len(ins_list)
            if ncases >= 40000: flush()
    flush()
    if model_failed[0]: ctx.notes['model_terms_failed'] = model_failed[0]
    return spec_bad, model_bad


# ---------------------------------------------------------------------------------------------- known findings
def known_checks(ctx):
    """re-run the witnesses of known_findings/C08.json on the real code; report the ones that still reproduce."""
    py4hw = common.quiet_import()
    for kf in ctx.known:
        if kf.get('status') != 'known': continue
        w = kf.get('witness', {})
        try:
            if w.get('kind') == 'block':
                blk = {b.name: b for b in c08_blocks.catalogue(py4hw, True)}[w['block']]
                got = run_impl(py4hw, BlockCfg(blk, w), w['config'], [w['inputs']])[0]
                if got == w['observed'] and got != w['expected']:
                    ctx.known_finding(kf['id'], kf['text'])
            elif w.get('kind') == 'prio_direct':
                with quiet():
                    hw = py4hw.HWSystem()
                    a = [hw.wire('a%d' % i, x) for i, x in enumerate(w['widths'])]; rr = [hw.wire('r%d' % i, x) for i, x in enumerate(w['widths'])]
                    py4hw.PriorityEncoder(hw, 'pe', a, rr, w['inc_priority'])
                    for wire, v in zip(a, w['values']): wire.put(v)
                    hw.getSimulator().propagateAll()
                got = [x.get() for x in rr]
                ctx.count(('known_witness', kf['id']))
                if got == w['observed'] and got != w['expected']:
                    ctx.known_finding(kf['id'], kf['text'])
            elif w.get('kind') == 'docstring':
                src = open(os.path.join(common.REPO, w['file']), encoding='utf-8').read()
                bh = w['behaviour']
                blk = {b.name: b for b in c08_blocks.catalogue(py4hw, True)}[bh['block']]
                got = run_impl(py4hw, blk, bh['config'], [bh['inputs']])[0]
                if w['text'] in src and got == bh['observed']:
                    ctx.known_finding(kf['id'], kf['text'])
        except Exception as ex:
            ctx.log('known finding %s: witness could not be replayed (%s)' % (kf['id'], ex))


class BlockCfg:
    """a catalogue block whose build() accepts a witness configuration outside the catalogue's legal configs"""
    def __init__(self, blk, w):
        self.name, self.build = blk.name, blk.build


def is_known(ctx, rec):
    for kf in ctx.known:
        w = kf.get('witness', {})
        if kf.get('status') == 'known' and w.get('kind') == 'block' and w['block'] == rec['block'] and w['config'] == rec['config']:
            return kf
    return None


def ladder_term_tie(ctx, py4hw):
    """the hand-written netlist terms of Proofs/C08/Netlist.v (`and_ladder_design`, `or_ladder_design`: subjects of C08_*_ladder_netlist_refines)
    against what And.__init__ / Or.__init__ REALLY build now: the live block is dumped (netlist.Dump) and the instantiated term must be
    convertible to the dump (`reflexivity`).  Wires are created in the order the terms assume (inputs, r).  Returns the differing labels."""
    import re, netlist
    defs, goals, labels = [], [], []
    for cls, term in (('And', 'and_ladder_design'), ('Or', 'or_ladder_design')):
        for wis, w in (([3], 3), ([3, 3], 3), ([4, 4, 4], 4), ([1, 2, 3, 4, 5], 2), ([2] * 7, 2), ([8, 1, 8, 1], 9)):
            with quiet():
                hw = py4hw.HWSystem()
                ins = [hw.wire('in%d' % i, wi) for i, wi in enumerate(wis)]
                r = hw.wire('r', w)
                getattr(py4hw, cls)(hw, 'g', ins, r)
                try: dp = netlist.Dump(hw)
                except Exception as ex:
                    labels.append('%s%s' % (cls, wis)); goals.append('Goal True. idtac "@@DIFF %d". Abort.' % (len(labels) - 1)); continue
            k = len(labels); labels.append('%s(widths=%s, r=%d)' % (cls, wis, w))
            defs.append(dp.coq_design('dump_%d' % k))
            goals.append('Goal True. tryif (assert ((%s %s %d : design AnySt) = dump_%d) by reflexivity) then idtac "@@SAME %d" else idtac "@@DIFF %d". Abort.' % (term, zlist(wis), w, k, k, k))
            ctx.count(('ladder_term', cls, tuple(wis), w))
    tag = 'C08_ladderterms'
    os.makedirs(common.CASES, exist_ok=True)
    pre = ('From V Require Import Base.PyInt Gen.WireOps Gen.Helpers Gen.Prims Gen.Seq Model.SimKernel Model.Trace.\nFrom V Require Import Proofs.C08.Netlist.\n'
           'From Coq Require Import List ZArith. Import ListNotations. Open Scope Z_scope.\n')
    open(os.path.join(common.CASES, tag + '.v'), 'w').write(pre + '\n'.join(defs) + '\n' + '\n'.join(goals) + '\n')
    rc, out = common.sh('timeout 600 coqc -Q . V Cases/%s.v' % tag, timeout=630, cwd=common.COQ)
    for ext in ('.vo', '.vok', '.vos', '.glob'):
        try: os.remove(os.path.join(common.CASES, tag + ext))
        except OSError: pass
    if rc != 0: return ['Cases/%s.v does not compile against Proofs/C08/Netlist.v: %s' % (tag, out[-500:])]
    same = set(int(x) for x in re.findall(r'@@SAME (\d+)', out))
    ctx.notes['ladder_terms_convertible_to_live_dumps'] = '%d of %d' % (len(same), len(labels))
    return [labels[k] for k in range(len(labels)) if k not in same]


def run(ctx):
    ctx.cov['rule'] = ('obligations: theorems of Properties/C08.v over Model/StructLogic.v + the regenerated primitives; correspondence cases: '
                       '(block, configuration = widths/arity/constants, input vector); distinct = distinct (block, configuration, full-table|sampled); '
                       'every case drives the real block through the real simulator and is compared with the Coq model AND the Coq spec')
    missing = ctx.regen(c08_blocks.NEEDED)
    r = ctx.prove(['Properties/C08.v'])
    mb = common.build(['Model/StructLogic.vo', 'Spec/C08.vo'], timeout=600)
    sig_changes = c08_blocks.signature_changes(ctx.gen['sigs'])       # e.g. a propagate() that stopped reading an attribute
    if sig_changes: ctx.notes['generated_signature_changes'] = sig_changes
    with_model = mb['ok'] and not sig_changes
    if not with_model:
        sb = common.build(['Spec/C08.vo'], timeout=600)
        if not sb['ok']:
            ctx.violation({'what': 'Spec/C08.v does not build', 'coq_error': sb['msg']}, found_input=False); return
    py4hw = common.quiet_import()
    pol = c08_blocks.probe_policies(py4hw)       # the width formulas of Xor2 / Equal in THIS /repo: the models follow them
    ctx.c08_policies = pol
    ctx.notes['probed_width_formulas'] = {'xor2_internal': pol['mid'], 'equal_xor_wire': pol['eqw']}
    full_bits, n_random = (10, 120) if ctx.quick else (14, 1000)
    spec_bad, model_bad = sweep(ctx, with_model, full_bits, n_random)
    known_checks(ctx)
    pol_ok = all(pol[k] == v for k, v in c08_blocks.HEADLINE_POLICIES.items())      # the theorems speak about these formulas only
    ladder_bad = []
    if r['ok'] and not missing:
        try: ladder_bad = ladder_term_tie(ctx, py4hw)
        except Exception as ex: ladder_bad = ['error: %s: %s' % (type(ex).__name__, str(ex)[-400:])]
        if ladder_bad: ctx.notes['ladder_terms_not_convertible'] = ladder_bad
    tie_ok = (not missing) and r['ok'] and with_model and not model_bad and pol_ok and 'model_terms_failed' not in ctx.notes and not ladder_bad
    reported = False
    for rec in spec_bad:
        if is_known(ctx, rec): continue
        ctx.violation({'what': 'the real %s disagrees with its truth table (Spec/C08.v)' % rec['block'], 'block': rec['block'], 'config': rec['config'],
                       'inputs': rec['inputs'], 'impl_outputs': rec['impl'], 'spec_outputs': rec['spec'],
                       'how': 'build the block with this configuration (py/props/c08_blocks.py), put() the inputs in port order, propagateAll(), read the outputs',
                       'proof_status': ({'headline_theorems_apply': False, 'why': 'probe found width formulas %s / %s, the theorems are stated for %s' % (pol['mid'], pol['eqw'], c08_blocks.HEADLINE_POLICIES)} if not pol_ok else
                                        None if r['ok'] else {'lemma': r.get('lemma'), 'file': r.get('file')})})
        reported = True
        break
    if not reported and not tie_ok:
        if not ctx.quick or True:
            # widen the search before giving up: larger exhaustive tables, more random inputs (impl vs spec only)
            sb2, _ = sweep(ctx, False, 12 if ctx.quick else 14, 400 if ctx.quick else 1500, tag='C08w')
            for rec in sb2:
                if is_known(ctx, rec): continue
                ctx.violation({'what': 'the real %s disagrees with its truth table (Spec/C08.v)' % rec['block'], 'block': rec['block'], 'config': rec['config'],
                               'inputs': rec['inputs'], 'impl_outputs': rec['impl'], 'spec_outputs': rec['spec']})
                return
        if model_bad:
            rec = model_bad[0]
            what = 'structural model and real block disagree (correspondence broken) but the block still meets its spec on every input tried'
            ctx.violation({'what': what, 'block': rec['block'], 'config': rec['config'], 'inputs': rec['inputs'], 'impl_outputs': rec['impl'],
                           'model_outputs': rec['model']}, found_input=False)
        else:
            what = ('the internal widths of Xor2 / Equal in /repo are not the formulas the C08 theorems are stated for (%s): probe found %s / %s: %s' % (c08_blocks.HEADLINE_POLICIES, pol['mid'], pol['eqw'], pol['probed']) if not pol_ok else
                    'translator rejected %s: %s' % (missing, {k: ctx.gen['errors'].get(k) for k in missing}) if missing else
                    'the generated primitives changed their parameter lists (models no longer apply): %s' % sig_changes if sig_changes else
                    'Model/StructLogic.v no longer builds over the regenerated primitives: %s' % mb.get('msg') if not with_model else
                    'a hand-written ladder netlist term of Proofs/C08/Netlist.v is no longer convertible to the netlist And/Or really build: %s' % ladder_bad if ladder_bad else
                    'proof obligation no longer checks: %s in %s' % (r.get('lemma'), r.get('file')))
            ctx.violation({'what': what, 'theorem': r.get('lemma'), 'file': r.get('file'), 'coq_error': r.get('msg')}, found_input=False)
    ctx.assumptions += ['structural models (Model/StructLogic.v) mirror the constructors of bitwise.py / relational.py: checked on every run by running the '
                        'models inside Coq against the real blocks (full truth tables for small configurations, boundary+random beyond), not proved',
                        'wire values fit their width (C06) — theorems that need it state it as a hypothesis (fits w v)',
                        'legal configurations only: operand widths as the constructors assume them (see docs/C08.md, guards)']


def replay(rp):
    """./check --replay <file>: rebuild the block, drive the recorded inputs, show implementation vs recorded spec."""
    py4hw = common.quiet_import()
    if 'block' not in rp or rp.get('inputs') is None:
        print(json.dumps(rp, indent=1)[:4000]); return 0
    blk = {b.name: b for b in c08_blocks.catalogue(py4hw, True)}[rp['block']]
    got = run_impl(py4hw, blk, rp['config'], [rp['inputs']])[0]
    exp = rp.get('spec_outputs', rp.get('model_outputs'))
    print('block %s config %s inputs %s' % (rp['block'], rp['config'], rp['inputs']))
    print('implementation now: %s   recorded implementation: %s   expected (spec): %s' % (got, rp.get('impl_outputs'), exp))
    if got != exp:
        print('REPRODUCED: implementation differs from the expected outputs'); return 1
    print('not reproduced: implementation agrees with the expected outputs'); return 0
