"""C09 — storage and sequential blocks follow their reference state machines.

Proof:  Properties/C09.v (refinement theorems for ALL histories / widths / depths / delays / moduli) over the block models of
        Model/SeqBlocks.v, which are compositions of the REGENERATED Reg_clock / SynchronousMemory_clock / AutoReset_clock and
        combinational primitives (Gen/Seq.v, Gen/Prims.v), against the reference machines of Spec/C09.v.
Tie:    the REAL blocks (py4hw objects under the real Simulator) are driven from power-up; after construction and after every
        clk(1) the output wires, every internal register output and every leaf attribute are compared with the block model
        evaluated in Coq (impl = model: correspondence) and the outputs with the reference machine evaluated in Coq (impl = spec:
        the property).  Histories: exhaustive over small alphabets by breadth-first exploration of the implementation's state
        graph (every distinct simulator state reachable within L edges x every input: equivalent to ALL input sequences of
        length <= L, given that a snapshot of wires + leaf attributes determines behaviour), plus random histories on wider data.
        Additionally the constructor's actual netlist is dumped (py/netlist.py) and run under the kernel model in Coq.
Search: the same sweep, widened when a proof / the tie breaks."""
import itertools, json, random, time, traceback
from concurrent.futures import ThreadPoolExecutor
import common, netlist
from common import quiet, zlit, zlist, blit

NEEDED = ['Reg_clock', 'SynchronousMemory_clock', 'DualPortSynchronousMemory_clock', 'AutoReset_clock', 'Wire_put', 'Wire_prepare', 'Mux2_propagate', 'Or2_propagate',
          'And2_propagate', 'Not_propagate', 'Buf_propagate', 'Constant_propagate', 'AddCarryIn_propagate', 'BitsLSBF_propagate']
PRELUDE = 'From V Require Import Base.PyInt Model.SeqBlocks Model.SeqBlocksRun Spec.C09.\n'
PRELUDE_SPEC = 'From V Require Import Base.PyInt Model.SeqSpecRun Spec.C09.\n'        # independent of the regenerated definitions

_py4hw = None
def P():
    global _py4hw
    if _py4hw is None:
        _py4hw = common.quiet_import()
        import py4hw.logic.storage, py4hw.logic.arithmetic, py4hw.logic.clock   # noqa
    return _py4hw


def nlist(xs): return '[' + '; '.join('%d%%nat' % x for x in xs) + ']'
def rows_term(rows): return '[' + '; '.join(zlist(r) for r in rows) + ']'


# ------------------------------------------------------------------ a live instance of one block
class Inst:
    """hw + the wires to poke (in the order of the model's input row) + observers.
    full row after an edge = pre-edge outputs ++ post-edge outputs ++ internal state; power-up row = post part only."""
    def __init__(self, hw, ins, pre, post_out, post_state):
        self.hw, self.ins, self.pre, self.post_out, self.post_state = hw, ins, pre, post_out, post_state
        with quiet():
            self.sim = hw.getSimulator()
        self.wires = netlist.all_wires(hw)
        self.leaves = [o for o in netlist.all_objects(hw) if not o.children]
        self.n_spec = None

    def powerup_row(self):
        return self.post_out() + self.post_state()

    def step(self, row):
        for w, v in zip(self.ins, row):
            w.put(v)
        with quiet():
            self.sim.propagateAll()
        pre = self.pre()
        with quiet():
            self.sim.clk(1)
        return pre + self.post_out() + self.post_state()

    def n_out(self):
        return len(self.pre()) + len(self.post_out())

    # snapshot of everything that determines future behaviour
    def snap(self):
        st = []
        for o in self.leaves:
            d = o.__dict__
            for a in ('value', 'state', 'data'):
                if a in d and isinstance(d[a], (int, list)):
                    st.append(tuple(d[a]) if isinstance(d[a], list) else d[a])
        return (tuple(w.value for w in self.wires), tuple(st))

    def restore(self, s):
        for w, v in zip(self.wires, s[0]):
            w.value = v
        k = 0
        for o in self.leaves:
            d = o.__dict__
            for a in ('value', 'state', 'data'):
                if a in d and isinstance(d[a], (int, list)):
                    d[a] = list(s[1][k]) if isinstance(d[a], list) else s[1][k]
                    k += 1


# ------------------------------------------------------------------ embedding a block in a larger design
_HOOK = None
def _emb(hw, thunk):
    """every build() constructs its block through this: a hook may add other library logic to the same HWSystem before and/or
    after the block under observation is instantiated"""
    if _HOOK: _HOOK('pre', hw)
    obj = thunk()
    if _HOOK and hasattr(_HOOK, 'on_block'): _HOOK.on_block(hw, obj)
    if _HOOK: _HOOK('post', hw)
    return obj


GATES = {'xor': (lambda a, b: a ^ b), 'and': (lambda a, b: a & b), 'or': (lambda a, b: a | b)}

class Embed:
    """drives the named input wires of a block from other library logic: a free-running Counter, a Mul scrambler, Bit/Range
    slices and a 2-input gate per input.  mode 'auto': both gate operands are slices (the design runs on its own);
    mode 'ext': the second operand is a wire the harness pokes.  order: 'block_first' (the block is the first thing instantiated,
    all the logic driving it afterwards), 'sources_first', 'mixed' (counter + scrambler before, slices and gates after)."""
    def __init__(self, names, order, mode, seed):
        self.names, self.order, self.mode, self.rng = names, order, mode, random.Random(seed)
        self.src, self.ext, self.gate = [], [], []
        self.scr = None
    def core(self, hw):
        py4hw = P()
        q, k, self.scr = hw.wire('drv_q', 10), hw.wire('drv_k', 14), hw.wire('drv_scr', 24)
        py4hw.logic.arithmetic.Counter(hw, 'drv_cnt', None, None, q)
        py4hw.Constant(hw, 'drv_k', 2 * self.rng.randrange(1 << 12, 1 << 13) + 1, k)
        py4hw.Mul(hw, 'drv_mul', q, k, self.scr)
    def slice(self, hw, name, width):
        py4hw = P()
        w = hw.wire(name, width)
        lo = self.rng.randrange(0, 24 - width + 1)
        if width == 1: py4hw.Bit(hw, name, self.scr, lo, w)
        else: py4hw.Range(hw, name, self.scr, lo + width - 1, lo, w)
        return w
    def gates(self, hw):
        py4hw = P()
        for j, n in enumerate(self.names):
            tgt = hw._wires[n]; width = tgt.getWidth()
            a = self.slice(hw, 'drv_a%d' % j, width)
            g = self.rng.choice(sorted(GATES))
            b = hw.wire('ext%d' % j, width) if self.mode == 'ext' else self.slice(hw, 'drv_b%d' % j, width)
            if self.mode == 'regdom':
                # the block's input is the OUTPUT OF A REGISTER of the system clock domain, and the block itself sits in a clock domain of
                # its own (on_block): at an edge it must sample the value that register held BEFORE the edge, whichever domain is clocked first
                pre = hw.wire('drv_p%d' % j, width)
                {'xor': py4hw.Xor2, 'and': py4hw.And2, 'or': py4hw.Or2}[g](hw, 'drv_g%d' % j, a, b, pre)
                py4hw.Reg(hw, 'drv_r%d' % j, pre, tgt)
            else:
                {'xor': py4hw.Xor2, 'and': py4hw.And2, 'or': py4hw.Or2}[g](hw, 'drv_g%d' % j, a, b, tgt)
            self.src.append(a); self.ext.append(b); self.gate.append(g)
    def on_block(self, hw, obj):
        if self.mode == 'regdom' and isinstance(obj, P().Logic):
            obj.clockDriver = P().ClockDriver('clk_blk', base=hw.clockDriver)
    def __call__(self, stage, hw):
        if stage == 'pre':
            if self.order in ('sources_first', 'mixed'): self.core(hw)
            if self.order == 'sources_first': self.gates(hw)
        else:
            if self.order == 'block_first': self.core(hw)
            if self.order in ('block_first', 'mixed'): self.gates(hw)


def run_embedded(blk, p, order, mode, seed, n_steps, ext_hist=None):
    """returns (i0, [(sampled inputs, inputs visible after the edge)], impl rows, ext pokes).  Nothing is propagated by hand:
    outputs are read right after construction and right after every clk(1), as a user of the simulator sees them."""
    global _HOOK
    probe = blk.build(dict(p))
    names = [w.name for w in probe.ins if w.getSinks()]           # the real input ports (absent optional ports have dummy wires)
    emb = Embed(names, order, mode, seed)
    _HOOK = emb
    try:
        inst = blk.build(p)
    finally:
        _HOOK = None
    rng = random.Random(seed + 1)
    real = {n: k for k, n in enumerate(names)}
    def visible(): return [w.get() for w in inst.ins]
    i0 = visible()
    rows = [inst.post_out() + inst.post_state()]
    hist, pokes = [], []
    for t in range(n_steps):
        si = visible()
        if mode == 'ext':
            ev = ext_hist[t] if ext_hist is not None else [rng.randrange(1 << e.getWidth()) for e in emb.ext]
            pokes.append(ev)
            for e, v in zip(emb.ext, ev): e.put(v)
            for k, w in enumerate(inst.ins):          # what the gate will show once clk(1) has propagated the poke
                if w.name in real:
                    j = real[w.name]
                    si[k] = GATES[emb.gate[j]](emb.src[j].get(), ev[j]) & ((1 << w.getWidth()) - 1)
        with quiet():
            inst.sim.clk(1)
        hist.append((si, visible()))
        rows.append(inst.post_out() + inst.post_state())
    return i0, hist, rows, pokes


def regs_of(o):
    """the Reg leaves below o in construction order (found by class, not by instance name, so that renaming an
    internal instance or wire does not disturb the harness); reg.q is the wire the register drives"""
    return [x for x in netlist.all_objects(o) if type(x).__name__ == 'Reg']
def one_of(o, cls):
    return [x for x in netlist.all_objects(o) if type(x).__name__ == cls][0]


# ------------------------------------------------------------------ block catalogue
class Block:
    name = ''
    def configs(self, quick): return []
    def build(self, p): raise NotImplementedError
    def alphabet(self, p): raise NotImplementedError          # list of input rows (small configs only) or None
    def rand_row(self, p, rng): raise NotImplementedError
    def model(self, p): raise NotImplementedError             # Coq term: list (list Z) -> rows
    def spec(self, p): raise NotImplementedError
    def key(self, p): return (self.name,) + tuple(sorted((k, str(v)) for k, v in p.items()))


def prod(*ranges): return [list(t) for t in itertools.product(*ranges)]
def R(w): return range(1 << w)


class BReg(Block):
    name = 'Reg'
    def configs(self, quick):
        cs = []
        for he, hr in ((False, False), (True, False), (False, True), (True, True)):
            cs.append(dict(w=1, wd=1, he=he, hr=hr, rv=0, we=1, wr=1))
            cs.append(dict(w=2, wd=2, he=he, hr=hr, rv=3 if hr else 2, we=1, wr=1))
        cs += [dict(w=2, wd=3, he=True, hr=True, rv=13, we=2, wr=2),        # oversized reset value, d wider than q, 2-bit controls
               dict(w=2, wd=2, he=True, hr=True, rv=-3, we=1, wr=2),        # negative reset value
               dict(w=8, wd=8, he=True, hr=True, rv=200, we=1, wr=1),
               dict(w=1, wd=1, he=False, hr=True, rv=None, we=1, wr=1)]     # reset_value omitted
        if not quick:
            cs += [dict(w=3, wd=3, he=True, hr=True, rv=5, we=2, wr=2), dict(w=5, wd=7, he=True, hr=False, rv=77, we=3, wr=1),
                   dict(w=16, wd=16, he=False, hr=True, rv=65535, we=1, wr=1)]
        return cs
    def build(self, p):
        py4hw = P()
        with quiet():
            hw = py4hw.HWSystem()
            d, q = hw.wire('d', p['wd']), hw.wire('q', p['w'])
            e = hw.wire('e', p['we']) if p['he'] else None
            r = hw.wire('r', p['wr']) if p['hr'] else None
            kw = {} if p['rv'] is None else {'reset_value': p['rv']}
            reg = _emb(hw, lambda: py4hw.Reg(hw, 'reg', d, q, enable=e, reset=r, **kw))
        ins = [d, e if e is not None else hw.wire('_e', 1), r if r is not None else hw.wire('_r', 1)]
        return Inst(hw, ins, lambda: [], lambda: [q.get()], lambda: [reg.value])
    def _rng(self, p): return (R(p['wd']), R(p['we']) if p['he'] else [0], R(p['wr']) if p['hr'] else [0])
    def alphabet(self, p): return prod(*self._rng(p)) if p['wd'] + p['we'] + p['wr'] <= 7 else None
    def rand_row(self, p, rng): return [rng.choice(list(x)) for x in self._rng(p)]
    def _a(self, p): return '%s %s %s %s' % (zlit(p['w']), blit(p['he']), blit(p['hr']), zlit(p['rv'] or 0))
    def model(self, p): return 'reg_trace ' + self._a(p)
    def spec(self, p): return 'reg_spec_trace ' + self._a(p)


class BTReg(Block):
    name = 'TReg'
    def configs(self, quick):
        cs = [dict(wt=1, he=he, hr=hr, we=1, wr=1) for he in (False, True) for hr in (False, True)]
        cs.append(dict(wt=2, he=True, hr=True, we=2, wr=2))
        return cs
    def build(self, p):
        py4hw = P()
        with quiet():
            hw = py4hw.HWSystem()
            t, q = hw.wire('t', p['wt']), hw.wire('q', 1)
            e = hw.wire('e', p['we']) if p['he'] else None
            r = hw.wire('r', p['wr']) if p['hr'] else None
            tr = _emb(hw, lambda: py4hw.logic.storage.TReg(hw, 'treg', t, q, enable=e, reset=r))
        reg = regs_of(tr)[0]
        ins = [t, e if e is not None else hw.wire('_e', 1), r if r is not None else hw.wire('_r', 1)]
        return Inst(hw, ins, lambda: [], lambda: [q.get()], lambda: [reg.value])
    def _rng(self, p): return (R(p['wt']), R(p['we']) if p['he'] else [0], R(p['wr']) if p['hr'] else [0])
    def alphabet(self, p): return prod(*self._rng(p))
    def rand_row(self, p, rng): return [rng.choice(list(x)) for x in self._rng(p)]
    def model(self, p): return 'treg_trace 1 %s %s' % (blit(p['he']), blit(p['hr']))
    def spec(self, p): return 'treg_spec_trace %s %s' % (blit(p['he']), blit(p['hr']))


class BCounter(Block):
    name = 'Counter'
    def configs(self, quick):
        cs = [dict(w=w, hi=hi, hr=hr, wc=1) for w in (1, 2) for hi in (False, True) for hr in (False, True)]
        cs += [dict(w=3, hi=True, hr=True, wc=2), dict(w=8, hi=True, hr=True, wc=1)]
        if not quick: cs += [dict(w=4, hi=True, hr=False, wc=1), dict(w=5, hi=False, hr=True, wc=3)]
        return cs
    def build(self, p):
        py4hw = P()
        with quiet():
            hw = py4hw.HWSystem()
            q = hw.wire('q', p['w'])
            rs = hw.wire('reset', p['wc']) if p['hr'] else None
            inc = hw.wire('inc', p['wc']) if p['hi'] else None
            c = _emb(hw, lambda: py4hw.logic.arithmetic.Counter(hw, 'cnt', rs, inc, q))
        reg = regs_of(c)[0]
        ins = [rs if rs is not None else hw.wire('_r', 1), inc if inc is not None else hw.wire('_i', 1)]
        return Inst(hw, ins, lambda: [], lambda: [q.get()], lambda: [reg.value])
    def _rng(self, p): return (R(p['wc']) if p['hr'] else [0], R(p['wc']) if p['hi'] else [0])
    def alphabet(self, p): return prod(*self._rng(p))
    def rand_row(self, p, rng): return [rng.choice(list(x)) for x in self._rng(p)]
    def model(self, p): return 'counter_trace %d %s %s' % (p['w'], blit(p['hi']), blit(p['hr']))
    def spec(self, p): return 'counter_spec_trace %d %s %s' % (p['w'], blit(p['hi']), blit(p['hr']))


class BModCounter(Block):
    name = 'ModuloCounter'
    def configs(self, quick):
        cs = [dict(w=1, m=1), dict(w=1, m=2), dict(w=2, m=1), dict(w=2, m=2), dict(w=2, m=3), dict(w=2, m=4), dict(w=3, m=5), dict(w=3, m=8), dict(w=4, m=10)]
        if not quick: cs += [dict(w=3, m=m) for m in (1, 2, 3, 4, 6, 7)] + [dict(w=5, m=17), dict(w=5, m=32), dict(w=7, m=100)]
        return cs
    def build(self, p):
        py4hw = P()
        with quiet():
            hw = py4hw.HWSystem()
            q, rs, inc, co = hw.wire('q', p['w']), hw.wire('reset', 1), hw.wire('inc', 1), hw.wire('carry', 1)
            c = _emb(hw, lambda: py4hw.logic.arithmetic.ModuloCounter(hw, 'cnt', p['m'], rs, inc, q, co))
        reg = regs_of(c)[0]
        return Inst(hw, [rs, inc], lambda: [], lambda: [q.get(), co.get()], lambda: [reg.value])
    def alphabet(self, p): return prod(R(1), R(1))
    def rand_row(self, p, rng): return [int(rng.random() < .15), int(rng.random() < .8)]
    def model(self, p): return 'modcounter_trace %d 1 %d' % (p['w'], p['m'])
    def spec(self, p): return 'modcounter_spec_trace %d' % p['m']


class BStepUp(Block):
    name = 'StepUpCounter'
    def configs(self, quick):
        cs = [dict(w=1, hr=True, ws=1), dict(w=2, hr=True, ws=2), dict(w=2, hr=False, ws=1), dict(w=3, hr=True, ws=2), dict(w=8, hr=True, ws=8)]
        if not quick: cs += [dict(w=2, hr=True, ws=3), dict(w=4, hr=False, ws=4)]
        return cs
    def build(self, p):
        py4hw = P()
        with quiet():
            hw = py4hw.HWSystem()
            q, inc, st = hw.wire('q', p['w']), hw.wire('inc', 1), hw.wire('step', p['ws'])
            rs = hw.wire('reset', 1) if p['hr'] else None
            c = _emb(hw, lambda: py4hw.logic.arithmetic.StepUpCounter(hw, 'cnt', rs, inc, st, q))
        reg = regs_of(c)[0]
        return Inst(hw, [rs if rs is not None else hw.wire('_r', 1), inc, st], lambda: [], lambda: [q.get()], lambda: [reg.value])
    def _rng(self, p): return (R(1) if p['hr'] else [0], R(1), R(p['ws']))
    def alphabet(self, p): return prod(*self._rng(p)) if p['ws'] <= 3 else None
    def rand_row(self, p, rng): return [rng.choice(list(x)) for x in self._rng(p)]
    def model(self, p): return 'stepup_trace %d %s' % (p['w'], blit(p['hr']))
    def spec(self, p): return 'stepup_spec_trace %d %s' % (p['w'], blit(p['hr']))


class BDelay(Block):
    name = 'DelayLine'
    def configs(self, quick):
        cs = [dict(w=1, wr=1, he=True, hr=True, delay=d) for d in (0, 1, 2, 3)]
        cs += [dict(w=2, wr=2, he=True, hr=False, delay=2), dict(w=1, wr=1, he=False, hr=False, delay=2), dict(w=1, wr=1, he=False, hr=True, delay=1),
               dict(w=3, wr=2, he=True, hr=True, delay=2), dict(w=8, wr=8, he=True, hr=True, delay=5)]
        if not quick: cs += [dict(w=2, wr=2, he=True, hr=True, delay=d) for d in (1, 2, 3, 4)] + [dict(w=4, wr=6, he=True, hr=True, delay=9)]
        return cs
    def build(self, p):
        py4hw = P()
        with quiet():
            hw = py4hw.HWSystem()
            a, r = hw.wire('a', p['w']), hw.wire('r', p['wr'])
            en = hw.wire('en', 1) if p['he'] else None
            rs = hw.wire('reset', 1) if p['hr'] else None
            dl = _emb(hw, lambda: py4hw.logic.storage.DelayLine(hw, 'dl', a, en, rs, r, p['delay']))
        regs = regs_of(dl); assert len(regs) == p['delay']
        qs = [x.q for x in regs]
        ins = [a, en if en is not None else hw.wire('_e', 1), rs if rs is not None else hw.wire('_r', 1)]
        return Inst(hw, ins, lambda: [r.get()], lambda: [r.get()], lambda: [w.get() for w in qs] + [x.value for x in regs])
    def _rng(self, p): return (R(p['w']), R(1) if p['he'] else [0], R(1) if p['hr'] else [0])
    def alphabet(self, p): return prod(*self._rng(p)) if p['w'] <= 2 else None
    def rand_row(self, p, rng): return [rng.choice(list(self._rng(p)[0])), int(rng.random() < .7) if p['he'] else 0, int(rng.random() < .1) if p['hr'] else 0]
    def _a(self, p): return '%d %d %s %s %d%%nat' % (p['w'], p['wr'], blit(p['he']), blit(p['hr']), p['delay'])
    def model(self, p): return 'delay_trace ' + self._a(p)
    def spec(self, p): return 'delay_spec_trace ' + self._a(p)


class BPipe(Block):
    name = 'PipelinePhase'
    def configs(self, quick):
        cs = [dict(wi=[1], wo=[1]), dict(wi=[2, 1], wo=[2, 1]), dict(wi=[3, 2], wo=[2, 3]), dict(wi=[8, 4, 1], wo=[8, 4, 1])]
        return cs
    def build(self, p):
        py4hw = P()
        with quiet():
            hw = py4hw.HWSystem()
            ins = [hw.wire('i%d' % k, w) for k, w in enumerate(p['wi'])]
            outs = [hw.wire('o%d' % k, w) for k, w in enumerate(p['wo'])]
            rs = hw.wire('reset', 1)
            pp = _emb(hw, lambda: py4hw.logic.storage.PipelinePhase(hw, 'pp', rs, ins, outs))
        regs = regs_of(pp); assert len(regs) == len(ins)
        return Inst(hw, ins + [rs], lambda: [], lambda: [w.get() for w in outs], lambda: [x.value for x in regs])
    def _rng(self, p): return tuple(R(w) for w in p['wi']) + (R(1),)
    def alphabet(self, p): return prod(*self._rng(p)) if sum(p['wi']) <= 5 else None
    def rand_row(self, p, rng): return [rng.choice(list(x)) for x in self._rng(p)[:-1]] + [int(rng.random() < .2)]
    def model(self, p): return 'pipe_trace ' + zlist(p['wo'])
    def spec(self, p): return 'pipe_spec_trace ' + zlist(p['wo'])


class BEdge(Block):
    name = 'EdgeDetector'
    def configs(self, quick): return [dict(dir=d) for d in ('pos', 'neg', 'both')]
    def build(self, p):
        py4hw = P()
        with quiet():
            hw = py4hw.HWSystem()
            a, r = hw.wire('a', 1), hw.wire('r', 1)
            ed = _emb(hw, lambda: py4hw.logic.clock.EdgeDetector(hw, 'ed', a, r, p['dir']))
        reg = regs_of(ed)[0]; z1 = reg.q
        return Inst(hw, [a], lambda: [r.get()], lambda: [r.get()], lambda: [z1.get(), reg.value])
    def alphabet(self, p): return [[0], [1]]
    def rand_row(self, p, rng): return [rng.randint(0, 1)]
    def model(self, p): return 'edge_trace %s 1' % {'pos': 'Pos', 'neg': 'Neg', 'both': 'Both'}[p['dir']]
    def spec(self, p): return 'edge_spec_trace %s' % {'pos': 'Rising', 'neg': 'Falling', 'both': 'AnyEdge'}[p['dir']]


class BClkDiv(Block):
    name = 'ClockDivider'
    def configs(self, quick):
        cs = [dict(fin=2 * n, fout=1, hr=hr) for n in (1, 2, 3, 4, 5) for hr in (False, True)]
        cs += [dict(fin=10, fout=3, hr=True), dict(fin=50, fout=2, hr=False)]       # non-integer ratio n=1.66 -> 1 ; n = 12.5 -> 12
        if not quick: cs += [dict(fin=2 * n, fout=1, hr=True) for n in (6, 7, 8, 9, 16, 31)]
        return cs
    def build(self, p):
        py4hw = P()
        with quiet():
            hw = py4hw.HWSystem()
            clkout = hw.wire('clkout', 1)
            rs = hw.wire('reset', 1) if p['hr'] else None
            cd = _emb(hw, lambda: py4hw.logic.clock.ClockDivider(hw, 'cd', p['fin'], p['fout'], clkout, reset=rs))
        eq = one_of(cd, 'EqualConstant'); creg, treg = regs_of(cd); q, t = creg.q, eq.r
        p['_n'], p['_qw'] = eq.v + 1, q.getWidth()          # what the constructor really built
        return Inst(hw, [rs] if rs is not None else [], lambda: [], lambda: [clkout.get()], lambda: [q.get(), t.get(), creg.value, treg.value])
    def alphabet(self, p): return prod(R(1)) if p['hr'] else [[]]
    def rand_row(self, p, rng): return [int(rng.random() < .06)] if p['hr'] else []
    def rand_len(self, p, quick): return 4 * p['_n'] + 7
    def model(self, p): return 'clkdiv_trace %d %d 1 %s' % (p['_n'], p['_qw'], blit(p['hr']))
    def spec(self, p): return 'clkdiv_spec_trace %d %s' % (p['_n'], blit(p['hr']))
    def key(self, p): return (self.name, p['fin'], p['fout'], p['hr'])


class BShift(Block):
    name = 'ShiftRegisterBidirectional'
    def configs(self, quick):
        cs = [dict(w=1, depth=d) for d in (1, 2, 3)] + [dict(w=2, depth=2), dict(w=8, depth=4)]
        if not quick: cs += [dict(w=1, depth=4), dict(w=2, depth=3), dict(w=3, depth=6)]
        return cs
    def build(self, p):
        py4hw = P()
        with quiet():
            hw = py4hw.HWSystem()
            w = p['w']
            li, ri, lo, ro = hw.wire('li', w), hw.wire('ri', w), hw.wire('lo', w), hw.wire('ro', w)
            sl, sr = hw.wire('sl', 1), hw.wire('sr', 1)
            s = _emb(hw, lambda: py4hw.logic.storage.ShiftRegisterBidirectional(hw, 'srb', li, ri, lo, ro, sl, sr, p['depth']))
        regs = regs_of(s); assert len(regs) == p['depth']
        qs = [x.q for x in regs]
        return Inst(hw, [li, ri, sl, sr], lambda: [], lambda: [lo.get(), ro.get()], lambda: [x.get() for x in qs] + [x.value for x in regs])
    def alphabet(self, p): return prod(R(p['w']), R(p['w']), R(1), R(1)) if p['w'] <= 2 else None
    def rand_row(self, p, rng): return [rng.randrange(1 << p['w']), rng.randrange(1 << p['w']), int(rng.random() < .4), int(rng.random() < .5)]
    def model(self, p): return 'srb_trace %d %d%%nat' % (p['w'], p['depth'])
    def spec(self, p): return 'srb_spec_trace %d %d%%nat' % (p['w'], p['depth'])


class BStack(Block):
    name = 'Stack_ShiftRegister'
    def configs(self, quick):
        cs = [dict(w=1, depth=1, flags=False), dict(w=1, depth=2, flags=True), dict(w=2, depth=2, flags=False), dict(w=2, depth=3, flags=False), dict(w=8, depth=4, flags=False)]
        if not quick: cs += [dict(w=1, depth=3, flags=False), dict(w=1, depth=4, flags=False), dict(w=2, depth=4, flags=False), dict(w=4, depth=7, flags=False)]
        return cs
    def build(self, p):
        py4hw = P()
        with quiet():
            hw = py4hw.HWSystem()
            w = p['w']
            din, dout, push, pop = hw.wire('din', w), hw.wire('dout', w), hw.wire('push', 1), hw.wire('pop', 1)
            em, fu = (hw.wire('empty', 1), hw.wire('full', 1)) if p['flags'] else (None, None)
            st = _emb(hw, lambda: py4hw.logic.storage.Stack_ShiftRegister(hw, 'stk', din, dout, push, pop, em, fu, p['depth']))
        allregs = regs_of(st); assert len(allregs) == p['depth'] + 1
        regs, dreg = allregs[:-1], allregs[-1]          # the row of the shift register, then the output register
        qs = [x.q for x in regs]
        return Inst(hw, [din, push, pop], lambda: [], lambda: [dout.get()], lambda: [x.get() for x in qs] + [x.value for x in regs] + [dreg.value])
    def alphabet(self, p): return prod(R(p['w']), R(1), R(1)) if p['w'] <= 2 else None
    def rand_row(self, p, rng): return [rng.randrange(1 << p['w']), int(rng.random() < .6), int(rng.random() < .35)]
    def model(self, p): return 'stack_trace %d %d%%nat' % (p['w'], p['depth'])
    def spec(self, p): return 'stack_spec_trace %d %d%%nat' % (p['w'], p['depth'])


class BMem(Block):
    name = 'SynchronousMemory'
    def configs(self, quick):
        cs = [dict(aw=1, dw=1, wr=1), dict(aw=1, dw=2, wr=2), dict(aw=2, dw=1, wr=1), dict(aw=2, dw=4, wr=3), dict(aw=4, dw=8, wr=8)]
        if not quick: cs += [dict(aw=2, dw=2, wr=2), dict(aw=3, dw=3, wr=5), dict(aw=6, dw=5, wr=5)]
        return cs
    def build(self, p):
        py4hw = P()
        with quiet():
            hw = py4hw.HWSystem()
            ra, wa, we = hw.wire('ra', p['aw']), hw.wire('wa', p['aw']), hw.wire('we', 1)
            rd, wd = hw.wire('rd', p['wr']), hw.wire('wd', p['dw'])
            m = _emb(hw, lambda: py4hw.logic.storage.SynchronousMemory(hw, 'mem', ra, wa, we, rd, wd))
        return Inst(hw, [ra, wa, we, wd], lambda: [], lambda: [rd.get()], lambda: list(m.data))
    def alphabet(self, p): return prod(R(p['aw']), R(p['aw']), R(1), R(p['dw'])) if 2 * p['aw'] + p['dw'] <= 4 else None
    def rand_row(self, p, rng):
        k = min(1 << p['aw'], 4)        # a few hot addresses so that reads meet earlier writes
        return [rng.randrange(k), rng.randrange(k), int(rng.random() < .6), rng.randrange(1 << p['dw'])]
    def model(self, p): return 'mem_trace %d %d' % (p['aw'], p['wr'])
    def spec(self, p): return 'mem_spec_trace %d' % p['wr']


class BAutoReset(Block):
    name = 'AutoReset'
    def configs(self, quick): return [dict(w=1), dict(w=2)]
    def build(self, p):
        py4hw = P()
        with quiet():
            hw = py4hw.HWSystem()
            r = hw.wire('reset', p['w'])
            ar = _emb(hw, lambda: py4hw.logic.clock.AutoReset(hw, 'ar', r))
        return Inst(hw, [], lambda: [], lambda: [r.get()], lambda: [ar.state])
    def alphabet(self, p): return [[]]
    def rand_row(self, p, rng): return []
    def model(self, p): return 'ar_trace %d' % p['w']
    def spec(self, p): return 'ar_spec_trace %d' % p['w']


class BDualPort(Block):
    name = 'DualPortSynchronousMemory'
    def configs(self, quick):
        cs = [dict(aw=1, dw=1, wr=1), dict(aw=2, dw=4, wr=4), dict(aw=3, dw=8, wr=5)]
        if not quick: cs += [dict(aw=1, dw=2, wr=2), dict(aw=5, dw=6, wr=6)]
        return cs
    def build(self, p):
        py4hw = P()
        with quiet():
            hw = py4hw.HWSystem()
            aw, dw, wr = p['aw'], p['dw'], p['wr']
            W = hw.wire
            raa, waa, wa, rda, wda = W('raa', aw), W('waa', aw), W('wa', 1), W('rda', wr), W('wda', dw)
            rab, wab, wb, rdb, wdb = W('rab', aw), W('wab', aw), W('wb', 1), W('rdb', wr), W('wdb', dw)
            m = _emb(hw, lambda: py4hw.logic.storage.DualPortSynchronousMemory(hw, 'mem', raa, waa, wa, rda, wda, rab, wab, wb, rdb, wdb))
        return Inst(hw, [raa, waa, wa, wda, rab, wab, wb, wdb], lambda: [], lambda: [rda.get(), rdb.get()], lambda: list(m.data))
    def alphabet(self, p): return prod(R(p['aw']), R(p['aw']), R(1), R(p['dw']), R(p['aw']), R(p['aw']), R(1), R(p['dw'])) if 4 * p['aw'] + 2 * p['dw'] <= 6 else None
    def rand_row(self, p, rng):
        k = min(1 << p['aw'], 3)        # a few hot addresses: reads meet earlier and same-edge writes of either port
        return [rng.randrange(k), rng.randrange(k), int(rng.random() < .6), rng.randrange(1 << p['dw']),
                rng.randrange(k), rng.randrange(k), int(rng.random() < .5), rng.randrange(1 << p['dw'])]
    def model(self, p): return 'dp_trace %d %d %d' % (p['aw'], p['wr'], p['wr'])
    def spec(self, p): return 'dp_spec_trace %d %d' % (p['wr'], p['wr'])


BLOCKS = [BReg(), BTReg(), BCounter(), BModCounter(), BStepUp(), BDelay(), BPipe(), BEdge(), BClkDiv(), BShift(), BStack(), BMem(), BDualPort(), BAutoReset()]
BY_NAME = {b.name: b for b in BLOCKS}


# ------------------------------------------------------------------ history generation on the REAL block
def explore(blk, p, depth, cap):
    """breadth-first over the implementation's distinct states: every (state reachable in < depth edges) x (input row).
    returns list of (history, impl_rows) with impl_rows[0] = power-up row."""
    inst = blk.build(p)
    alpha = blk.alphabet(p)
    row0 = inst.powerup_row()
    s0 = inst.snap()
    seen = {s0}
    frontier = [([], [row0], s0)]
    cases = [([], [row0])]                       # the power-up row
    for d in range(depth):
        nxt = []
        for hist, rows, s in frontier:
            for a in alpha:
                inst.restore(s)
                row = inst.step(a)
                cases.append((hist + [a], rows + [row]))
                s2 = inst.snap()
                if s2 not in seen:
                    seen.add(s2); nxt.append((hist + [a], rows + [row], s2))
            if len(cases) >= cap: break
        frontier = nxt
        if not frontier or len(cases) >= cap: break
    return cases, len(seen), inst.n_out()


def random_hist(blk, p, rng, length):
    inst = blk.build(p)
    rows = [inst.powerup_row()]
    hist = []
    for k in range(length):
        a = blk.rand_row(p, rng)
        hist.append(a); rows.append(inst.step(a))
    return hist, rows, inst.n_out()


# ------------------------------------------------------------------ evaluation in Coq
def coq_eval_nobuild(tag, prelude, items, timeout=900):
    """common.coq_eval without the per-call `make` of the prelude's libraries (the caller builds them once: every
    call of common.build takes the shared build lock, which serialises parallel case files)."""
    import os, re
    os.makedirs(common.CASES, exist_ok=True)
    path = os.path.join(common.CASES, tag + '.v')
    body = [prelude, 'Set Printing Width 1000000.', 'Set Printing Depth 1000000.']
    for name, term in items:
        body += ['Definition case_%s := %s.' % (name, term), 'Goal True. idtac "@@BEGIN %s". Abort.' % name,
                 'Eval vm_compute in case_%s.' % name, 'Goal True. idtac "@@END %s". Abort.' % name]
    open(path, 'w').write('\n'.join(body) + '\n')
    rc, out = common.sh('ulimit -s unlimited 2>/dev/null; timeout %d coqc -Q . V Cases/%s.v' % (timeout, tag), timeout=timeout + 30, cwd=common.COQ)
    for ext in ('.vo', '.vok', '.vos', '.glob'):
        try: os.remove(os.path.join(common.CASES, tag + ext))
        except OSError: pass
    try: os.remove(os.path.join(common.CASES, '.' + tag + '.aux'))
    except OSError: pass
    if rc != 0:
        raise RuntimeError('coqc failed on Cases/%s.v:\n%s' % (tag, out[-3000:]))
    res = {}
    for name, _ in items:
        m = re.search(r'@@BEGIN %s\n(.*?)@@END %s' % (re.escape(name), re.escape(name)), out, re.S)
        if not m: raise RuntimeError('no output for case %s' % name)
        txt = m.group(1).strip()[1:]
        depth = 0; cut = len(txt)
        for i, ch in enumerate(txt):
            if ch in '([': depth += 1
            elif ch in ')]': depth -= 1
            elif ch == ':' and depth == 0 and txt[i:i + 2] != ':=':
                cut = i; break
        res[name] = common.parse_coq_value(txt[:cut])
    return res


def eval_batches(ctx, cases, tag):
    """cases: list of dict(blk, p, hist, rows).  Returns (failing, spec_only): failing = list of (case, model_diff, spec_diff).
    When the block models no longer compile against the regenerated leaves, only the reference machines are evaluated
    (spec_only = True): the search impl-vs-spec does not depend on the models."""
    B = min(1200, max(100, -(-len(cases) // 8)))         # 8 parallel case files: the fixed cost of a file (library loading) dominates
    batches = [cases[i:i + B] for i in range(0, len(cases), B)]
    b = common.build(['Model/SeqBlocksRun.vo'], timeout=900)
    spec_only = not b['ok']
    if spec_only:
        ctx.notes['model_library_broken'] = b['msg']
        b2 = common.build(['Model/SeqSpecRun.vo'], timeout=900)
        if not b2['ok']:
            raise RuntimeError('cannot build Model/SeqSpecRun.vo: %s' % b2['msg'])
    prelude = PRELUDE_SPEC if spec_only else PRELUDE
    def run(ib):
        i, batch = ib
        terms = []
        for c in batch:
            h = rows_term(c['hist'])
            sp = '(%s %s)' % (c['blk'].spec(c['p']), h)
            md = '' if spec_only else '(%s %s) ' % (c['blk'].model(c['p']), h)
            if c['kind'] == 'embed':
                eh = '[' + '; '.join('(%s, %s)' % (zlist(a), zlist(b)) for a, b in c['ehist']) + ']'
                et = lambda t: t.replace('_trace', '_etrace', 1)
                sp = '(%s %s %s)' % (et(c['blk'].spec(c['p'])), zlist(c['i0']), eh)
                md = '' if spec_only else '(%s %s %s) ' % (et(c['blk'].model(c['p'])), zlist(c['i0']), eh)
                terms.append('%s %s %s%s' % ('ecmp_spec' if spec_only else 'ecmp', rows_term(c['rows']), md, sp))
            elif c['kind'] == 'explore' and c['hist']:
                # every proper prefix of an exploration history is a case of its own: compare the last row only
                terms.append('%s %d%%nat %s %s%s' % ('cmp_last_spec' if spec_only else 'cmp_last', len(c['hist']), zlist(c['rows'][-1]), md, sp))
            else:
                terms.append('%s %s %s%s' % ('cmp_spec' if spec_only else 'cmp', rows_term(c['rows']), md, sp))
        # long list literals elaborate super-linearly: chunks of 40 cases as separate definitions
        chunks = [terms[j:j + 40] for j in range(0, len(terms), 40)]
        pre = prelude + ''.join('Definition chunk%d := [%s].\n' % (j, ';\n '.join(ch)) for j, ch in enumerate(chunks))
        res = coq_eval_nobuild('%s_%d' % (tag, i), pre, [('f', 'failing (%s)' % ' ++ '.join('chunk%d' % j for j in range(len(chunks))))], timeout=900)
        un = lambda o: None if o is None else o[1]        # ('Some', (row, (column, impl, ours)))
        return [(batch[k], un(md), un(sd)) for (k, (md, sd)) in res['f']]
    out = []
    with ThreadPoolExecutor(max_workers=8) as ex:
        for r in ex.map(run, list(enumerate(batches))):
            out += r
    return out, spec_only


def spec_rows(blk, p, hist):
    s = coq_eval_nobuild('C09_specrows', PRELUDE_SPEC, [('s', '%s %s' % (blk.spec(p), rows_term(hist)))])['s']
    try:
        m = coq_eval_nobuild('C09_modelrows', PRELUDE, [('m', '%s %s' % (blk.model(p), rows_term(hist)))])['m']
    except Exception:
        m = None                    # the block models do not compile against the regenerated leaves
    return s, m


def run_impl(blk, p, hist):
    inst = blk.build(p)
    rows = [inst.powerup_row()]
    for a in hist:
        rows.append(inst.step(a))
    return rows, inst.n_out()


def clean(p): return {k: v for k, v in p.items() if not k.startswith('_')}


# ------------------------------------------------------------------ DualPortSynchronousMemory (not translated: its clock() does not run)
def dualport(ctx):
    """permanent plain-Python two-port reference, independent of the Coq model: every edge, both read ports return the content
    before the edge (also when the other port writes that cell at this edge); then port a's write, then port b's (b wins).
    Both former findings on this block are FIXED (/repo 057b2af: clock() raised on undefined names; c99dcdd: port b saw port a's
    same-edge write): fixed entries suppress nothing, so a raise or a deviation is a VIOLATION."""
    py4hw = P()
    def mk(aw, dw):
        with quiet():
            hw = py4hw.HWSystem()
            ws = {n: hw.wire(n, w) for n, w in (('raa', aw), ('waa', aw), ('wa', 1), ('rda', dw), ('wda', dw), ('rab', aw), ('wab', aw), ('wb', 1), ('rdb', dw), ('wdb', dw))}
            m = py4hw.logic.storage.DualPortSynchronousMemory(hw, 'm', ws['raa'], ws['waa'], ws['wa'], ws['rda'], ws['wda'],
                                                              ws['rab'], ws['wab'], ws['wb'], ws['rdb'], ws['wdb'])
            sim = hw.getSimulator()
        return hw, ws, m, sim
    hw, ws, m, sim = mk(2, 4)
    try:
        with quiet():
            sim.clk(1)
    except (AttributeError, NameError) as ex:
        P().Wire.prepared = []          # the aborted clock() left a prepared wire behind
        ctx.count(('DualPortSynchronousMemory', 'first-edge'))
        kf = [k for k in ctx.known if k['id'] == 'C09-dualport-undefined-names' and k['status'] == 'known']
        if kf:
            ctx.known_finding(kf[0]['id'], kf[0]['text'] + ' [observed: %s: %s]' % (type(ex).__name__, ex))
        else:
            ctx.violation({'what': 'DualPortSynchronousMemory.clock() raises on the first edge', 'block': 'DualPortSynchronousMemory',
                           'recipe': {'block': 'DualPortSynchronousMemory', 'params': {'aw': 2, 'dw': 4}}, 'inputs': [[0] * 6],
                           'expected': 'an edge that reads both ports and applies the writes', 'observed': '%s: %s' % (type(ex).__name__, ex)})
        return
    # repaired: reference check
    rng = random.Random(ctx.seed + 77)
    for aw, dw in ((1, 2), (2, 4)):
        hw, ws, m, sim = mk(aw, dw)
        ref = [0] * (1 << aw)
        hist = []
        for k in range(60 if ctx.quick else 400):
            i = dict(raa=rng.randrange(1 << aw), waa=rng.randrange(1 << aw), wa=rng.randint(0, 1), wda=rng.randrange(1 << dw),
                     rab=rng.randrange(1 << aw), wab=rng.randrange(1 << aw), wb=rng.randint(0, 1), wdb=rng.randrange(1 << dw))
            hist.append(i)
            for n, v in i.items(): ws[n].put(v)
            with quiet(): sim.clk(1)
            ctx.count(('DualPortSynchronousMemory', aw, dw))
            exp_a = [ref[i['raa']]]
            exp_b = [ref[i['rab']]]
            got = (ws['rda'].get(), ws['rdb'].get())
            nxt = list(ref)
            if i['wa']: nxt[i['waa']] = i['wda']
            if i['wb']: nxt[i['wab']] = i['wdb']
            alts = [nxt]
            if got[0] not in exp_a or got[1] not in exp_b or list(m.data) not in alts:
                ctx.violation({'what': 'DualPortSynchronousMemory does not behave as a two-port memory with read-before-write on both ports (Python reference)', 'block': 'DualPortSynchronousMemory',
                               'recipe': {'block': 'DualPortSynchronousMemory', 'params': {'aw': aw, 'dw': dw}}, 'inputs': hist,
                               'expected': {'readdata_a in': exp_a, 'readdata_b in': exp_b, 'data in': alts}, 'observed': {'readdata': got, 'data': list(m.data)}})
                return
            ref = list(m.data)


# ------------------------------------------------------------------ the constructor's netlist under the kernel model
def netlist_tie(ctx, rng, n_steps):
    """dump what each constructor REALLY instantiated (leaves, wiring, order) and run it under Model/SimKernel in Coq against
    the real simulator (ties the wiring to Coq independently of the hand-written block models)."""
    batch, names = [], []
    for blk in BLOCKS:
        cfgs = blk.configs(True)
        for p in (cfgs[-1], cfgs[len(cfgs) // 2]):
            p = dict(p)
            try:
                inst = blk.build(p)
                dp = netlist.Dump(inst.hw)
            except netlist.NotDumpable as ex:
                ctx.notes.setdefault('netlist_not_dumpable', []).append('%s: %s' % (blk.name, ex)); continue
            iv = dp.values()
            steps = []
            for k in range(n_steps):
                row = blk.rand_row(p, rng)
                steps.append(([(dp.w(w), v) for w, v in zip(inst.ins, row)], 1))
            trace = dp.run_impl(steps)
            batch.append((dp, steps, iv, trace)); names.append((blk.name, clean(p)))
            ctx.count(('netlist', blk.name, json.dumps(clean(p), sort_keys=True, default=str)), n=n_steps)
    diffs = netlist.compare('C09_kernel', batch)
    bad = [(n, d) for n, d in zip(names, diffs) if d is not None]
    ctx.notes['netlist_designs_compared'] = len(batch)
    return bad


def design_term_tie(ctx):
    """the hand-written netlist terms of Proofs/C09/Netlist.v (`counter_design`, `treg_design`: the subjects of the C09_*_netlist_refines
    theorems) against what the constructors REALLY build now: the live block is dumped (netlist.Dump) and the instantiated hand-written term
    must be convertible to the dump (`reflexivity`: leaf functions, wire ids, leaf order, widths, clock driver).  Ports are created in the
    order the terms assume (reset, inc, q / t, e, r, q).  Returns the list of configurations whose terms differ."""
    import os, re
    py4hw = P()
    defs, goals, labels = [], [], []
    def add(label, dp, term, st0):
        k = len(labels); labels.append(label)
        defs.append(dp.coq_design('dump_%d' % k))
        goals.append('Goal True. tryif (assert (%s = dump_%d /\\ %s = dump_%d_st0) by (split; reflexivity)) then idtac "@@SAME %d" else idtac "@@DIFF %d". Abort.' % (term, k, st0, k, k, k))
    for (w, wc, hi, hr) in [(4, 1, True, True), (1, 1, True, False), (3, 1, False, True), (2, 1, False, False), (7, 2, True, True), (8, 3, True, True)]:
        with quiet():
            hw = py4hw.HWSystem()
            rs = hw.wire('reset', wc) if hr else None
            inc = hw.wire('inc', wc) if hi else None
            q = hw.wire('q', w)
            py4hw.logic.arithmetic.Counter(hw, 'cnt', rs, inc, q)
            dp = netlist.Dump(hw)
        add('Counter(w=%d, wc=%d, inc=%s, reset=%s)' % (w, wc, hi, hr), dp, 'counter_design %d %d %d %s %s' % (w, wc, wc, blit(hi), blit(hr)), 'counter_st0')
        ctx.count(('design_term', 'Counter', w, wc, hi, hr))
    for (wt, we, wr, he, hr) in [(1, 1, 1, True, True), (1, 1, 1, True, False), (1, 1, 1, False, True), (1, 1, 1, False, False), (2, 2, 3, True, True)]:
        with quiet():
            hw = py4hw.HWSystem()
            t = hw.wire('t', wt)
            e = hw.wire('e', we) if he else None
            r = hw.wire('r', wr) if hr else None
            q = hw.wire('q', 1)
            py4hw.logic.storage.TReg(hw, 'treg', t, q, enable=e, reset=r)
            dp = netlist.Dump(hw)
        add('TReg(wt=%d, we=%d, wr=%d, e=%s, r=%s)' % (wt, we, wr, he, hr), dp, 'treg_design 1 %d %d %d %s %s' % (wt, we, wr, blit(he), blit(hr)), 'counter_st0')
        ctx.count(('design_term', 'TReg', wt, we, wr, he, hr))
    for (w, wo, we, wr, he, hr, delay) in [(4, 4, 1, 1, True, True, 0), (4, 4, 1, 1, True, True, 1), (3, 3, 1, 1, True, True, 3), (8, 8, 1, 1, False, False, 2),
                                           (2, 2, 1, 1, True, False, 2), (5, 5, 1, 1, False, True, 4), (1, 1, 2, 2, True, True, 2)]:
        with quiet():
            hw = py4hw.HWSystem()
            a = hw.wire('a', w)
            en = hw.wire('en', we) if he else None
            rs = hw.wire('reset', wr) if hr else None
            r = hw.wire('r', wo)
            py4hw.logic.storage.DelayLine(hw, 'dl', a, en, rs, r, delay)
            dp = netlist.Dump(hw)
        add('DelayLine(w=%d, wo=%d, we=%d, wr=%d, en=%s, reset=%s, delay=%d)' % (w, wo, we, wr, he, hr, delay), dp,
            'delayline_design %d %d %d %d %s %s %d%%nat' % (w, wo, we, wr, blit(he), blit(hr), delay), 'delayline_st0 %d%%nat' % delay)
        ctx.count(('design_term', 'DelayLine', w, wo, we, wr, he, hr, delay))
    tag = 'C09_designterms'
    path = os.path.join(common.CASES, tag + '.v'); os.makedirs(common.CASES, exist_ok=True)
    pre = ('From V Require Import Base.PyInt Gen.WireOps Gen.Helpers Gen.Prims Gen.Seq Model.SimKernel Model.Trace.\nFrom V Require Import Proofs.C09.Netlist Proofs.C09.NetlistDelay.\n'
           'From Coq Require Import List ZArith. Import ListNotations. Open Scope Z_scope.\n')
    open(path, 'w').write(pre + '\n'.join(defs) + '\n' + '\n'.join(goals) + '\n')
    rc, out = common.sh('timeout 600 coqc -Q . V Cases/%s.v' % tag, timeout=630, cwd=common.COQ)
    for ext in ('.vo', '.vok', '.vos', '.glob'):
        try: os.remove(os.path.join(common.CASES, tag + ext))
        except OSError: pass
    if rc != 0:
        return [('all', 'Cases/%s.v does not compile against Proofs/C09/Netlist.v: %s' % (tag, out[-600:]))]
    same = set(int(x) for x in re.findall(r'@@SAME (\d+)', out)); diff = set(int(x) for x in re.findall(r'@@DIFF (\d+)', out))
    ctx.notes['design_terms_convertible_to_live_dumps'] = '%d of %d' % (len(same), len(labels))
    return [(labels[k], 'hand-written netlist term is not convertible to the dump of the live block') for k in range(len(labels)) if k not in same]


# ------------------------------------------------------------------ driver
def sweep(ctx, tier_quick, only=None, boost=1):
    """returns (spec_failures, model_failures): lists of (case, model_diff, spec_diff)"""
    cases = []
    stats = {}
    raised = set()
    rng = random.Random(ctx.seed * 7919 + (0 if tier_quick else 1) + boost)
    depth = (6 if tier_quick else 7) + (boost - 1)
    cap = (800 if tier_quick else 6000) * boost
    nrand, lrand = ((4, 20) if tier_quick else (20, 64))
    nrand *= boost
    for blk in BLOCKS:
        if only and blk.name not in only: continue
        for p in blk.configs(tier_quick):
            p = dict(p)
            st = stats.setdefault(blk.name, {'configs': 0, 'explored_cases': 0, 'random_histories': 0, 'states': 0})
            st['configs'] += 1
            try:
                if blk.alphabet(p) is not None:
                    cs, nstates, nout = explore(blk, p, depth, cap)
                    st['explored_cases'] += len(cs); st['states'] += nstates
                    for h, rows in cs:
                        cases.append({'blk': blk, 'p': p, 'hist': h, 'rows': rows, 'kind': 'explore'})
                        ctx.count(blk.key(p) + (json.dumps(h),), n=1)
                for k in range(nrand):
                    L = blk.rand_len(p, tier_quick) if hasattr(blk, 'rand_len') else lrand
                    h, rows, nout = random_hist(blk, p, rng, L)
                    st['random_histories'] += 1
                    cases.append({'blk': blk, 'p': p, 'hist': h, 'rows': rows, 'kind': 'random'})
                    ctx.count(blk.key(p) + ('rnd', k, boost), n=len(h))
            except Exception as ex:
                # every configuration in the catalogue is legal and builds / runs on the pinned tree: an exception is a failure of the block
                P().Wire.prepared = []
                if (blk.name, 'raised') not in raised:
                    raised.add((blk.name, 'raised'))
                    ctx.violation({'what': '%s cannot be built / clocked in a legal configuration: %s: %s' % (blk.name, type(ex).__name__, ex), 'block': blk.name,
                                   'recipe': {'block': blk.name, 'params': clean(p), 'drive': 'construct, getSimulator(), clk(1)'}, 'inputs': [],
                                   'expected': 'the block is built and follows its reference machine', 'observed': traceback.format_exc()[-1200:]})
    # the same blocks embedded in a larger design: inputs driven by other library logic, all instantiation orders
    n_emb = 0
    for blk in BLOCKS:
        if only and blk.name not in only: continue
        cfgs = blk.configs(True)
        pick = cfgs if not tier_quick else [cfgs[0], cfgs[len(cfgs) // 2], cfgs[-1]]
        for ci, p0 in enumerate(pick):
            for order in ('block_first', 'sources_first', 'mixed'):
                for mode in ('auto', 'ext', 'regdom'):
                    p = dict(p0)
                    seed = ctx.seed * 1009 + ci * 31 + boost
                    try:
                        i0, eh, rows, pokes = run_embedded(blk, p, order, mode, seed, 24 if tier_quick else 60)
                    except Exception as ex:
                        P().Wire.prepared = []
                        if (blk.name, 'emb') not in raised:
                            raised.add((blk.name, 'emb'))
                            ctx.violation({'what': '%s cannot be built / clocked when embedded in a larger design (%s, %s): %s: %s' % (blk.name, order, mode, type(ex).__name__, ex),
                                           'block': blk.name, 'recipe': {'block': blk.name, 'params': clean(p), 'embedded': {'order': order, 'mode': mode, 'seed': seed}},
                                           'inputs': [], 'expected': 'the design is built and runs', 'observed': traceback.format_exc()[-1200:]})
                        continue
                    cases.append({'blk': blk, 'p': p, 'kind': 'embed', 'order': order, 'mode': mode, 'seed': seed, 'i0': i0, 'ehist': eh, 'rows': rows,
                                  'pokes': pokes, 'hist': [x[0] for x in eh]})
                    ctx.count(blk.key(p) + ('embedded', order, mode), n=len(eh))
                    n_emb += 1
    stats['_embedded_runs'] = n_emb
    ctx.notes.setdefault('sweeps', []).append({'quick': tier_quick, 'boost': boost, 'depth': depth, 'cases': len(cases), 'per_block': stats})
    ctx.log('sweep: %d histories on the real blocks; evaluating models and reference machines in Coq' % len(cases))
    fails, spec_only = eval_batches(ctx, cases, 'C09_sweep%d' % boost)
    spec_f = [f for f in fails if f[2] is not None]
    model_f = [f for f in fails if f[1] is not None]
    if spec_only:
        model_f.append(('coq', 'Model/SeqBlocks(Run).v does not compile against the regenerated leaves: %s' % ctx.notes.get('model_library_broken'), None))
    for c in cases[:: max(1, len(cases) // 6)]:
        ctx.sample({'block': c['blk'].name, 'params': clean(c['p']), 'inputs': c['hist'][:8], 'impl_rows(powerup first)': c['rows'][:9]})
    return spec_f, model_f


def report_spec_failures(ctx, spec_f):
    """one violation per block: the shortest failing history, with the reference rows"""
    by = {}
    for c, md, sd in spec_f:
        k = c['blk'].name
        rank = lambda x: (x['kind'] == 'embed', len(x['hist']))       # prefer a stand-alone (poked) history: simpler to replay
        if k not in by or rank(c) < rank(by[k][0]):
            by[k] = (c, md, sd)
    for k, (c, md, sd) in sorted(by.items()):
        step = sd[0]
        if c['kind'] == 'embed':
            eh = c['ehist'][:step]
            try:
                t = '%s %s [%s]' % (c['blk'].spec(c['p']).replace('_trace', '_etrace', 1), zlist(c['i0']),
                                    '; '.join('(%s, %s)' % (zlist(a), zlist(b)) for a, b in eh))
                srows = coq_eval_nobuild('C09_especrows', PRELUDE_SPEC, [('s', t)])['s']
            except Exception as ex:
                srows = 'unavailable: %s' % ex
            ncol = len(srows[0]) if isinstance(srows, list) and srows else None
            ctx.violation({'what': '%s does not follow its reference state machine when embedded in a larger design (instantiation order %s, inputs driven by library logic)' % (k, c['order']),
                           'block': k,
                           'recipe': {'block': k, 'params': clean(c['p']), 'embedded': {'order': c['order'], 'mode': c['mode'], 'seed': c['seed']},
                                      'drive': 'Embed(order, mode, seed) adds a Counter + Mul + Bit/Range + gate per input to the same HWSystem; poke the ext wires (mode ext), clk(1), read outputs; nothing else is propagated by hand'},
                           'inputs': c['pokes'][:step], 'steps': step, 'failing_row': step, 'output_column': sd[1][0],
                           'inputs_visible_at_powerup': c['i0'], 'inputs(sampled at the edge, visible after it)': eh,
                           'expected': srows, 'observed': [r[:ncol] for r in c['rows'][:step + 1]],
                           'observed_value': sd[1][1], 'expected_value': sd[1][2]})
            continue
        hist = c['hist'][:step]                      # rows are indexed with power-up = 0, so the failing edge is number `step`
        try:
            srows, mrows = spec_rows(c['blk'], c['p'], hist)
        except Exception as ex:
            srows, mrows = 'unavailable: %s' % ex, None
        rows, nout = run_impl(c['blk'], dict(c['p']), hist)
        ctx.violation({'what': '%s does not follow its reference state machine' % k, 'block': k,
                       'recipe': {'block': k, 'params': clean(c['p']), 'drive': 'poke inputs (row order of the block model), clk(1), read outputs'},
                       'inputs': hist, 'failing_edge': step, 'output_column': sd[1][0],
                       'expected': srows, 'observed': [r[:len(srows[0])] if isinstance(srows, list) and srows else r for r in rows[1:]],
                       'observed_value': sd[1][1], 'expected_value': sd[1][2], 'model_rows': mrows})


def run(ctx):
    ctx.cov['rule'] = ('obligations: theorems of Properties/C09.v; correspondence cases: one case = one input history driven through the REAL block from '
                       'power-up (all outputs, internal register outputs and leaf attributes compared after every edge with the Coq block model, outputs '
                       'with the Coq reference machine); a case is distinct by (block, configuration, input history); histories come from breadth-first '
                       'exploration of the distinct simulator states (exhaustive over small alphabets up to the stated depth), from random draws, and from runs of the block '
                       'embedded in a larger design (inputs driven by a counter + gates, block instantiated first / last / in between)')
    missing = ctx.regen(NEEDED)
    r = ctx.prove(['Properties/C09.v'])
    ctx.log('proofs: %s' % ('ok' if r['ok'] else 'BROKEN at %s (%s)' % (r.get('lemma'), r.get('file'))))
    dualport(ctx)
    try:
        spec_f, model_f = sweep(ctx, ctx.quick)
    except RuntimeError as ex:
        # not even the reference-machine glue could be evaluated
        ctx.notes['sweep_error'] = str(ex)[-2000:]
        spec_f, model_f = [], [('coq', str(ex)[-1500:], None)]
        r = dict(r); r['ok'] = False; r.setdefault('msg', str(ex)[-1500:])
    ctx.log('correspondence sweep done: %d spec mismatches, %d model mismatches' % (len(spec_f), len(model_f)))
    nl_bad = []
    try:
        nl_bad = netlist_tie(ctx, random.Random(ctx.seed + 5), 8 if ctx.quick else 30)
    except Exception as ex:
        ctx.notes['netlist_tie_error'] = traceback.format_exc()[-1500:]
        nl_bad = [(('netlist', {}), 'error: %s' % ex)]
    ctx.log('netlist tie done: %s' % (nl_bad or 'ok'))
    if r['ok'] and not missing:
        try:
            dt_bad = design_term_tie(ctx)
        except Exception as ex:
            ctx.notes['design_term_tie_error'] = traceback.format_exc()[-1500:]
            dt_bad = [(('design_term', {}), 'error: %s' % ex)]
        ctx.log('design-term tie (Proofs/C09/Netlist.v terms = live dumps) done: %s' % (dt_bad or 'ok'))
        nl_bad = nl_bad + [(('design_term %s' % a, {}), b) for a, b in dt_bad]
    tie_ok = not missing and r['ok'] and not model_f and not nl_bad
    if spec_f:
        report_spec_failures(ctx, spec_f)
    elif not tie_ok:
        # proof / tie broken and no failing input yet: widen the search
        culprits = sorted({f[0]['blk'].name for f in model_f if isinstance(f[0], dict)}) or None
        ctx.log('tie or proof broken (%s); widening the search' % (culprits or 'all blocks'))
        found = False
        if 'sweep_error' not in ctx.notes:
            try:
                spec2, _ = sweep(ctx, False, only=culprits, boost=2)
                if spec2:
                    report_spec_failures(ctx, spec2); found = True
            except Exception as ex:
                ctx.notes['widened_search_error'] = str(ex)[-1500:]
        if not found:
            what = ('translator rejected %s: %s' % (missing, {k: ctx.gen['errors'].get(k) for k in missing}) if missing else
                    'proof obligation no longer checks: %s in %s' % (r.get('lemma'), r.get('file')) if not r['ok'] else
                    'block model and real block disagree (correspondence broken)' if model_f else
                    'kernel model run of the dumped netlist and the real simulator disagree, or a hand-written netlist term of Proofs/C09/Netlist.v no longer matches the constructor: %s' % (nl_bad[:2],))
            ex = None
            if model_f and isinstance(model_f[0][0], dict):
                c, md, sd = min(model_f, key=lambda f: len(f[0]['hist']))
                ex = {'block': c['blk'].name, 'params': clean(c['p']), 'inputs': c['hist'], 'impl_rows': c['rows'],
                      'first_difference(row,(column,impl,model))': md}
            ctx.violation({'what': what, 'theorem': r.get('lemma'), 'file': r.get('file'), 'coq_error': r.get('msg'), 'model_mismatch': ex},
                          found_input=False)
    ctx.assumptions += ['a snapshot of all wire values and leaf attributes (value / state / data) determines a block\'s future behaviour (used to '
                        'deduplicate states in the exhaustive exploration)',
                        'Model/SeqBlocks.v mirrors the constructors\' wiring (checked: impl = model on every case incl. internal wires and attributes; '
                        'dumped netlists under the kernel model)',
                        'all clocked leaves of a block share the single un-gated clock driver; combinational settling is complete in one pass (C04)']


# ------------------------------------------------------------------ replay
def replay(rp):
    rec = rp.get('recipe') or {}
    name = rec.get('block')
    if name == 'DualPortSynchronousMemory' and not (rp.get('inputs') and isinstance(rp['inputs'][0], list) and isinstance(rp.get('expected'), list)):
        class C:            # a violation of the plain-Python two-port reference: re-run that reference                                   # minimal ctx
            known, quick, seed = [], True, 1
            def count(self, *a, **k): pass
            def known_finding(self, *a): pass
            def violation(self, d, found_input=True): self.bad = d
        c = C(); dualport(c)
        bad = getattr(c, 'bad', None)
        print('replay: DualPortSynchronousMemory %s' % ('STILL FAILS: %s' % bad['observed'] if bad else 'no longer fails'))
        return 1 if bad else 0
    if name not in BY_NAME or rp.get('kind') == 'broken-obligation':
        print('replay: nothing to drive (broken obligation / harness failure):'); print(json.dumps(rp, indent=1)[:3000]); return 0
    blk = BY_NAME[name]
    if rec.get('embedded') and isinstance(rp.get('expected'), list):
        e = rec['embedded']
        i0, eh, rows, pokes = run_embedded(blk, dict(rec['params']), e['order'], e['mode'], e['seed'], rp['steps'], ext_hist=rp['inputs'] if e['mode'] == 'ext' else None)
        exp = rp['expected']
        obs = [r[:len(exp[0])] for r in rows]
        print('replay %s %s embedded %s' % (name, rec['params'], e)); print(' expected:', exp); print(' observed:', obs)
        print('replay: %s' % ('STILL FAILS' if obs != exp else 'no longer fails'))
        return 1 if obs != exp else 0
    if not rp['inputs'] and isinstance(rp.get('expected'), str):
        try:
            run_impl(blk, dict(rec['params']), [blk.rand_row(dict(rec['params']), random.Random(1))])
            print('replay: %s %s builds and clocks: no longer fails' % (name, rec['params'])); return 0
        except Exception as ex:
            print('replay: %s %s STILL FAILS: %s: %s' % (name, rec['params'], type(ex).__name__, ex)); return 1
    rows, nout = run_impl(blk, dict(rec['params']), rp['inputs'])
    exp = rp['expected']
    obs = [r[:len(exp[0])] for r in rows[1:]] if exp else []
    print('replay %s %s' % (name, rec['params']))
    print(' inputs  :', rp['inputs']); print(' expected:', exp); print(' observed:', obs)
    still = obs != exp
    print('replay: %s' % ('STILL FAILS' if still else 'no longer fails'))
    return 1 if still else 0
